"""C12 — Extraction regions record every input and output they need (DESIGN 5/C12).

Model: coq/C12/InOut.v (`inputs sh r`, `outputs`, from the C11 access-list model; `safe` = must-define
data-flow).  Theorems: coq/Properties/C12.v.  Tie = correspondence:

  * every consecutive-statement region (top level and inside loop / if bodies) of generated routines
    is given to the real `CallTreeUtils.get_in_out_parameters` (option COLLECT-ARRAY-SHAPE-READS off)
    and, through `ExtractTrans.apply` + the generated `ProvideVariable` calls, to `ExtractNode`
    (option on); the reported lists are compared with the model's by vm_compute;
  * the property itself is evaluated on the implementation's lists: the region is run by the
    MiniFortran interpreter from a grid of stores; every upward-exposed read must be of a reported
    input, every written location of a reported output, and a REPLAY from a store in which every
    variable that is not a reported input is poisoned must give the same trace and the same values of
    all reported outputs (in-bounds elements).
  A concrete failure is classified by the model's reason code for the culprit variable; the three
  reasons established on the unchanged tree are known findings, anything else is a VIOLATION."""
import re

from vlib import core, minifort as mf, fortgen

KEYS = {1: "is_written_first/partial-array-write",
        2: "is_written_first/do-variable-read-by-own-bounds",
        3: "is_written_first/conditional-write"}

HEADER = """From Coq Require Import List ZArith Bool. Import ListNotations.
From PV Require Import Fort.Syntax Fort.Sem C11.Access C12.InOut.
Open Scope Z_scope.
Definition safe_case (c : list stmt * bool) : bool := safe (snd c) (fst c).
Definition reads_safe_case (c : list stmt * bool) : bool := reads_safe (snd c) (fst c).
Definition reason_case (c : list stmt * bool * nat * nat) : bool :=
  match c with (r, sh, x, k) => Nat.eqb (reason sh r x) k end.
"""

DECL_ARRAYS = None      # set per routine


# ------------------------------------------------------------------ generator
class Gen12(fortgen.Gen):
    """fortgen.Gen plus the shapes this property is about: inquiry intrinsics (shape reads), scalars
    first written under a condition, arrays written at one element and read at another, DO loops
    whose bounds read the loop variable."""

    def expr(self, env, depth=0):
        r = self.r
        if depth >= 1 and r.random() < 0.06:
            a = r.choice(sorted(self.arrays))
            return ("intr", r.choice(["ISize", "ILbound", "IUbound"]),
                    [("var", a), ("lit", r.randint(1, len(self.arrays[a])))])
        return super().expr(env, depth)

    def targeted(self, env):
        r = self.r
        k = r.randint(0, 5)
        sc = r.choice(["s", "t", "m"])
        if k == 0:      # partial array write then read of another element
            a = r.choice([x for x in sorted(self.arrays) if len(self.arrays[x]) == 1])
            lb, ub = self.arrays[a][0]
            i1, i2 = r.sample(range(lb, ub + 1), 2)
            return [("assign", a, [("lit", i1)], self.expr(env, 1)),
                    ("assign", sc, [], ("idx", a, [("lit", i2)]))]
        if k == 1:      # conditional scalar write then read
            o = r.choice([x for x in ["s", "t", "m"] if x != sc])
            return [("if", self.cond(env), [("assign", sc, [], self.expr(env, 1))], []),
                    ("assign", o, [], ("bin", "Add", ("var", sc), ("lit", 1)))]
        if k == 2:      # DO variable read by its own bounds
            free = [v for v in fortgen.LOOPVARS if v not in env]
            if free:
                v = free[0]
                return [("do", v, ("var", v), ("lit", r.randint(3, 6)), ("lit", 1),
                         [("assign", sc, [], ("bin", "Add", ("var", sc), ("lit", 1)))])]
        if k == 3:      # scalar defined in both branches, then read (inside safe)
            o = r.choice([x for x in ["s", "t", "m"] if x != sc])
            return [("if", self.cond(env), [("assign", sc, [], ("lit", 1))], [("assign", sc, [], ("lit", 2))]),
                    ("assign", o, [], ("var", sc))]
        if k == 4:      # zero-trip loop defining a scalar that is read afterwards
            free = [v for v in fortgen.LOOPVARS if v not in env]
            if free:
                v = free[0]
                o = r.choice([x for x in ["s", "t", "m"] if x != sc])
                return [("do", v, ("lit", 1), ("var", "n"), ("lit", 1), [("assign", sc, [], ("var", v))]),
                        ("assign", o, [], ("var", sc))]
        # shape inquiry only
        a = r.choice(sorted(self.arrays))
        return [("assign", sc, [], ("intr", "ISize", [("var", a), ("lit", 1)]))]

    def block(self, env, depth, in_loop, n):
        out = []
        for _ in range(n):
            if self.r.random() < 0.22:
                out += self.targeted(env)
            else:
                out.append(self.stmt(env, depth, in_loop))
        return out


# ------------------------------------------------------------------ python mirror of the access list
def e_reads(e, sh):
    k = e[0]
    if k == "lit":
        return []
    if k == "var":
        return [e[1]]
    if k == "idx":
        return [x for i in e[2] for x in e_reads(i, sh)] + [e[1]]
    if k == "un":
        return e_reads(e[2], sh)
    if k == "bin":
        return e_reads(e[2], sh) + e_reads(e[3], sh)
    if k == "intr":
        args = e[2]
        if e[1] in ("ISize", "ILbound", "IUbound") and not sh:
            args = args[1:]
        return [x for a in args for x in e_reads(a, sh)]
    raise ValueError(e)


def s_accs(s, sh):
    k = s[0]
    if k == "assign":
        return ([(x, "R") for x in e_reads(s[3], sh)] + [(x, "R") for i in s[2] for x in e_reads(i, sh)]
                + [(s[1], "W")])
    if k == "if":
        return [(x, "R") for x in e_reads(s[1], sh)] + accs(s[2], sh) + accs(s[3], sh)
    if k == "do":
        return ([(s[1], "W"), (s[1], "R")] + [(x, "R") for b in s[2:5] for x in e_reads(b, sh)]
                + accs(s[5], sh))
    if k in ("region", "dir"):
        return accs(s[2], sh)
    return []


def accs(ss, sh):
    return [a for s in ss for a in s_accs(s, sh)]


def e_arrs(e):
    k = e[0]
    if k in ("lit", "var"):
        return []
    if k == "idx":
        return [e[1]] + [x for i in e[2] for x in e_arrs(i)]
    if k == "un":
        return e_arrs(e[2])
    if k == "bin":
        return e_arrs(e[2]) + e_arrs(e[3])
    if k == "intr":
        out = []
        if e[1] in ("ISize", "ILbound", "IUbound") and e[2] and e[2][0][0] == "var":
            out.append(e[2][0][1])
        return out + [x for a in e[2] for x in e_arrs(a)]
    raise ValueError(e)


def s_arrs(ss):
    out = []
    for s in ss:
        k = s[0]
        if k == "assign":
            out += ([s[1]] if s[2] else []) + [x for i in s[2] for x in e_arrs(i)] + e_arrs(s[3])
        elif k == "if":
            out += e_arrs(s[1]) + s_arrs(s[2]) + s_arrs(s[3])
        elif k == "do":
            out += e_arrs(s[2]) + e_arrs(s[3]) + e_arrs(s[4]) + s_arrs(s[5])
        elif k == "print":
            out += [x for e in s[1] for x in e_arrs(e)]
        elif k in ("region", "dir"):
            out += s_arrs(s[2])
    return out


def py_reason(region, sh, x):
    """mirror of InOut.reason (cross-checked against Coq for every use)."""
    al = accs(region, sh)
    first = [k for (y, k) in al if y == x][:1]
    if first != ["W"]:
        return 0
    if x in s_arrs(region):
        return 1
    for s in region:
        if x in [y for y, _ in s_accs(s, sh)]:
            if s[0] == "do" and s[1] == x and x in [v for b in s[2:5] for v in e_reads(b, sh)]:
                return 2
            return 3
    return 3


# ------------------------------------------------------------------ implementation side
def impl_ctu(nodes, sh):
    from psyclone.psyir.tools import CallTreeUtils
    opts = {"COLLECT-ARRAY-SHAPE-READS": True} if sh else None
    rw = CallTreeUtils().get_in_out_parameters(nodes, options=opts)
    return (sorted(str(s).lower() for s in rw.signatures_read),
            sorted(str(s).lower() for s in rw.signatures_written))


PV_RE = re.compile(r'ProvideVariable\("[^"]*",\s*(\w+)\)')


def follow(root_routine, path):
    node = root_routine
    for i in path:
        node = node.children[i]
    return node


def impl_extract(psy, path, lo, hi):
    """ExtractTrans on a copy; -> ("ok", ins, outs) from the generated ProvideVariable calls, or
    ("refused", msg)."""
    from psyclone.psyir.nodes import Routine
    from psyclone.psyir.transformations import ExtractTrans, TransformationError
    from psyclone.psyir.backend.fortran import FortranWriter
    c = psy.copy()
    sched = follow(c.walk(Routine)[0], path)
    try:
        ExtractTrans().apply(sched.children[lo:hi])
    except TransformationError as e:
        return ("refused", str(e.value)[:120])
    txt = FortranWriter()(c)
    pre = txt.split("PreEndDeclaration", 1)[1].split("PreEnd", 1)[0]
    post = txt.split("PostStart", 1)[1].split("PostEnd", 1)[0]
    return ("ok", sorted(x.lower() for x in PV_RE.findall(pre)), sorted(x.lower() for x in PV_RE.findall(post)))


def schedules(routine):
    """(path, schedule node) for the routine body and every loop / if / else body."""
    from psyclone.psyir.nodes import Schedule
    out = []

    def rec(node, path):
        if isinstance(node, Schedule):
            out.append((path, node))
        for i, ch in enumerate(node.children):
            rec(ch, path + [i])
    rec(routine, [])
    return out


# ------------------------------------------------------------------ the property, evaluated directly
POISON = 7919


def locations(x, bnds):
    bs = bnds.get(x)
    if not bs:
        return [(x, ())]
    if len(bs) == 1:
        return [(x, (i,)) for i in range(bs[0][0], bs[0][1] + 1)]
    return [(x, (i, j)) for i in range(bs[0][0], bs[0][1] + 1) for j in range(bs[1][0], bs[1][1] + 1)]


def exposed(tr):
    w, out = set(), []
    for k, l in tr:
        if k == "R" and l not in w:
            out.append(l)
        elif k == "W":
            w.add(l)
    return out


def check_region(region, ins, outs, vals, bnds, allvars):
    """-> list of (culprit variable, what, detail) ; [] if the property held on this store;
    None if the run from this store faults / runs out of fuel (nothing to check)."""
    r1 = mf.interp(region, vals, bnds, fuel=40000)
    if r1[0] != "ok":
        return None
    _, s1, tr1, c1 = r1
    bad = []
    for l in exposed(tr1):
        if l[0] not in ins:
            bad.append((l[0], "exposed-read-not-input", {"location": l}))
            break
    for k, l in tr1:
        if k == "W" and l[0] not in outs:
            bad.append((l[0], "write-not-output", {"location": l}))
            break
    # replay: poison everything that is not a reported input
    v2 = dict(vals)
    for x in allvars:
        if x not in ins:
            for n, l in enumerate(locations(x, bnds)):
                v2[l] = POISON + 13 * n + (sum(map(ord, x)) % 97)
    r2 = mf.interp(region, v2, bnds, fuel=40000)
    if r2[0] != "ok" or r2[3] != c1 or r2[2] != tr1:
        if not bad:
            # find the first divergence to name a culprit
            culprit = None
            if r2[0] == "ok":
                for e1, e2 in zip(tr1, r2[2]):
                    if e1 != e2:
                        break
            for l in exposed(tr1):
                if l[0] not in ins:
                    culprit = l[0]
                    break
            bad.append((culprit or "?", "replay-diverges", {"outcome": r2[0]}))
        return bad
    s2 = r2[1]
    written = {l for k, l in tr1 if k == "W"}
    for x in outs:
        locs = locations(x, bnds) if c1 == "N" else [l for l in locations(x, bnds) if l in written]
        for l in locs:
            if s1.get(l) != s2.get(l):
                bad.append((x, "output-not-reproduced", {"location": l, "recorded": s1.get(l), "replayed": s2.get(l)}))
                break
    return bad


# ------------------------------------------------------------------ known-finding witnesses
WITNESSES = [
    ("is_written_first/partial-array-write",
     [("assign", "a", [("lit", 1)], ("lit", 0)), ("assign", "s", [], ("idx", "a", [("lit", 2)]))]),
    ("is_written_first/conditional-write",
     [("if", ("bin", "Gt", ("var", "t"), ("lit", 0)), [("assign", "m", [], ("lit", 1))], []),
      ("assign", "n", [], ("var", "m"))]),
    ("is_written_first/do-variable-read-by-own-bounds",
     [("do", "i", ("var", "i"), ("lit", 5), ("lit", 1),
       [("assign", "s", [], ("bin", "Add", ("var", "s"), ("lit", 1)))])]),
    ("is_written_first/partial-array-write",
     [("assign", "a", [("lit", 1)], ("lit", 0))]),
]


def run(ctx):
    from psyclone.psyir.frontend.fortran import FortranReader
    from psyclone.psyir.nodes import Routine
    ctx.cov["rule"] = ("routines from vlib.fortgen + targeted shapes (partial array write/read, conditional scalar "
                       "write, DO variable in own bounds, inquiry intrinsics, both-branch definitions, zero-trip loops); "
                       "case = (consecutive-statement region of the routine body or of a loop/if body, option "
                       "COLLECT-ARRAY-SHAPE-READS off via CallTreeUtils / on via ExtractTrans+ExtractNode); non-trivial = "
                       "the region ran to completion from at least one grid store and reports >=1 input or output; "
                       "distinct = region text + option")
    ctx.cov["trusted_base"] = core.BASE_TRUST + [
        "coq/C12/InOut.v is a hand-written model of get_in_out_parameters/is_written_first over the C11 access-list "
        "model (C12_accs_is_C11_projection); tied to the code by this correspondence run",
        "Fort/Sem.v is this project's formalisation of the Fortran subset (validated against gfortran by ./check _FORT); "
        "vlib.minifort.interp mirrors it (cross-validated by ./check _FORT)",
        "Fort/Facts.v (exec_frame, exec_unchanged, exec_bnd) is used by the proofs",
        "variable granularity: an array is one signature; scalars/arrays are told apart syntactically (indexed or not)"]
    ctx.assumptions = ["stores are total maps from locations to integers; out-of-bounds accesses do not fault in the semantics",
                       "regions are lists of MiniFortran statements (no calls, no array sections, no derived types)",
                       "replay_sound_partial needs safe (must-define data-flow); outside it only the run-time theorem "
                       "replay_sound_dyn and the per-case evaluation apply"]
    ok, rep = ctx.prove()
    ctx.log("proof ok=%s discharged=%d/%d" % (ok, ctx.cov["discharged"], ctx.cov["obligations"]))

    rng = ctx.rng("gen")
    reader = FortranReader()
    nprog = ctx.pick(45, 420)
    nstores = ctx.pick(3, 5)
    extract_every = ctx.pick(1, 1)

    io_cases, io_meta = [], []          # correspondence cases
    safe_cases = []                     # (region coq, sh) parallel to io_cases
    dyn_fail = []                       # (case index, culprit, what, detail, store index)
    n_refused = n_oos = 0
    n_regions = 0

    def do_routine(prog, g, tag, stores):
        nonlocal n_refused, n_oos, n_regions
        decls = g.decls()
        txt = mf.to_fortran("sub", prog, decls)
        psy = reader.psyir_from_source(txt)
        routine = psy.walk(Routine)[0]
        allvars = [d[0] for d in decls]
        bnds = dict(g.arrays)
        nm = mf.Names(sorted(allvars))
        for path, sched in schedules(routine):
            nch = len(sched.children)
            spans = [(i, j) for i in range(nch) for j in range(i + 1, nch + 1)]
            if path and len(spans) > 3:
                spans = rng.sample(spans, 3)
            for lo, hi in spans:
                nodes = sched.children[lo:hi]
                try:
                    region = mf.stmts_from_psyir(nodes)
                except mf.OutOfSubset:
                    n_oos += 1
                    continue
                n_regions += 1
                rtxt = "\n".join(mf.stmts_to_fortran(region))
                variants = [(False, ("ok",) + impl_ctu(nodes, False))]
                ex = impl_extract(psy, path, lo, hi)
                if ex[0] == "ok":
                    variants.append((True, ex))
                    ctu_on = impl_ctu(nodes, True)
                    if (ex[1], ex[2]) != ctu_on:
                        ctx.violation({"property": "C12", "what": "ExtractNode lists differ from get_in_out_parameters "
                                       "with the ExtractTrans default options", "region": rtxt,
                                       "extract_node": ex[1:], "call_tree_utils": ctu_on}, no_input=True)
                else:
                    n_refused += 1
                    ctx.hist("extract_refused", ex[1][:60])
                for sh, (_, ins, outs) in variants:
                    rc = mf.stmts_to_coq(region, nm)
                    idx = len(io_cases)
                    io_cases.append("(%s, %s, %s, %s)" % (rc, "true" if sh else "false",
                                                         core.coq_list("%d%%nat" % nm.get(x) for x in ins),
                                                         core.coq_list("%d%%nat" % nm.get(x) for x in outs)))
                    safe_cases.append("(%s, %s)" % (rc, "true" if sh else "false"))
                    ran = False
                    fails_here = []
                    for si, (vals, _) in enumerate(stores):
                        res = check_region(region, set(ins), set(outs), vals, bnds, allvars)
                        if res is None:
                            continue
                        ran = True
                        for culprit, what, detail in res:
                            fails_here.append((culprit, what, detail, si))
                    seen = set()
                    for culprit, what, detail, si in fails_here:
                        if (culprit, what) in seen:
                            continue
                        seen.add((culprit, what))
                        dyn_fail.append((idx, culprit, what, detail, si))
                    io_meta.append({"tag": tag, "region": rtxt, "stmts": region, "sh": sh, "ins": ins, "outs": outs,
                                    "nm": nm, "decls": decls, "stores": stores, "bnds": bnds, "routine": txt,
                                    "span": (path, lo, hi)})
                    ctx.count((rtxt, sh), ran and bool(ins or outs))
                    ctx.hist("region_len", hi - lo)
                    ctx.hist("nested", bool(path))
                    ctx.hist("option_shape_reads", sh)

    # known-finding witnesses first, then generated routines
    for wi, (key, prog) in enumerate(WITNESSES):
        g = Gen12(ctx.rng("w%d" % wi), arrays={"a": [(1, 6)], "b": [(1, 6)], "c": [(1, 6)], "d": [(0, 4), (1, 5)]})
        stores = []
        for k in range(3):
            vals, b = g.store()
            vals[("t", ())] = [0, 1, -2][k]
            vals[("i", ())] = [1, 4, 6][k]
            stores.append((vals, b))
        do_routine(prog, g, "witness:" + key, stores)
    n_wit_cases = len(io_cases)
    for pi in range(nprog):
        g = Gen12(rng, max_depth=2)
        prog = g.block({}, 0, False, rng.randint(2, 5))
        stores = [g.store() for _ in range(nstores)]
        do_routine(prog, g, "gen%d" % pi, stores)
    ctx.log("regions=%d cases=%d extract_refused=%d out_of_subset=%d dynamic failures=%d"
            % (n_regions, len(io_cases), n_refused, n_oos, len(dyn_fail)))
    ctx.notes["out_of_subset"] = n_oos
    ctx.notes["extract_refused"] = n_refused

    # ---- model side
    mism = ctx.coq_eval_failing(HEADER, "io_case", "io_agrees", io_cases, shard=250)
    unsafe = set(ctx.coq_eval_failing(HEADER, "list stmt * bool", "safe_case", safe_cases, shard=250))
    rd_unsafe = set(ctx.coq_eval_failing(HEADER, "list stmt * bool", "reads_safe_case", safe_cases, shard=250))
    ctx.cov["disagreements_checked"] = len(mism)
    for i in range(len(io_cases)):
        ctx.hist("bucket", "safe" if i not in unsafe else ("gap:reads-ok-output-partial" if i not in rd_unsafe else "gap:reads"))
    # reason codes of the culprits, cross-checked with the model
    reason_cases, reason_of = [], []
    for (idx, culprit, what, detail, si) in dyn_fail:
        m = io_meta[idx]
        k = py_reason(m["stmts"], m["sh"], culprit) if culprit in m["nm"].ids else 99
        reason_of.append(k)
        if culprit in m["nm"].ids:
            reason_cases.append("(%s, %s, %d%%nat, %d%%nat)" % (mf.stmts_to_coq(m["stmts"], m["nm"]),
                                                                "true" if m["sh"] else "false", m["nm"].get(culprit), k))
        else:
            reason_cases.append("([], false, 0%nat, 1%nat)")      # fails: unknown culprit
    bad_reason = set(ctx.coq_eval_failing(HEADER, "list stmt * bool * nat * nat", "reason_case", reason_cases, shard=250)) \
        if reason_cases else set()
    ctx.log("model/impl list disagreements=%d unsafe cases=%d (of %d)" % (len(mism), len(unsafe), len(io_cases)))

    def replay_of(m, extra):
        d = {"property": "C12", "routine": m["routine"], "region": m["region"], "region_span": m["span"],
             "option_COLLECT_ARRAY_SHAPE_READS": m["sh"], "reported_inputs": m["ins"], "reported_outputs": m["outs"],
             "how_to_replay": "FortranReader().psyir_from_source(routine); CallTreeUtils().get_in_out_parameters("
                              "<children[lo:hi] of the schedule at path>) (option on: ExtractTrans().apply + written "
                              "ProvideVariable calls); run the region from the store below and from the same store with "
                              "every non-input variable changed"}
        d.update(extra)
        return d

    # ---- verdicts on concrete failures
    reported = 0
    for n, (idx, culprit, what, detail, si) in enumerate(dyn_fail):
        m = io_meta[idx]
        k = reason_of[n]
        store = sorted(m["stores"][si][0].items())
        info = replay_of(m, {"culprit_variable": culprit, "failure": what, "detail": detail, "store": store,
                             "reason_code": k})
        if n in bad_reason or k not in KEYS:
            # not one of the established reasons (k = 0: the rule itself says the variable is an input)
            if reported < 3:
                ctx.violation(dict(info, why="failure not explained by a known is_written_first gap "
                                             "(model reason %s, classifier agreement %s)" % (k, n not in bad_reason)))
            reported += 1
            continue
        if idx not in unsafe:
            if reported < 3:
                ctx.violation(dict(info, why="region is inside `safe` (theorem C12_replay_sound_partial applies to the "
                                             "model) yet the replay fails on the implementation's lists"))
            reported += 1
            continue
        ctx.hist("finding_reason", KEYS[k])
        if ctx.finding(KEYS[k], "%s: variable '%s' is not reported as input (first access is a write)" % (what, culprit), info):
            reported += 1
    # ---- correspondence / proof broken without a concrete failing input
    if not reported and (mism or not ok):
        i = mism[0] if mism else None
        shown = None
        if mism:
            m = io_meta[i]
            rc = mf.stmts_to_coq(m["stmts"], m["nm"])
            shown = ctx.coq_eval_show(HEADER, ["(inputs %s %s, outputs_of (accs %s %s))"
                                               % ("true" if m["sh"] else "false", rc, "true" if m["sh"] else "false", rc)])
        ctx.violation({"property": "C12",
                       "broken": "correspondence C12.InOut.inputs/outputs = get_in_out_parameters" if mism
                       else "proof obligations of Properties/C12.v", "proof_report": rep if not ok else None,
                       "first_differing_case": replay_of(io_meta[i], {"model": shown, "names": io_meta[i]["nm"].ids}) if mism else None,
                       "n_differing": len(mism)}, no_input=True)
    for m in io_meta[n_wit_cases:n_wit_cases + 3]:
        ctx.sample({"region": m["region"], "shape_reads": m["sh"], "inputs": m["ins"], "outputs": m["outs"]})
    ctx.notes["dynamic_failures"] = len(dyn_fail)
    ctx.notes["stores_per_region"] = nstores
