"""C12 — Extraction regions record every input and output they need (DESIGN 5/C12).

Model: coq/C12/InOut.v (`inputs sh r`, `outputs`, from the C11 access-list model; `safe` = must-define
data-flow).  Theorems: coq/Properties/C12.v.  Tie = correspondence:

  * every consecutive-statement region (top level and inside loop / if bodies) of generated routines
    is given to the real `CallTreeUtils.get_in_out_parameters` (option COLLECT-ARRAY-SHAPE-READS off)
    and, through `ExtractTrans.apply` + the generated `ProvideVariable` calls, to `ExtractNode`
    (option on); the reported lists are compared with the model's by vm_compute;
  * the property itself is evaluated on the implementation's lists: the region is run by the
    MiniFortran interpreter from a grid of stores; every upward-exposed read must be of a reported
    input, every written location of a reported output, and a REPLAY from a store in which every
    variable that is not a reported input is poisoned must give the same trace and the same values of
    all reported outputs (in-bounds elements).
  A concrete failure is classified by the model's reason code for the culprit variable; the three
  reasons established on the unchanged tree are known findings, anything else is a VIOLATION."""
import re

from vlib import core, minifort as mf, fortgen

KEYS = {1: "is_written_first/partial-array-write",
        2: "is_written_first/do-variable-read-by-own-bounds",
        3: "is_written_first/conditional-write"}

HEADER = """From Coq Require Import List ZArith Bool String. Import ListNotations.
From PV Require Import Fort.Syntax Fort.Sem C11.Access C12.InOut.
Open Scope Z_scope.
(* one case = a region with its variants (option, reported inputs, reported outputs, culprit variables);
   result per variant = (lists agree with the model, safe, reads_safe, reason code of every culprit) *)
Definition variant := (bool * bool * list name * list name * list name)%type.
Definition eval_variant (xs : list xstmt) (arrs : list name) (v : variant) : bool * bool * bool * list nat :=
  match v with (sh, answered, ins, outs, cs) =>
    let r := core_of xs in let nc := negb (has_call xs) in
    (if answered then xs_ok sh xs && xio_agrees (xs, sh, ins, outs) else negb (xs_ok sh xs),
     nc && (if sh then safe_ext sh r else safe sh r), nc && reads_safe sh r, map (xreason sh xs arrs) cs) end.
Definition eval_case (c : list xstmt * list name * list variant) :=
  match c with (xs, arrs, vs) => map (eval_variant xs arrs) vs end.
"""


def coq_eval_values(ctx, header, case_type, fn, cases, shard=60, timeout=3000):
    """Evaluate `fn : case_type -> _` on every case by vm_compute (shards compiled in parallel, each
    under a timeout) and return the printed values converted to Python (lists/tuples/bools/ints)."""
    import ast
    import subprocess
    d = ctx.scratch / "cases"
    d.mkdir(exist_ok=True)
    jobs = []
    for k in range(0, len(cases), shard):
        f = d / ("vals_%s_%d.v" % (ctx.prop, k // shard))
        f.write_text("\n".join([
            "Require Import Coq.Lists.List Coq.NArith.NArith. Import ListNotations.", header,
            "Definition the_cases : list (%s) := [\n%s\n]." % (case_type, ";\n".join(cases[k:k + shard])),
            "Definition res_ := Eval vm_compute in map (%s) the_cases." % fn,
            "Set Printing Depth 1000000. Set Printing Width 200.",
            'Goal True. idtac "@@RES-BEGIN". Abort.', "Print res_.", 'Goal True. idtac "@@RES-END". Abort.']) + "\n")
        jobs.append(f)
    out, running = [], []
    import os
    maxp = int(os.environ.get("VERIF_JOBS", "4"))

    def reap():
        f, p = running.pop(0)
        try:
            txt, _ = p.communicate(timeout=timeout)
        except subprocess.TimeoutExpired:
            p.kill()
            raise RuntimeError("coqc timeout on %s" % f)
        m = re.search(r"@@RES-BEGIN(.*)@@RES-END", txt, re.S)
        if p.returncode != 0 or not m:
            raise RuntimeError("coqc failed on %s:\n%s" % (f, txt[-3000:]))
        body = m.group(1).split("=", 1)[1]
        body = re.split(r"\n\s*:\s*list", body)[0]
        body = body.replace("%nat", "").replace("%Z", "").replace(";", ",").replace("true", "True").replace("false", "False")
        out.extend(ast.literal_eval(body.strip()))
    for f in jobs:
        if len(running) >= maxp:
            reap()
        running.append((f, subprocess.Popen(["coqc", "-Q", str(core.COQ), core.LOGICAL, "-w",
                                             "-notation-overridden,-deprecated,-ambiguous-paths", str(f)], cwd=d,
                                            stdout=subprocess.PIPE, stderr=subprocess.STDOUT, text=True)))
    while running:
        reap()
    if len(out) != len(cases):
        raise RuntimeError("coq_eval_values: %d results for %d cases" % (len(out), len(cases)))
    return out


# ------------------------------------------------------------------ generator
class Gen12(fortgen.Gen):
    """fortgen.Gen plus the shapes this property is about: inquiry intrinsics (shape reads), scalars
    first written under a condition, arrays written at one element and read at another, DO loops
    whose bounds read the loop variable."""

    INQ = (("ISize", lambda lb, ub: ub - lb + 1), ("ILbound", lambda lb, ub: lb), ("IUbound", lambda lb, ub: ub))

    def inquiry(self):
        """(expression, its value under the declared bounds)"""
        r = self.r
        a = r.choice(sorted(self.arrays))
        d = r.randint(1, len(self.arrays[a]))
        f, fn = r.choice(self.INQ)
        lb, ub = self.arrays[a][d - 1]
        return ("intr", f, [("var", a), ("lit", d)]), fn(lb, ub)

    def expr(self, env, depth=0):
        if self.r.random() < 0.07:
            return self.inquiry()[0]
        return super().expr(env, depth)

    def subscript(self, env, lb, ub):
        """also subscripts computed from the extent of (another) array, in range for the declared bounds"""
        r = self.r
        if r.random() < 0.12:
            for _ in range(4):
                e, v = self.inquiry()
                ds = [d for d in (0, 0, 1, -1, 2, -2, 3, -3) if lb <= v + d <= ub]
                if ds:
                    d = r.choice(ds)
                    return e if d == 0 else ("bin", "Add" if d > 0 else "Sub", e, ("lit", abs(d)))
        return super().subscript(env, lb, ub)

    def cond(self, env):
        r = self.r
        if r.random() < 0.15:
            return ("bin", r.choice(["Lt", "Le", "Gt", "Ge", "Eq", "Ne"]), self.inquiry()[0], self.expr(env, 1))
        return super().cond(env)

    def loop(self, env, depth, in_loop):
        """some loops run over the extent of an array: do v = lbound(a,1), ubound(a,1)"""
        r = self.r
        one_d = [x for x in sorted(self.arrays) if len(self.arrays[x]) == 1]
        free = [v for v in fortgen.LOOPVARS if v not in env]
        if r.random() < 0.2 and one_d and free:
            a = r.choice(one_d)
            v = free[0]
            env2 = dict(env)
            env2[v] = self.arrays[a][0]
            body = self.block(env2, depth + 1, True, r.randint(1, 2))
            lo = ("intr", "ILbound", [("var", a), ("lit", 1)])
            hi = r.choice([("intr", "IUbound", [("var", a), ("lit", 1)]),
                           ("bin", "Sub", ("bin", "Add", lo, ("intr", "ISize", [("var", a), ("lit", 1)])), ("lit", 1))])
            return ("do", v, lo, hi, ("lit", 1), body)
        return super().loop(env, depth, in_loop)

    def assign(self, env):
        """half of the array assignments are read-modify-write (the array is then an input)."""
        r = self.r
        st = super().assign(env)
        if r.random() < 0.6:
            ref = ("idx", st[1], st[2]) if st[2] else ("var", st[1])
            return ("assign", st[1], st[2], ("bin", r.choice(["Add", "Sub", "Mul"]), ref, st[3]))
        return st

    def targeted(self, env):
        r = self.r
        k = r.randint(0, 6)
        sc = r.choice(["s", "t", "m"])
        if k == 6:      # element selected by the extent of ANOTHER array, on the left-hand side
            one_d = [x for x in sorted(self.arrays) if len(self.arrays[x]) == 1]
            a = r.choice(one_d)
            lb, ub = self.arrays[a][0]
            for _ in range(6):
                e, v = self.inquiry()
                if e[2][0][1] != a and any(lb <= v + d <= ub for d in (0, 1, -1, 2, -2)):
                    d = r.choice([d for d in (0, 1, -1, 2, -2) if lb <= v + d <= ub])
                    ix = e if d == 0 else ("bin", "Add" if d > 0 else "Sub", e, ("lit", abs(d)))
                    return [("assign", a, [ix], ("bin", "Add", ("idx", a, [("lit", lb)]), ("lit", 1)))]
        if k == 0:      # partial array write then read of another element
            a = r.choice([x for x in sorted(self.arrays) if len(self.arrays[x]) == 1])
            lb, ub = self.arrays[a][0]
            i1, i2 = r.sample(range(lb, ub + 1), 2)
            return [("assign", a, [("lit", i1)], self.expr(env, 1)),
                    ("assign", sc, [], ("idx", a, [("lit", i2)]))]
        if k == 1:      # conditional scalar write then read
            o = r.choice([x for x in ["s", "t", "m"] if x != sc])
            return [("if", self.cond(env), [("assign", sc, [], self.expr(env, 1))], []),
                    ("assign", o, [], ("bin", "Add", ("var", sc), ("lit", 1)))]
        if k == 2:      # DO variable read by its own bounds
            free = [v for v in fortgen.LOOPVARS if v not in env]
            if free:
                v = free[0]
                return [("do", v, ("var", v), ("lit", r.randint(3, 6)), ("lit", 1),
                         [("assign", sc, [], ("bin", "Add", ("var", sc), ("lit", 1)))])]
        if k == 3:      # scalar defined in both branches, then read (inside safe)
            o = r.choice([x for x in ["s", "t", "m"] if x != sc])
            return [("if", self.cond(env), [("assign", sc, [], ("lit", 1))], [("assign", sc, [], ("lit", 2))]),
                    ("assign", o, [], ("var", sc))]
        if k == 4:      # zero-trip loop defining a scalar that is read afterwards
            free = [v for v in fortgen.LOOPVARS if v not in env]
            if free:
                v = free[0]
                o = r.choice([x for x in ["s", "t", "m"] if x != sc])
                return [("do", v, ("lit", 1), ("var", "n"), ("lit", 1), [("assign", sc, [], ("var", v))]),
                        ("assign", o, [], ("var", sc))]
        # shape inquiry only
        a = r.choice(sorted(self.arrays))
        return [("assign", sc, [], ("intr", "ISize", [("var", a), ("lit", 1)]))]

    def call(self, env):
        """a call to a known callee or to the opaque routine foo"""
        r = self.r
        one_d = [x for x in sorted(self.arrays) if len(self.arrays[x]) == 1]
        k = r.choice(["inc_all", "rd_two", "set_one", "inc_elem", "foo", "foo"])
        a = r.choice(one_d)
        if k in ("inc_all", "set_one"):
            return ("call", k, [("var", a)])
        if k == "rd_two":
            return ("call", k, [("var", a), ("var", r.choice(["s", "t", "m"]))])
        if k == "inc_elem":
            return ("call", k, [self.ref(env)])
        args = []
        for _ in range(r.randint(1, 3)):
            c = r.random()
            if c < 0.4:
                args.append(("var", r.choice(one_d)))
            elif c < 0.65:
                args.append(self.ref(env))
            elif c < 0.8:
                args.append(("var", r.choice(fortgen.SCALARS)))
            else:
                args.append(("bin", "Add", self.ref(env), ("lit", 1)))
        return ("call", "foo", args)

    ARR_INTR = ("RESHAPE", "TRANSPOSE", "SPREAD", "PACK", "MATMUL", "SUM", "MAXVAL", "MINVAL", "PRODUCT", "DOT_PRODUCT")

    def wop(self, src=None):
        """a whole-array statement; src = array that must be the FIRST argument of the (outermost) intrinsic"""
        r = self.r
        one = [x for x in sorted(self.arrays) if len(self.arrays[x]) == 1]
        two = [x for x in sorted(self.arrays) if len(self.arrays[x]) == 2]
        y = src or r.choice(one)
        x = r.choice([v for v in one if v != y] or one)
        sc = r.choice(["s", "t", "m"])
        V, L = (lambda n: ("var", n)), (lambda z: ("lit", z))

        def I(f, *a):
            return ("wintr", f, list(a))
        forms = [(x, I("PACK", V(y), ("bin", "Gt", V(y), L(0)))), (sc, I("SUM", V(y))), (sc, I("MAXVAL", V(y))),
                 (sc, I("MINVAL", V(y))), (sc, I("PRODUCT", V(y))), (sc, I("DOT_PRODUCT", V(y), V(x))),
                 (x, I("SPREAD", V(y), L(1), L(2))), (x, I("RESHAPE", V(y), I("SHAPE", V(x)))),
                 (sc, I("SIZE", V(y))), (x, I("LBOUND", V(y))), (x, I("UBOUND", V(y))), (x, I("SHAPE", V(y))),
                 (sc, ("bin", "Add", I("SIZE", V(y)), I("SUM", V(x))))]
        if two:
            dd = r.choice(two)
            forms += [(dd, I("RESHAPE", V(y), V(x))), (dd, I("MATMUL", V(y), V(dd))), (dd, I("TRANSPOSE", V(y))),
                      (x, I("SHAPE", V(dd)))]
        if src is None:
            forms += [(x, L(0)), (x, ("bin", "Add", V(y), L(1))), (sc, I("SIZE", V(x), L(1)))]
            if two:
                forms += [(dd, I("TRANSPOSE", V(dd))), (dd, I("MATMUL", V(dd), V(dd)))]
        lhs, e = r.choice(forms)
        return ("wop", lhs, lhs in self.arrays and r.random() < 0.5, e)

    def wop_then_overwrite(self):
        """an array used only as the first argument of an intrinsic and overwritten afterwards (or before)"""
        r = self.r
        one = [x for x in sorted(self.arrays) if len(self.arrays[x]) == 1]
        v = r.choice(one)
        w = ("wop", v, r.random() < 0.5, ("lit", 0)) if r.random() < 0.7 else \
            ("assign", v, [("lit", self.arrays[v][0][0])], ("lit", 0))
        use = self.wop(src=v)
        if use[1] == v:
            return [use]
        return [use, w] if r.random() < 0.75 else [w, use]

    def compound(self):
        """statements whose sub-expressions are evaluated BEFORE their bodies: DO WHILE (condition reads what the body
        overwrites), IF / ELSE IF chains, DO loops whose bounds read arrays"""
        r = self.r
        one = [x for x in sorted(self.arrays) if len(self.arrays[x]) == 1]
        v = r.choice(one)
        lb, ub = self.arrays[v][0]
        e0 = ("idx", v, [("lit", lb)])
        e1 = ("idx", v, [("lit", lb + 1)])
        w = r.choice([x for x in one if x != v] or one)
        cnt = r.choice(["s", "t", "m"])
        k = r.randint(0, 3)
        if k <= 1:      # do while (v(lb) > 1 .and. cnt < 3): v(lb) = ... ; cnt = cnt + 1
            first = ("assign", v, [("lit", lb)], r.choice([("lit", 0), ("lit", 1), ("var", cnt), ("lit", 0),
                                                           ("bin", "Sub", e1, ("lit", 1)), ("bin", "Sub", e0, ("lit", 1))]))
            body = [first, ("assign", w, [("lit", self.arrays[w][0][0])], ("bin", "Add", e0, ("lit", 1))),
                    ("assign", cnt, [], ("bin", "Add", ("var", cnt), ("lit", 1)))]
            if r.random() < 0.15:
                body = body[1:] + body[:1]
            return [("while", ("bin", "And", ("bin", "Gt", e0, ("lit", 1)), ("bin", "Lt", ("var", cnt), ("lit", 3))), body)]
        if k == 2:      # if / else if / else chain whose conditions read what the branches overwrite
            return [("if", ("bin", "Gt", e0, ("lit", 2)), [("assign", v, [("lit", lb)], ("lit", 0))],
                     [("if", ("bin", "Lt", e1, ("lit", 0)), [("assign", v, [("lit", lb + 1)], ("lit", 1))],
                       [("assign", cnt, [], e0)])])]
        free = [x for x in fortgen.LOOPVARS]
        i, j = free[0], free[1]      # nested loops whose bounds read array elements the bodies overwrite
        return [("do", i, ("lit", 1), ("intr", "IMin", [e0, ("lit", 3)]), ("lit", 1),
                 [("do", j, ("lit", 1), ("intr", "IMin", [e1, ("lit", 2)]), ("lit", 1),
                   [("assign", v, [("lit", lb + 1)], ("bin", "Add", ("var", i), ("var", j)))]),
                  ("assign", v, [("lit", lb)], ("lit", 2))])]

    def call_with_partial_write(self):
        """a partial write of an array before / after a call that receives the same array"""
        r = self.r
        one_d = [x for x in sorted(self.arrays) if len(self.arrays[x]) == 1]
        a = r.choice(one_d)
        lb, ub = self.arrays[a][0]
        w = ("assign", a, [("lit", r.randint(lb, ub))], ("lit", r.randint(0, 5)))
        k = r.choice(["inc_all", "rd_two", "set_one", "foo"])
        c = ("call", k, [("var", a)] + ([("var", r.choice(["s", "t", "m"]))] if k == "rd_two" else []))
        return [w, c] if r.random() < 0.6 else [c, w]

    def block(self, env, depth, in_loop, n):
        out = []
        for _ in range(n):
            if self.r.random() < 0.22:
                out += self.targeted(env)
            else:
                out.append(self.stmt(env, depth, in_loop))
        return out


# ------------------------------------------------------------------ regions with calls (shared with C13)
# Calls to subroutines of the same module with KNOWN bodies, and to an unknown routine `foo`.  PSyclone does not look
# into the callee (every by-reference argument is READWRITE).  The harness gives a call a semantics by expansion:
#   inc_all(a)   : every element of a is incremented            (reads and writes all of a)
#   rd_two(a, s) : s = first element + last element of a         (reads a, writes the scalar)
#   set_one(a)   : second element of a = 5                        (writes one element)
#   inc_elem(a(i)): that element is incremented
#   foo(...)     : OPAQUE non-pure routine, conservative reading: it may read and write every element of every
#                  by-reference argument; evaluated as inc_all / inc_elem / scalar increment of each such argument.
CALLEES = """subroutine inc_all(x)
  integer, dimension(:), intent(inout) :: x
  integer :: k
  do k = lbound(x, 1), ubound(x, 1)
    x(k) = x(k) + 1
  end do
end subroutine inc_all
subroutine rd_two(x, r)
  integer, dimension(:), intent(in) :: x
  integer, intent(out) :: r
  r = x(lbound(x, 1)) + x(ubound(x, 1))
end subroutine rd_two
subroutine set_one(x)
  integer, dimension(:), intent(inout) :: x
  x(lbound(x, 1) + 1) = 5
end subroutine set_one
subroutine inc_elem(y)
  integer, intent(inout) :: y
  y = y + 1
end subroutine inc_elem
"""
WHILE_DEPTH = 8
KNOWN_CALLEES = ("inc_all", "rd_two", "set_one", "inc_elem", "foo")


_STD_INQ = None


def std_inquiry():
    """names the frozen table coq/C12/IntrTable.v classifies as inquiry functions (single source: the Coq file)"""
    global _STD_INQ
    if _STD_INQ is None:
        txt = (core.COQ / "C12" / "IntrTable.v").read_text()
        _STD_INQ = {n for n, f in re.findall(r'\("([A-Z0-9_]+)", (true|false)\)', txt) if f == "true"}
    return _STD_INQ


_ARRAYS = set()      # names declared as arrays in the routine being serialised (the frontend types arrays with a
#                       negative lower bound as UnsupportedFortranType, so the symbol type cannot be used)


def _is_array_ref(node):
    from psyclone.psyir.nodes import Reference
    return type(node) is Reference and node.name.lower() in _ARRAYS


def _is_wop(n):
    """an assignment that operates on whole arrays / uses intrinsics outside the MiniFortran core"""
    from psyclone.psyir.nodes import Assignment, ArrayReference, IntrinsicCall, Range, Reference
    if not isinstance(n, Assignment):
        return False
    if _is_array_ref(n.lhs) or (isinstance(n.lhs, ArrayReference) and any(isinstance(c, Range) for c in n.lhs.children)):
        return True
    for ic in n.rhs.walk(IntrinsicCall):
        nm = ic.intrinsic.name
        if nm not in mf.INTRS or (nm in ("SIZE", "LBOUND", "UBOUND") and len(ic.arguments) != 2):
            return True
    for ref in n.rhs.walk(Reference):
        if _is_array_ref(ref) and not (isinstance(ref.parent, IntrinsicCall) and ref.parent.arguments
                                       and ref is ref.parent.arguments[0]
                                       and ref.parent.intrinsic.name in ("SIZE", "LBOUND", "UBOUND")):
            return True
    return False


def wexpr_from_psyir(node):
    from psyclone.psyir import nodes as N
    if isinstance(node, N.Literal):
        return mf._lit(node)
    if type(node) is N.Reference:
        return ("var", node.name.lower())
    if isinstance(node, N.BinaryOperation) and node.operator.name in mf.BINOPS:
        return ("bin", mf.BINOPS[node.operator.name], wexpr_from_psyir(node.children[0]), wexpr_from_psyir(node.children[1]))
    if isinstance(node, N.IntrinsicCall) and not any(node.argument_names):
        return ("wintr", node.intrinsic.name, [wexpr_from_psyir(a) for a in node.arguments])
    raise mf.OutOfSubset("whole-array expression node %s" % type(node).__name__)


def wop_from_psyir(n):
    from psyclone.psyir.nodes import ArrayReference, Range, Reference
    lhs = n.lhs
    if type(lhs) is Reference:
        return ("wop", lhs.name.lower(), False, wexpr_from_psyir(n.rhs))
    if isinstance(lhs, ArrayReference) and all(isinstance(c, Range) for c in lhs.children) and \
            all(lhs.is_full_range(i) for i in range(len(lhs.children))):
        return ("wop", lhs.name.lower(), True, wexpr_from_psyir(n.rhs))
    raise mf.OutOfSubset("whole-array lhs")


def xstmts_from_psyir(nodes, arrays=()):
    from psyclone.psyir.nodes import Call, IntrinsicCall
    _ARRAYS.clear()
    _ARRAYS.update(arrays)
    out = []
    for n in nodes:
        if isinstance(n, Call) and not isinstance(n, IntrinsicCall):
            if any(n.argument_names) or n.routine.name.lower() not in KNOWN_CALLEES:
                raise mf.OutOfSubset("call " + n.routine.name)
            out.append(("call", n.routine.name.lower(), [mf.expr_from_psyir(a) for a in n.arguments]))
        elif type(n).__name__ == "WhileLoop":
            out.append(("while", mf.expr_from_psyir(n.condition), mf.stmts_from_psyir(n.loop_body.children)))
        elif _is_wop(n):
            out.append(wop_from_psyir(n))
        else:
            out.append(mf.stmt_from_psyir(n))
    return out


def wexpr_to_coq(e, nm):
    k = e[0]
    if k == "lit":
        return "(WLit (%d))" % e[1]
    if k == "var":
        return "(WRef %d%%nat)" % nm.get(e[1])
    if k == "bin":
        return "(WBin %s %s)" % (wexpr_to_coq(e[2], nm), wexpr_to_coq(e[3], nm))
    if k == "wintr":
        return '(WIntr "%s"%%string [%s])' % (e[1], "; ".join(wexpr_to_coq(a, nm) for a in e[2]))
    raise ValueError(e)


def wexpr_to_fortran(e):
    k = e[0]
    if k == "lit":
        return str(e[1]) if e[1] >= 0 else "(%d)" % e[1]
    if k == "var":
        return e[1]
    if k == "bin":
        return "(%s %s %s)" % (wexpr_to_fortran(e[2]), mf.F_BIN[e[1]], wexpr_to_fortran(e[3]))
    if k == "wintr":
        return "%s(%s)" % (e[1], ", ".join(wexpr_to_fortran(a) for a in e[2]))
    raise ValueError(e)


def wexpr_names(e, acc):
    if e[0] == "var":
        acc.add(e[1])
    elif e[0] == "bin":
        wexpr_names(e[2], acc)
        wexpr_names(e[3], acc)
    elif e[0] == "wintr":
        for a in e[2]:
            wexpr_names(a, acc)
    return acc


def wexpr_data_reads(e, acc):
    """variables whose VALUES the expression reads (the first argument of a standard inquiry function is not read)"""
    if e[0] == "var":
        acc.append(e[1])
    elif e[0] == "bin":
        wexpr_data_reads(e[2], acc)
        wexpr_data_reads(e[3], acc)
    elif e[0] == "wintr":
        for a in (e[2][1:] if e[1] in std_inquiry() else e[2]):
            wexpr_data_reads(a, acc)
    return acc


def xstmts_to_coq(xs, nm):
    items = []
    for s in xs:
        if s[0] == "call":
            items.append("(XCall [%s])" % "; ".join(mf.expr_to_coq(a, nm) for a in s[2]))
        elif s[0] == "wop":
            items.append("(XWop %d%%nat %s %s)" % (nm.get(s[1]), "true" if s[2] else "false", wexpr_to_coq(s[3], nm)))
        elif s[0] == "while":
            items.append("(XWhile %s %s)" % (mf.expr_to_coq(s[1], nm), mf.stmts_to_coq(s[2], nm)))
        else:
            items.append("(XCore %s)" % mf.stmt_to_coq(s, nm))
    return "[" + "; ".join(items) + "]"


def xstmts_to_fortran(xs, rank=None):
    lines = []
    for s in xs:
        if s[0] == "call":
            lines.append("  call %s(%s)" % (s[1], ", ".join(mf.expr_to_fortran(a) for a in s[2])))
        elif s[0] == "wop":
            lhs = s[1] + ("(%s)" % ", ".join(":" * (rank or {}).get(s[1], 1)) if s[2] else "")
            lines.append("  %s = %s" % (lhs, wexpr_to_fortran(s[3])))
        elif s[0] == "while":
            lines += ["  do while (%s)" % mf.expr_to_fortran(s[1])] + mf.stmts_to_fortran(s[2], "    ") + ["  end do"]
        else:
            lines += mf.stmts_to_fortran([s])
    return lines


def routine_text(xs, decls):
    lines = ["module m", "contains", "subroutine sub()"]
    for v, ty, bs in decls:
        lines.append("  %s%s :: %s" % (ty, (", dimension(%s)" % ", ".join("%d:%d" % b for b in bs)) if bs else "", v))
    rank = {v: len(bs) for v, ty, bs in decls if bs}
    return "\n".join(lines + xstmts_to_fortran(xs, rank) + ["end subroutine sub"]) + "\n" + CALLEES + "end module m\n"


def run_translator():
    """regenerate coq/C12/GenTables.v (is_inquiry flags of the tree under test); fail-closed"""
    import importlib.util
    spec = importlib.util.spec_from_file_location("props_C12_translate", core.VERIF / "props" / "C12" / "translate.py")
    mod = importlib.util.module_from_spec(spec)
    spec.loader.exec_module(mod)
    return mod.generate()


def find_sub(psy):
    from psyclone.psyir.nodes import Routine
    return [r for r in psy.walk(Routine) if r.name.lower() == "sub"][0]


def has_call(xs):
    """statements whose semantics is supplied by expansion (calls, whole-array statements)"""
    return any(s[0] in ("call", "wop", "while") for s in xs)


def _inc(ref):
    return ("assign", ref[1], ref[2] if ref[0] == "idx" else [], ("bin", "Add", ref, ("lit", 1)))


def expand_calls(xs, bnds):
    """the statements a region amounts to for array extents `bnds` (calls replaced by what the callee does)"""
    out = []
    for s in xs:
        if s[0] == "while":
            # DO WHILE by bounded unrolling (generated loops are bounded by a counter: at most WHILE_DEPTH iterations)
            u = []
            for _ in range(WHILE_DEPTH):
                u = [("if", s[1], list(s[2]) + u, [])]
            out += u
            continue
        if s[0] == "wop":
            # conservative whole-array semantics: read every element of every array (and every scalar) whose value
            # the right-hand side uses, then write every element of the left-hand side
            def refs(v):
                return [("idx", v, [("lit", i) for i in l[1]]) for l in locations(v, bnds)] if v in bnds else [("var", v)]
            rd = [x for v in dict.fromkeys(wexpr_data_reads(s[3], [])) for x in refs(v)]
            tg = refs(s[1])
            e0 = ("lit", 1)
            for x in rd:
                e0 = ("bin", "Add", e0, x)
            for k, t in enumerate(tg):
                rhs = e0 if k == 0 else ("bin", "Add", tg[0], ("lit", k))
                out.append(("assign", t[1], t[2] if t[0] == "idx" else [], rhs))
            continue
        if s[0] != "call":
            out.append(s)
            continue
        name, args = s[1], s[2]

        def elems(a):
            (lb, ub), = bnds[a]
            return [("idx", a, [("lit", i)]) for i in range(lb, ub + 1)]
        if name == "inc_all":
            out += [_inc(e) for e in elems(args[0][1])]
        elif name == "rd_two":
            es = elems(args[0][1])
            out.append(("assign", args[1][1], [], ("bin", "Add", es[0], es[-1])))
        elif name == "set_one":
            e = elems(args[0][1])[1]
            out.append(("assign", e[1], e[2], ("lit", 5)))
        elif name == "inc_elem":
            out.append(_inc(args[0]))
        else:   # opaque
            for a in args:
                if a[0] == "var" and a[1] in bnds:
                    out += [_inc(e) for e in elems(a[1])]
                elif a[0] in ("var", "idx"):
                    out.append(_inc(a))
    return out


# ------------------------------------------------------------------ implementation side
def impl_ctu(nodes, sh):
    from psyclone.psyir.tools import CallTreeUtils
    opts = {"COLLECT-ARRAY-SHAPE-READS": True} if sh else None
    try:
        rw = CallTreeUtils().get_in_out_parameters(nodes, options=opts)
    except NotImplementedError as e:
        return ("raises", str(e)[:100])
    return ("ok", sorted(str(s).lower() for s in rw.signatures_read),
            sorted(str(s).lower() for s in rw.signatures_written))


PV_RE = re.compile(r'ProvideVariable\("[^"]*",\s*(\w+)\)')


def follow(root_routine, path):
    node = root_routine
    for i in path:
        node = node.children[i]
    return node


_MEMO = {}


def memoise_parser_factory():
    """ExtractNode lowering calls fparser's ParserFactory().create(std=...) once per generated PSyData call
    (~7 ms each).  The factory only (re)configures module-level parser classes for the given standard, so
    the harness memoises it per standard (no change of behaviour; 5x faster lowering)."""
    from fparser.two import parser as fp
    if getattr(fp.ParserFactory.create, "_c12_memo", False):
        return
    orig = fp.ParserFactory.create

    def create(self, std=None):
        if std not in _MEMO:
            _MEMO[std] = orig(self, std=std)
        return _MEMO[std]
    create._c12_memo = True
    fp.ParserFactory.create = create


def impl_extract(psy, path, lo, hi):
    """ExtractTrans on a copy; -> ("ok", ins, outs) from the generated ProvideVariable calls, or
    ("refused", msg)."""
    from psyclone.psyir.nodes import Routine
    from psyclone.psyir.transformations import ExtractTrans, TransformationError
    from psyclone.psyir.backend.fortran import FortranWriter
    c = psy.copy()
    sched = follow(find_sub(c), path)
    try:
        ExtractTrans().apply(sched.children[lo:hi])
    except TransformationError as e:
        return ("refused", str(e.value)[:120])
    from psyclone.psyir.backend.visitor import VisitorError
    try:
        txt = FortranWriter()(c)
    except (VisitorError, NotImplementedError) as e:
        if "appears more than once on the left-hand side" in str(e):
            return ("raises", "NotImplementedError: appears more than once on the left-hand side")
        raise
    return ("ok", parse_protocol(txt))


PRESTART_RE = re.compile(r'%\s*PreStart\(\s*"[^"]*"\s*,\s*"[^"]*"\s*,\s*(\d+)\s*,\s*(\d+)\s*\)', re.I)
DECL_RE = re.compile(r'PreDeclareVariable\("[^"]*",\s*(\w+)\)', re.I)


def parse_protocol(txt):
    """what the GENERATED extraction code does, as data (a missing call is recorded, never an exception):
    counts announced by PreStart, variables declared, provided before the region (between PreStart and PreEnd) and
    after it (between PostStart and PostEnd)"""
    lines = txt.split("\n")

    def first(pat, start=0):
        for i in range(start, len(lines)):
            if re.search(pat, lines[i], re.I):
                return i
        return None
    i_start = first(r"%\s*PreStart\b")
    i_preend = first(r"%\s*PreEnd\b(?!Declaration)")
    i_poststart = first(r"%\s*PostStart\b")
    i_postend = first(r"%\s*PostEnd\b")
    m = PRESTART_RE.search(lines[i_start]) if i_start is not None else None

    def provided(a, b):
        if a is None or b is None:
            return []
        return sorted(x.lower() for ln in lines[a:b] for x in PV_RE.findall(ln))
    # the ordered sequence of protocol events between PreStart and PostEnd (region statements collapse to "Body")
    seq = []
    call_re = re.compile(r'extract_psy_data\s*%\s*(\w+)\s*(?:\(\s*"([^"]*)"\s*,\s*(\w+)\s*\))?', re.I)
    if i_start is not None:
        for ln in lines[i_start:(i_postend + 1) if i_postend is not None else len(lines)]:
            t = ln.strip()
            if not t or t.startswith("!"):
                continue
            cm = call_re.search(t)
            if cm and "extract_psy_data" in t:
                name = cm.group(1).lower()
                if name == "prestart":
                    pm = PRESTART_RE.search(t)
                    seq.append(("PreStart", int(pm.group(1)), int(pm.group(2))) if pm else ("Unknown", t))
                elif name in ("predeclarevariable", "providevariable") and cm.group(2) is not None:
                    seq.append(("PreDeclare" if name.startswith("pre") else "Provide", cm.group(3).lower(),
                                cm.group(2).lower() != cm.group(3).lower()))
                elif name in ("preenddeclaration", "preend", "poststart", "postend"):
                    seq.append(({"preenddeclaration": "PreEndDeclaration", "preend": "PreEnd", "poststart": "PostStart",
                                 "postend": "PostEnd"}[name],))
                else:
                    seq.append(("Unknown", t))
            elif not seq or seq[-1] != ("Body",):
                seq.append(("Body",))
    return {"sequence": seq,
            "prestart_counts": (int(m.group(1)), int(m.group(2))) if m else None,
            "declared": sorted(x.lower() for ln in lines for x in DECL_RE.findall(ln)),
            "pre": provided(i_start, i_preend), "post": provided(i_poststart, i_postend),
            "calls": {k: v is not None for k, v in (("PreStart", i_start), ("PreEndDeclaration", first(r"PreEndDeclaration")),
                                                     ("PreEnd", i_preend), ("PostStart", i_poststart), ("PostEnd", i_postend))},
            "psydata_lines": [ln.strip() for ln in lines if "extract_psy_data %" in ln][:40]}


def protocol_errors(proto, ins, outs):
    """(b) the oracle on the generated code: every reported input is declared and provided before the region, every
    reported output is declared and provided after it, and PreStart announces exactly these numbers"""
    errs = []
    if proto["prestart_counts"] != (len(ins), len(outs)):
        errs.append("PreStart announces %s, reported lists have (%d, %d)" % (proto["prestart_counts"], len(ins), len(outs)))
    if sorted(proto["pre"]) != sorted(ins):
        errs.append("provided before the region: %s, reported inputs: %s" % (proto["pre"], ins))
    if sorted(proto["post"]) != sorted(outs):
        errs.append("provided after the region: %s, reported outputs: %s" % (proto["post"], outs))
    missing = [x for x in sorted(set(ins) | set(outs)) if x not in proto["declared"]]
    if missing:
        errs.append("never declared (PreDeclareVariable): %s" % missing)
    if sorted(proto["declared"]) != sorted(list(ins) + list(outs)):
        errs.append("declared %s, expected inputs then outputs %s" % (proto["declared"], sorted(list(ins) + list(outs))))
    return errs


def schedules(routine):
    """(path, schedule node) for the routine body and every loop / if / else body."""
    from psyclone.psyir.nodes import Schedule
    out = []

    def rec(node, path):
        if isinstance(node, Schedule):
            out.append((path, node))
        for i, ch in enumerate(node.children):
            rec(ch, path + [i])
    rec(routine, [])
    return out


def e_inq(e, acc):
    k = e[0]
    if k == "idx":
        for x in e[2]:
            e_inq(x, acc)
    elif k == "un":
        e_inq(e[2], acc)
    elif k == "bin":
        e_inq(e[2], acc)
        e_inq(e[3], acc)
    elif k == "intr":
        if e[1] in ("ISize", "ILbound", "IUbound") and e[2] and e[2][0][0] == "var":
            acc.append(e[2][0][1])
        for x in e[2]:
            e_inq(x, acc)
    return acc


def inq_of(ss, acc=None):
    acc = [] if acc is None else acc
    for s in ss:
        k = s[0]
        if k == "assign":
            for x in s[2]:
                e_inq(x, acc)
            e_inq(s[3], acc)
        elif k == "if":
            e_inq(s[1], acc)
            inq_of(s[2], acc)
            inq_of(s[3], acc)
        elif k == "do":
            for x in s[2:5]:
                e_inq(x, acc)
            inq_of(s[5], acc)
        elif k == "print":
            for x in s[1]:
                e_inq(x, acc)
        elif k in ("region", "dir"):
            inq_of(s[2], acc)
    return acc


# ------------------------------------------------------------------ the property, evaluated directly
POISON = 7919


def locations(x, bnds):
    bs = bnds.get(x)
    if not bs:
        return [(x, ())]
    if len(bs) == 1:
        return [(x, (i,)) for i in range(bs[0][0], bs[0][1] + 1)]
    return [(x, (i, j)) for i in range(bs[0][0], bs[0][1] + 1) for j in range(bs[1][0], bs[1][1] + 1)]


def exposed(tr):
    w, out = set(), []
    for k, l in tr:
        if k == "R" and l not in w:
            out.append(l)
        elif k == "W":
            w.add(l)
    return out


def check_region(region, ins, outs, vals, bnds, allvars, vary_extents):
    """-> list of (culprit variable, what, detail) ; [] if the property held on this store;
    None if the run from this store faults / runs out of fuel (nothing to check).
    vary_extents (the ExtractNode variant, option COLLECT-ARRAY-SHAPE-READS on): the extents of the recorded
    variables (inputs, outputs) are recorded state; the replay also changes the extent of every other array."""
    r1 = mf.interp(region, vals, bnds, fuel=40000)
    if r1[0] != "ok":
        return None
    _, s1, tr1, c1 = r1
    # (1) the lists themselves: every upward-exposed read is of an input, every write of an output.
    #     (C12_replay_sound_dyn: when this holds the replay below has the same trace and agrees on all
    #      inputs and written locations, so any later mismatch is a non-written element of a non-input.)
    for l in exposed(tr1):
        if l[0] not in ins:
            return [(l[0], "exposed-read-not-input", {"location": l})]
    for k, l in tr1:
        if k == "W" and l[0] not in outs:
            return [(l[0], "write-not-output", {"location": l})]
    # (2) replay: poison everything that is not a reported input (values; and extents when they are state)
    bad = []
    b2 = dict(bnds)
    if vary_extents:
        for x in bnds:
            if x not in ins and x not in outs:
                b2[x] = [(lo, hi + 3) for lo, hi in bnds[x]]
    v2 = dict(vals)
    for x in allvars:
        if x not in ins:
            for n, l in enumerate(locations(x, b2)):
                v2[l] = POISON + 13 * n + (sum(map(ord, x)) % 97)
    r2 = mf.interp(region, v2, b2, fuel=40000)
    if r2[0] != "ok" or r2[3] != c1 or r2[2] != tr1:
        unrec = [a for a in inq_of(region) if a not in ins and a not in outs]
        if vary_extents and unrec:
            return [(unrec[0], "extent-read-not-recorded",
                     {"outcome": r2[0], "extent_in_recording_run": bnds[unrec[0]], "extent_in_replay": b2[unrec[0]]})]
        return [("?", "replay-diverges-without-exposed-read", {"outcome": r2[0]})]
    s2 = r2[1]
    written = {l for k, l in tr1 if k == "W"}
    for x in outs:
        locs = locations(x, bnds) if c1 == "N" else [l for l in locations(x, bnds) if l in written]
        for l in locs:
            if s1.get(l) != s2.get(l):
                bad.append((x, "output-not-reproduced", {"location": l, "recorded": s1.get(l), "replayed": s2.get(l)}))
                break
    return bad


# ------------------------------------------------------------------ call-tree stream (non-local / module variables)
CT_HEADER = """From Coq Require Import List ZArith Bool String. Import ListNotations.
From PV Require Import Fort.Syntax Fort.Sem C11.Access C12.InOut C12.CallTree.
Open Scope Z_scope.
"""
CT_GLOBALS = {"ma_mod": (["g1", "g2"], {"ga": [(1, 4)]}), "mb_mod": (["g3", "g4"], {"gb": [(1, 4)]})}
CT_ROUTINES = [("kern", "ma_mod"), ("ha1", "ma_mod"), ("ha2", "ma_mod"), ("hb1", "mb_mod"), ("hb2", "mb_mod")]


class GenCT:
    """programs of two modules with module variables; the entry routine `kern` and up to four helpers without
    arguments read / write those variables in different orders and call each other (acyclic, up to 3 levels)"""

    ALL_SCAL = ["g1", "g2", "g3", "g4"]
    ALL_ARRS = {"ga": [(1, 4)], "gb": [(1, 4)]}

    def __init__(self, rng):
        self.r = rng
        self.visible("ma_mod")

    def visible(self, mod):
        """ma_mod imports everything of mb_mod; mb_mod sees only its own variables"""
        if mod == "ma_mod":
            self.scal, self.arrs = list(self.ALL_SCAL), dict(self.ALL_ARRS)
        else:
            self.scal, self.arrs = ["g3", "g4"], {"gb": [(1, 4)]}

    def ref(self):
        a = self.r.choice(sorted(self.arrs))
        return ("idx", a, [("lit", self.r.randint(1, 4))])

    def expr(self, d=0):
        r = self.r
        c = r.random()
        if d >= 2 or c < 0.35:
            c2 = r.random()
            return ("lit", r.randint(0, 4)) if c2 < 0.3 else ("var", r.choice(self.scal)) if c2 < 0.75 else self.ref()
        return ("bin", r.choice(["Add", "Sub", "Mul"]), self.expr(d + 1), self.expr(d + 1))

    def assign(self):
        r = self.r
        c = r.random()
        if c < 0.6:
            x = r.choice(self.scal)
            e = self.expr()
            return ("assign", x, [], ("bin", "Add", ("var", x), e) if r.random() < 0.3 else e)
        t = self.ref()
        return ("assign", t[1], t[2], self.expr())

    def body(self, idx, used):
        r = self.r
        out = []
        later = list(range(idx + 1, len(CT_ROUTINES)))
        for _ in range(r.randint(1, 4)):
            c = r.random()
            if c < 0.3 and later:
                k = r.choice(later)
                used.add(k)
                out.append(("callg", CT_ROUTINES[k][0]))
            elif c < 0.42:
                out.append(("if", ("bin", "Gt", ("var", r.choice(self.scal)), ("lit", 1)), [self.assign()], []))
            else:
                out.append(self.assign())
        return out

    def program(self):
        """-> {routine name: body}; targeted: one variable read first in one routine and overwritten in another"""
        r = self.r
        used = {0}
        bodies = {}
        for i, (nm, mod) in enumerate(CT_ROUTINES):
            self.visible(mod)
            bodies[nm] = self.body(i, used)
        self.visible("ma_mod")
        if r.random() < 0.5:
            k = r.randint(1, len(CT_ROUTINES) - 1)
            helper = CT_ROUTINES[k][0]
            v = r.choice(self.scal if CT_ROUTINES[k][1] == "ma_mod" else ["g3", "g4"])
            bodies[helper] = [("assign", v, [], ("lit", r.randint(0, 5)))] + bodies[helper][:1]
            rd = ("assign", r.choice([x for x in self.scal if x != v]), [], ("bin", "Add", ("var", v), ("lit", 1)))
            bodies["kern"] = ([rd, ("callg", helper)] if r.random() < 0.5 else [("callg", helper), rd]) + bodies["kern"][:2]
        return bodies

    def store(self):
        r = self.r
        vals = {(v, ()): r.randint(-3, 6) for v in self.ALL_SCAL}
        for a, bs in self.ALL_ARRS.items():
            for i in range(bs[0][0], bs[0][1] + 1):
                vals[(a, (i,))] = r.randint(-4, 9)
        return vals


def ct_body_fortran(body):
    lines = []
    for s in body:
        if s[0] == "callg":
            lines.append("    call %s()" % s[1])
        else:
            lines += ["  " + ln for ln in mf.stmts_to_fortran([s])]
    return lines


def ct_module_text(mod, bodies):
    scal, arrs = CT_GLOBALS[mod]
    lines = ["module %s" % mod]
    if mod == "ma_mod":
        lines.append("  use mb_mod, only : g3, g4, gb, hb1, hb2")
    lines += ["  implicit none", "  integer :: %s" % ", ".join(scal)]
    lines += ["  integer, dimension(%d:%d) :: %s" % (bs[0][0], bs[0][1], a) for a, bs in arrs.items()]
    lines.append("contains")
    for nm, m in CT_ROUTINES:
        if m == mod:
            lines += ["  subroutine %s()" % nm] + ct_body_fortran(bodies[nm]) + ["  end subroutine %s" % nm]
    return "\n".join(lines + ["end module %s" % mod]) + "\n"


def ct_reachable(bodies):
    seen, todo = [], ["kern"]
    while todo:
        n = todo.pop()
        if n in seen:
            continue
        seen.append(n)

        def calls(ss):
            for s in ss:
                if s[0] == "callg":
                    yield s[1]
                elif s[0] == "if":
                    yield from calls(s[2])
                    yield from calls(s[3])
        todo += list(calls(bodies[n]))
    return seen


def ct_inline(bodies, name):
    out = []
    for s in bodies[name]:
        if s[0] == "callg":
            out += ct_inline(bodies, s[1])
        elif s[0] == "if":
            out.append(("if", s[1], ct_inline({"_": s[2]}, "_") if not any(x[0] == "callg" for x in s[2]) else s[2], s[3]))
        else:
            out.append(s)
    return out


def ct_impl(dirpath):
    """the implementation's non-local inputs / outputs of routine kern (what get_non_local_read_write_info does for a
    kernel: get_non_local_symbols(routine) resolved by _resolve_calls_and_unknowns)"""
    import contextlib
    import io
    from psyclone.parse import ModuleManager
    from psyclone.psyir.tools import CallTreeUtils, ReadWriteInfo
    ModuleManager._instance = None
    mm = ModuleManager.get()
    mm.add_search_path(str(dirpath))
    try:
        kern = mm.get_module_info("ma_mod").get_psyir().get_routine_psyir("kern")
        ctu = CallTreeUtils()
        rw = ReadWriteInfo()
        buf = io.StringIO()
        with contextlib.redirect_stdout(buf):
            ctu._resolve_calls_and_unknowns(ctu.get_non_local_symbols(kern), rw)
    finally:
        ModuleManager._instance = None
    return (sorted(str(sig).lower() for _, sig in rw.read_list), sorted(str(sig).lower() for _, sig in rw.write_list),
            buf.getvalue())


def calltree_stream(ctx):
    rng = ctx.rng("calltree")
    nprog = ctx.pick(40, 500)
    nstores = ctx.pick(3, 5)
    globals_ = ["g1", "g2", "g3", "g4", "ga", "gb"]
    arrs = {"ga": [(1, 4)], "gb": [(1, 4)]}
    nm = mf.Names(globals_)
    cases, metas = [], []
    for pi in range(nprog):
        g = GenCT(rng)
        bodies = g.program()
        d = ctx.scratch / "ct" / ("p%d" % pi)
        d.mkdir(parents=True, exist_ok=True)
        texts = {}
        for mod in CT_GLOBALS:
            texts[mod] = ct_module_text(mod, bodies)
            (d / (mod + ".f90")).write_text(texts[mod])
        ins, outs, msgs = ct_impl(d)
        if msgs.strip():
            ctx.hist("calltree_messages", msgs.strip()[:60])
        reach = ct_reachable(bodies)
        sem = ct_inline(bodies, "kern")
        fails, seen, ran = [], set(), False
        for si in range(nstores):
            vals = g.store()
            res = check_region(sem, set(ins), set(outs), vals, arrs, globals_, False)
            if res is None:
                continue
            ran = True
            for culprit, what, detail in res:
                if (culprit, what) not in seen:
                    seen.add((culprit, what))
                    fails.append((culprit, what, detail, sorted(vals.items())))
        culprits = [c if c in nm.ids else None for c, _, _, _ in fails]

        def rcoq(body):
            items = []
            for s in body:
                items.append("(XCall [])" if s[0] == "callg" else "(XCore %s)" % mf.stmt_to_coq(
                    s if s[0] != "if" else ("if", s[1], [x for x in s[2] if x[0] != "callg"], s[3]), nm))
            return "[" + "; ".join(items) + "]"
        nl = lambda xs: core.coq_list("%d%%nat" % nm.get(x) for x in xs)
        cases.append("(%s, %s, %s, %s, %s, %s)" % (core.coq_list(rcoq(bodies[r]) for r in reach), nl(globals_), nl(sorted(arrs)),
                                                   nl(ins), nl(outs), nl([c for c in culprits if c is not None])))
        metas.append({"modules": texts, "reachable": reach, "ins": ins, "outs": outs, "fails": fails, "culprits": culprits})
        ctx.count(("calltree", texts["ma_mod"], texts["mb_mod"]), ran and len(reach) > 1)
        ctx.hist("calltree_routines_reached", len(reach))
    results = coq_eval_values(ctx, CT_HEADER, "ct_case", "ct_eval", cases, shard=ctx.pick(60, 100))
    mism, reported = [], 0
    for m, (agree, reasons) in zip(metas, results):
        if not agree:
            mism.append(m)
        it = iter(reasons)
        rs = [next(it) if c is not None else 99 for c in m["culprits"]]
        for (culprit, what, detail, store), k in zip(m["fails"], rs):
            info = {"property": "C12", "stream": "call tree (non-local variables)", "modules": m["modules"],
                    "entry": "kern", "reported_inputs": m["ins"], "reported_outputs": m["outs"], "culprit_variable": culprit,
                    "failure": what, "detail": detail, "store": store, "reason_code": k,
                    "how_to_replay": "write the two modules to a directory, ModuleManager.get().add_search_path(dir); "
                                     "kern = get_module_info('ma_mod').get_psyir().get_routine_psyir('kern'); "
                                     "CallTreeUtils()._resolve_calls_and_unknowns(ctu.get_non_local_symbols(kern), ReadWriteInfo()); "
                                     "run kern (calls inlined) from the store and from a store with every unreported variable changed"}
            if k not in KEYS:
                if reported < 3:
                    ctx.violation(dict(info, why="failure not explained by an established is_written_first gap (model reason %s)" % k))
                reported += 1
            else:
                ctx.hist("finding_reason", KEYS[k] + " (call tree)")
                ctx.finding(KEYS[k], "%s: module variable '%s' is not reported as input" % (what, culprit), info)
    ctx.log("call-tree stream: programs=%d list disagreements=%d concrete failures=%d"
            % (len(cases), len(mism), sum(len(m["fails"]) for m in metas)))
    ctx.notes["calltree_programs"] = len(cases)
    if mism and not reported:
        m = mism[0]
        ctx.violation({"property": "C12", "broken": "correspondence C12.CallTree.ct_inputs/ct_outputs = "
                       "CallTreeUtils._resolve_calls_and_unknowns", "modules": m["modules"], "reachable": m["reachable"],
                       "implementation": {"inputs": m["ins"], "outputs": m["outs"]}, "n_differing": len(mism)}, no_input=True)
    return len(mism)


# ------------------------------------------------------------------ known-finding witnesses
WITNESSES = [
    ("is_written_first/partial-array-write",
     [("assign", "a", [("lit", 1)], ("lit", 0)), ("assign", "s", [], ("idx", "a", [("lit", 2)]))]),
    ("is_written_first/conditional-write",
     [("if", ("bin", "Gt", ("var", "t"), ("lit", 0)), [("assign", "m", [], ("lit", 1))], []),
      ("assign", "n", [], ("var", "m"))]),
    ("is_written_first/do-variable-read-by-own-bounds",
     [("do", "i", ("var", "i"), ("lit", 5), ("lit", 1),
       [("assign", "s", [], ("bin", "Add", ("var", "s"), ("lit", 1)))])]),
    ("is_written_first/partial-array-write",
     [("assign", "a", [("lit", 1)], ("lit", 0))]),
]


MANDATORY = [
    # outputs but no inputs: do i = 1, 6: a(i) = 3*i   /   s = 1   /   a = 0
    [("do", "i", ("lit", 1), ("lit", 6), ("lit", 1), [("assign", "a", [("var", "i")], ("bin", "Mul", ("lit", 3), ("var", "i")))])],
    [("assign", "s", [], ("lit", 1))],
    [("wop", "a", False, ("lit", 0))],
    # inputs but no outputs: if (s > 0) then; end if
    [("if", ("bin", "Gt", ("var", "s"), ("lit", 0)), [], [])],
    # neither: if (1 > 0) then; end if
    [("if", ("bin", "Gt", ("lit", 1), ("lit", 0)), [], [])],
]


def run(ctx):
    from psyclone.psyir.frontend.fortran import FortranReader
    from psyclone.psyir.nodes import Routine
    ctx.cov["rule"] = ("routines from vlib.fortgen + targeted shapes (partial array write/read, conditional scalar "
                       "write, DO variable in own bounds, inquiry intrinsics, both-branch definitions, zero-trip loops, "
                       "read-modify-write assignments); case = (consecutive-statement region of the routine body or of a "
                       "loop/if body, option COLLECT-ARRAY-SHAPE-READS off via CallTreeUtils / on via "
                       "ExtractTrans+ExtractNode); non-trivial = the region ran to completion from at least one grid "
                       "store and reports >=1 input or output; distinct = region text + option")
    ctx.cov["trusted_base"] = core.BASE_TRUST + [
        "coq/C12/InOut.v is a hand-written model of get_in_out_parameters/is_written_first over the C11 access-list "
        "model (C12_accs_is_C11_projection); tied to the code by this correspondence run",
        "Fort/Sem.v is this project's formalisation of the Fortran subset (validated against gfortran by ./check _FORT); "
        "vlib.minifort.interp mirrors it (cross-validated by ./check _FORT)",
        "Fort/Facts.v (exec_frame, exec_unchanged, exec_bnd) is used by the proofs",
        "variable granularity: an array is one signature; scalars/arrays are told apart syntactically (indexed or not)"]
    ctx.assumptions = ["stores are total maps from locations to integers; out-of-bounds accesses do not fault in the semantics",
                       "regions are lists of MiniFortran statements (no calls, no array sections, no derived types)",
                       "replay_sound_partial needs safe (must-define data-flow); outside it only the run-time theorem "
                       "replay_sound_dyn and the per-case evaluation apply"]
    flags = run_translator()
    ctx.notes["intrinsics_translated"] = len(flags)
    ok, rep = ctx.prove()
    ctx.log("proof ok=%s discharged=%d/%d" % (ok, ctx.cov["discharged"], ctx.cov["obligations"]))

    rng = ctx.rng("gen")
    reader = FortranReader()
    memoise_parser_factory()
    nprog = ctx.pick(14, 160)
    nstores = ctx.pick(3, 5)

    n_optdiff = [0]
    n_proto = [0]
    proto_cases = []
    regions = []        # one per region: {"coq": term, "variants": [variant dict ...], meta}
    n_refused = n_oos = 0

    def do_routine(prog, g, tag, stores):
        nonlocal n_refused, n_oos
        decls = g.decls()
        txt = routine_text(prog, decls)
        psy = reader.psyir_from_source(txt)
        routine = find_sub(psy)
        allvars = [d[0] for d in decls]
        bnds = dict(g.arrays)
        nm = mf.Names(sorted(allvars))
        for path, sched in schedules(routine):
            nch = len(sched.children)
            spans = [(i, j) for i in range(nch) for j in range(i + 1, nch + 1)]
            if path and len(spans) > 3:
                spans = rng.sample(spans, 3)
            elif len(spans) > 12:
                spans = rng.sample(spans, 12)
            for lo, hi in spans:
                nodes = sched.children[lo:hi]
                try:
                    region = xstmts_from_psyir(nodes, bnds)
                except mf.OutOfSubset as e:
                    n_oos += 1
                    ctx.hist("out_of_subset", str(e)[:60])
                    continue
                rtxt = "\n".join(xstmts_to_fortran(region))
                variants = [(False, impl_ctu(nodes, False))]
                ex = impl_extract(psy, path, lo, hi)
                if ex[0] in ("ok", "raises"):
                    ctu_on = impl_ctu(nodes, True)
                    if ex[0] != ctu_on[0]:
                        n_optdiff[0] += 1
                        if n_optdiff[0] <= 2:
                            ctx.violation({"property": "C12", "what": "ExtractNode and get_in_out_parameters (ExtractTrans default "
                                           "options) disagree on whether the region can be analysed", "region": rtxt,
                                           "extract_node": ex[0], "call_tree_utils": ctu_on[0]}, no_input=True)
                    elif ex[0] == "ok":
                        # direct oracle on the lowered / generated code
                        proto_cases.append((ctu_on[1], ctu_on[2], ex[1]["sequence"], nm, rtxt, txt))
                        errs = protocol_errors(ex[1], ctu_on[1], ctu_on[2])
                        ctx.hist("protocol_lists", "in%d out%d" % (min(len(ctu_on[1]), 2), min(len(ctu_on[2]), 2)))
                        if errs:
                            n_proto[0] += 1
                            if n_proto[0] <= 3:
                                ctx.violation({"property": "C12", "what": "the generated extraction code does not declare/provide "
                                               "the variables the region was reported to need", "routine": txt, "region": rtxt,
                                               "region_span": (path, lo, hi), "reported_inputs": ctu_on[1],
                                               "reported_outputs": ctu_on[2], "errors": errs, "generated_calls": ex[1]["psydata_lines"],
                                               "how_to_replay": "ExtractTrans().apply(<children[lo:hi]>); FortranWriter()(tree); read "
                                                                "the PreStart / PreDeclareVariable / ProvideVariable calls"})
                    variants.append((True, ctu_on if ctu_on[0] == "ok" else ex))
                else:
                    n_refused += 1
                    ctx.hist("extract_refused", ex[1][:60])
                reg = {"tag": tag, "region": rtxt, "stmts": region, "nm": nm, "stores": stores, "bnds": bnds,
                       "routine": txt, "span": (path, lo, hi), "coq": xstmts_to_coq(region, nm), "variants": [],
                       "arrays": sorted(bnds)}
                ctx.hist("has_call", has_call(region))
                for sh, res_v in variants:
                    if res_v[0] == "raises":
                        reg["variants"].append({"sh": sh, "answered": False, "ins": [], "outs": [], "fails": []})
                        ctx.count((rtxt, sh), False)
                        ctx.hist("impl_raises_NotImplementedError", sh)
                        continue
                    _, ins, outs = res_v
                    ran, fails, seen = False, [], set()
                    for si, (vals, sb) in enumerate(stores):
                        res = check_region(expand_calls(region, sb), set(ins), set(outs), vals, sb, allvars, sh)
                        if res is None:
                            continue
                        ran = True
                        for culprit, what, detail in res:
                            if (culprit, what) not in seen:
                                seen.add((culprit, what))
                                fails.append((culprit, what, detail, si))
                    reg["variants"].append({"sh": sh, "answered": True, "ins": ins, "outs": outs, "fails": fails})
                    ctx.count((rtxt, sh), ran and bool(ins or outs))
                    ctx.hist("region_len", hi - lo)
                    ctx.hist("nested", bool(path))
                    ctx.hist("option_shape_reads", sh)
                regions.append(reg)

    # known-finding witnesses first, then generated routines
    for wi, (key, prog) in enumerate(WITNESSES):
        g = Gen12(ctx.rng("w%d" % wi), arrays={"a": [(1, 6)], "b": [(1, 6)], "c": [(1, 6)], "d": [(0, 4), (1, 5)]})
        stores = []
        for k in range(3):
            vals, b = g.store()
            vals[("t", ())] = [0, 1, -2][k]
            vals[("i", ())] = [1, 4, 6][k]
            stores.append((vals, b))
        do_routine(prog, g, "witness:" + key, stores)
    # mandatory set: regions with no inputs, no outputs, neither
    for mi, prog in enumerate(MANDATORY):
        g = Gen12(ctx.rng("m%d" % mi), arrays={"a": [(1, 6)], "b": [(1, 6)], "c": [(1, 6)], "d": [(0, 4), (1, 5)]})
        do_routine(prog, g, "mandatory%d" % mi, [g.store() for _ in range(2)])
    n_wit = len(regions)
    max_regions = ctx.pick(170, 10 ** 9)
    for pi in range(nprog):
        if len(regions) >= max_regions:
            break
        g = Gen12(rng, max_depth=2)
        prog = g.block({}, 0, False, rng.randint(2, 5))
        c = rng.random()
        if c < 0.2:
            prog.insert(rng.randint(0, len(prog)), g.call({}))
        elif c < 0.35:
            k = rng.randint(0, len(prog))
            prog[k:k] = g.call_with_partial_write()
        c = rng.random()
        if c < 0.3:
            prog.insert(rng.randint(0, len(prog)), g.wop())
        elif c < 0.55:
            k = rng.randint(0, len(prog))
            prog[k:k] = g.wop_then_overwrite()
        if rng.random() < 0.55:
            k = rng.randint(0, len(prog))
            prog[k:k] = g.compound()
        stores = []
        for k in range(nstores):             # array extents are part of the incoming state: vary them
            vals, b = g.store()
            b = {a: [(lo, hi + (0 if k == 0 else rng.choice([0, 1, 2]))) for lo, hi in bs] for a, bs in b.items()}
            for a in b:
                for l in locations(a, b):
                    vals.setdefault(l, rng.randint(-4, 9))
            stores.append((vals, b))
        do_routine(prog, g, "gen%d" % pi, stores)
    ncases = sum(len(r["variants"]) for r in regions)
    nfail = sum(len(v["fails"]) for r in regions for v in r["variants"])
    ctx.log("regions=%d cases=%d extract_refused=%d out_of_subset=%d dynamic failures=%d"
            % (len(regions), ncases, n_refused, n_oos, nfail))
    ctx.notes["out_of_subset"] = n_oos
    ctx.notes["extract_refused"] = n_refused
    ctx.notes["dynamic_failures"] = nfail
    ctx.notes["stores_per_region"] = nstores

    # ---- model side: one evaluation per region (lists agree, safe, reads_safe, reason codes of the culprits)
    def names(r, xs):
        return core.coq_list("%d%%nat" % r["nm"].get(x) for x in xs)
    coq_cases = []
    for r in regions:
        vs = []
        for v in r["variants"]:
            culprits = [c if c in r["nm"].ids else None for c, _, _, _ in v["fails"]]
            v["culprit_ids"] = culprits
            vs.append("(%s, %s, %s, %s, %s)" % ("true" if v["sh"] else "false", "true" if v["answered"] else "false",
                                                names(r, v["ins"]), names(r, v["outs"]),
                                            names(r, [c for c in culprits if c is not None])))
        coq_cases.append("(%s, %s, %s)" % (r["coq"], names(r, r["arrays"]), core.coq_list(vs)))
    results = coq_eval_values(ctx, HEADER, "list xstmt * list name * list variant", "eval_case", coq_cases, shard=ctx.pick(70, 100))
    mism, n_unsafe = [], 0
    for r, res in zip(regions, results):
        for v, (agree, safe, rsafe, reasons) in zip(r["variants"], res):
            v["agree"], v["safe"], v["reads_safe"] = agree, safe, rsafe
            it = iter(reasons)
            v["reasons"] = [next(it) if c is not None else 99 for c in v["culprit_ids"]]
            if not agree:
                mism.append((r, v))
            n_unsafe += not safe
            ctx.hist("bucket", "safe" if safe else ("gap:reads-ok-output-partial" if rsafe else "gap:reads"))
    ctx.cov["disagreements_checked"] = len(mism)
    ctx.log("model/impl list disagreements=%d unsafe cases=%d (of %d)" % (len(mism), n_unsafe, ncases))

    def replay_of(r, v, extra):
        d = {"property": "C12", "routine": r["routine"], "region": r["region"], "region_span": r["span"],
             "option_COLLECT_ARRAY_SHAPE_READS": v["sh"], "reported_inputs": v["ins"], "reported_outputs": v["outs"],
             "how_to_replay": "FortranReader().psyir_from_source(routine); CallTreeUtils().get_in_out_parameters("
                              "<children[lo:hi] of the schedule at path>) (option on: ExtractTrans().apply + written "
                              "ProvideVariable calls); run the region from the store below and from the same store with "
                              "every non-input variable changed (option on: also with a different extent of every array that is "
                              "neither a reported input nor a reported output)"}
        d.update(extra)
        return d

    # ---- verdicts on concrete failures
    reported = 0
    for r in regions:
        for v in r["variants"]:
            for (culprit, what, detail, si), k in zip(v["fails"], v["reasons"]):
                info = replay_of(r, v, {"culprit_variable": culprit, "failure": what, "detail": detail,
                                        "store": sorted(r["stores"][si][0].items()),
                                        "array_bounds": r["stores"][si][1], "reason_code": k})
                if k not in KEYS:
                    # k = 0: the first-access rule itself says the variable IS an input (or the culprit is unknown)
                    if reported < 3:
                        ctx.violation(dict(info, why="failure not explained by an established is_written_first gap "
                                                     "(model reason code %s)" % k))
                    reported += 1
                elif v["safe"]:
                    if reported < 3:
                        ctx.violation(dict(info, why="region is inside `safe` (C12_replay_sound_partial holds of the model) "
                                                     "yet the replay fails with the implementation's lists"))
                    reported += 1
                else:
                    ctx.hist("finding_reason", KEYS[k])
                    if KEYS[k] in ctx.known_printed:
                        continue
                    open_keys = [f.get("key") for f in ctx.known_findings() if f.get("status") == "open"]
                    if KEYS[k] not in open_keys and reported >= 3:
                        reported += 1
                        continue
                    if ctx.finding(KEYS[k], "%s: variable '%s' is not reported as input (its first access is a write)"
                                   % (what, culprit), info):
                        reported += 1
    # ---- correspondence / proof broken without a concrete failing input
    if not reported and (mism or not ok):
        first = None
        if mism:
            r, v = mism[0]
            shb = "true" if v["sh"] else "false"
            shown = ctx.coq_eval_show(HEADER, ["(inputs_of (xaccs %s %s), outputs_of (xaccs %s %s))" % (shb, r["coq"], shb, r["coq"])])
            first = replay_of(r, v, {"model": shown, "names": r["nm"].ids})
        ctx.violation({"property": "C12",
                       "broken": "correspondence C12.InOut.inputs/outputs = get_in_out_parameters" if mism
                       else "proof obligations of Properties/C12.v", "proof_report": rep if not ok else None,
                       "first_differing_case": first, "n_differing": len(mism)}, no_input=True)
    ctx.cov["disagreements_checked"] += calltree_stream(ctx)
    # the emitted call sequence = the Coq model of the lowering (C12/Protocol.v: lower_extract), event by event
    def pc(t, nm_):
        if t[0] == "PreStart":
            return "(PreStart %d %d)" % (t[1], t[2])
        if t[0] in ("PreDeclare", "Provide"):
            return "(%s %d%%nat %s)" % (t[0], nm_.get(t[1]), "true" if t[2] else "false") if t[1] in nm_.ids else None
        return t[0] if t[0] != "Unknown" else None
    pcs, pmeta = [], []
    for ins_, outs_, seq, nm_, rtxt_, txt_ in proto_cases:
        toks = [pc(t, nm_) for t in seq]
        if None in toks:
            toks = ["PostEnd"]                     # unknown call / unknown variable: cannot agree with the model
        pcs.append("(%s, %s, [%s])" % (core.coq_list("%d%%nat" % nm_.get(x) for x in ins_),
                                       core.coq_list("%d%%nat" % nm_.get(x) for x in outs_), "; ".join(toks)))
        pmeta.append((ins_, outs_, seq, rtxt_, txt_))
    pbad = ctx.coq_eval_failing("From PV Require Import Fort.Syntax C12.Protocol.", "list name * list name * list pcall",
                                "protocol_agrees", pcs, shard=400) if pcs else []
    ctx.notes["protocol_sequences_compared"] = len(pcs)
    ctx.log("extraction protocol sequences vs Coq lower_extract: %d compared, %d differ" % (len(pcs), len(pbad)))
    for i in pbad[:2]:
        ctx.violation({"property": "C12", "what": "the sequence of PSyData calls in the generated code differs from the modelled "
                       "lowering (C12.Protocol.lower_extract reported_inputs reported_outputs)", "routine": pmeta[i][4],
                       "region": pmeta[i][3], "reported_inputs": pmeta[i][0], "reported_outputs": pmeta[i][1],
                       "generated_sequence": pmeta[i][2]})
    for r in regions[n_wit:n_wit + 3]:
        v = r["variants"][-1]
        ctx.sample({"region": r["region"], "shape_reads": v["sh"], "inputs": v["ins"], "outputs": v["outs"],
                    "safe": v["safe"]})
