"""C13 — OpenACC data regions move all data the region needs (DESIGN 5/C13).

Model: coq/C13/AccData.v (clause classification of create_data_movement_deep_copy_refs over the C11/C12
access list, acceptance check of ACCDataTrans.validate, two-memory semantics exec_dev).
Theorems: coq/Properties/C13.v.  Tie = correspondence:

  * every consecutive-statement region (routine body, loop / if bodies) of generated routines — with calls
    to unknown routines at the top level so that READWRITE accesses occur — is given to the real
    ACCDataTrans.apply on a copy of the tree; the verdict (accepted / refused) and the generated
    copyin / copyout / copy clauses are compared with the model by vm_compute;
  * the property itself is evaluated with the implementation's clauses: the region is run by the
    MiniFortran interpreter on the host store and on a device store in which every array that is not in
    a copyin/copy clause holds sentinel ("undefined") values; copyout/copy arrays are copied back; the
    two host results must be equal on every location, for a grid of stores;
  * the harness' two-memory evaluator is itself cross-checked against the Coq definition exec_dev on a
    sample (constant junk).
  A concrete difference is classified by the model's reason code of the culprit array; the reasons
  established on the unchanged tree are known findings, anything else is a VIOLATION."""
import importlib.util

from vlib import core, minifort as mf, fortgen


def _load_c12():
    spec = importlib.util.spec_from_file_location("props_C12_check_for_C13", core.VERIF / "props" / "C12" / "check.py")
    mod = importlib.util.module_from_spec(spec)
    spec.loader.exec_module(mod)
    return mod


C12 = _load_c12()

KEY_PARTIAL = "create_data_movement_deep_copy_refs/copyout-array-partially-written"
KEY_READ = "create_data_movement_deep_copy_refs/copyout-array-read-before-written"

HEADER = """From Coq Require Import List ZArith Bool String. Import ListNotations.
From PV Require Import Fort.Syntax Fort.Sem C11.Access C12.InOut C13.AccData C13.Static.
Open Scope Z_scope.
Definition x_accept (x : xstmt) : bool :=
  match x with XCore s => s_accept s | XWhile _ body => forallb s_accept body | _ => true end.
(* case: region (with calls), declared arrays, implementation accepted?, copyin, copyout, copy, culprit arrays
   result: (verdict agrees, clauses agree (true when refused), copyout arrays never read, reason codes) *)
Definition c13_case := (list xstmt * list name * list (name * list (Z * Z)) * bool * list name * list name * list name * list name)%type.
Definition eval_case (c : c13_case) : bool * bool * bool * list nat * bool :=
  match c with (xs, arrs, bds, acc, cin, cout, cpy, cs) =>
    let isarr := fun x => mem x arrs in
    let b := fun a => match find (fun p => Nat.eqb (fst p) a) bds with Some p => snd p | None => [] end in
    (Bool.eqb (forallb x_accept xs) acc,
     if acc then clauses_agree (xs, arrs, cin, cout, cpy) else true,
     forallb (fun x => negb (isread x (xaccs false xs))) (in_clause isarr (xaccs false xs) CopyOut),
     map (x_reason isarr xs) cs,
     acc && negb (has_call xs) && static_safe isarr b (core_of xs))
  end.
(* cross-check of the harness' two-memory evaluator against exec_dev with the SAME clause lists:
   (semantics of the region, arrays, copyin, copyout, copy, junk, store, expected final values) *)
Definition dev_case := (list stmt * list name * list name * list name * list name * Z * store * list (loc * Z))%type.
Definition dev_check (c : dev_case) : bool :=
  match c with (r, arrs, cin, cout, cpy, j, st, fin) =>
    match dev_final_cl 5000 arrs cin cout cpy j r st with
    | Some s => forallb (fun lv => Z.eqb (val s (fst lv)) (snd lv)) fin
    | None => false
    end
  end.
"""


# ------------------------------------------------------------------ implementation side
def impl_acc(psy, path, lo, hi):
    """ACCDataTrans on a copy -> ("ok", copyin, copyout, copy) | ("refused", msg)."""
    from psyclone.psyir.nodes import Routine, ACCDataDirective
    from psyclone.psyir.nodes.acc_clauses import ACCCopyClause, ACCCopyInClause, ACCCopyOutClause
    from psyclone.transformations import ACCDataTrans, TransformationError
    from psyclone.psyir.backend.fortran import FortranWriter
    import re
    c = psy.copy()
    routine = C12.find_sub(c)
    sched = C12.follow(routine, path)
    try:
        ACCDataTrans().apply(sched.children[lo:hi])
    except TransformationError as e:
        return ("refused", str(e.value)[:100])
    d = routine.walk(ACCDataDirective)[0]
    got = {ACCCopyInClause: [], ACCCopyOutClause: [], ACCCopyClause: []}
    for cl in d.children[1:]:
        got[type(cl)] += [x.name.lower() for x in cl.children]
    # the written directive must say the same
    line = [ln for ln in FortranWriter()(c).split("\n") if "!$acc data" in ln][0]
    txt = {k: sorted(x.strip() for x in (re.search(r"\b%s\(([^)]*)\)" % k, line).group(1).split(",")
                                          if re.search(r"\b%s\(" % k, line) else []))
           for k in ("copyin", "copyout", "copy")}
    res = ("ok", sorted(got[ACCCopyInClause]), sorted(got[ACCCopyOutClause]), sorted(got[ACCCopyClause]))
    if (txt["copyin"], txt["copyout"], txt["copy"]) != res[1:]:
        return ("text-differs", res, line)
    return res


# ------------------------------------------------------------------ two-memory evaluation
def junk_distinct(l, n):
    return 7919 + 13 * n + (sum(map(ord, l[0])) % 97)


def two_memory(region, vals, bnds, arrays, cin, cout, cpy, junk):
    """-> None if the host run does not complete; else dict(host=final host values after the host-only run,
    dev=final host values after the device run or an outcome string, trace, run_ok=(h1,h2,h3), culprit_read)."""
    r1 = mf.interp(region, vals, bnds, fuel=40000)
    if r1[0] != "ok":
        return None
    _, s1, tr1, c1 = r1
    inb0 = {x: set(C12.locations(x, bnds)) for x in arrays}
    if any(k in ("R", "W") and l[0] in inb0 and l not in inb0[l[0]] for k, l in tr1):
        return None           # the host run itself accesses an array out of bounds: not a valid execution
    on_in = set(cin) | set(cpy)
    on_out = set(cout) | set(cpy)
    dv = dict(vals)
    for x in arrays:
        if x not in on_in:
            for n, l in enumerate(C12.locations(x, bnds)):
                dv[l] = junk(l, n)
    written = [l for k, l in tr1 if k == "W"]
    wset = set(written)
    inb = {x: set(C12.locations(x, bnds)) for x in arrays}
    culprit_read = None
    for l in C12.exposed(tr1):
        if l[0] in arrays and l[0] not in on_in:
            culprit_read = l
            break
    h1 = culprit_read is None
    h2 = all(l in inb[l[0]] for l in written if l[0] in arrays)
    h3 = all(l in wset for x in cout for l in inb.get(x, ()))
    r2 = mf.interp(region, dv, bnds, fuel=40000)
    host = dict(s1.vals)
    if r2[0] != "ok":
        return {"host": host, "dev": r2[0], "run_ok": (h1, h2, h3), "culprit_read": culprit_read, "same_trace": False}
    s2 = r2[1]
    final = {}
    for l in set(s1.vals) | set(s2.vals) | set(vals):
        if l[0] in arrays:
            final[l] = s2.get(l) if (l[0] in on_out and l in inb[l[0]]) else vals.get(l, 0)
        else:
            final[l] = s2.get(l)
    return {"host": host, "dev": final, "run_ok": (h1, h2, h3), "culprit_read": culprit_read,
            "same_trace": r2[2] == tr1 and r2[3] == c1, "written": wset}


def diff_host(res):
    if not isinstance(res["dev"], dict):
        return [("?", res["dev"], None, None)]
    out = []
    for l in sorted(set(res["host"]) | set(res["dev"])):
        a, b = res["host"].get(l, 0), res["dev"].get(l, 0)
        if a != b:
            out.append((l[0], l, a, b))
    return out


class Gen13(C12.Gen12):
    def expr(self, env, depth=0):
        return fortgen.Gen.expr(self, env, depth) if self.r.random() < 0.97 else C12.Gen12.expr(self, env, depth)

    def full_write(self, env):
        """a loop overwriting a whole 1-D array (copyout is then correct)"""
        r = self.r
        free = [v for v in fortgen.LOOPVARS if v not in env]
        one_d = [x for x in sorted(self.arrays) if len(self.arrays[x]) == 1]
        if not free or not one_d:
            return [self.stmt(env, 0, False)]
        a = r.choice(one_d)
        lb, ub = self.arrays[a][0]
        v = free[0]
        env2 = dict(env)
        env2[v] = (lb, ub)
        other = r.choice([x for x in one_d if x != a] or one_d)
        lo2, hi2 = self.arrays[other][0]
        src = ("idx", other, [("lit", r.randint(lo2, hi2))]) if other != a else ("lit", 3)
        return [("do", v, ("lit", lb), ("lit", ub), ("lit", 1),
                 [("assign", a, [("var", v)], ("bin", "Add", src, ("var", v)))])]

    def block(self, env, depth, in_loop, n):
        out = []
        for _ in range(n):
            c = self.r.random()
            if c < 0.12:
                out += self.targeted(env)
            elif c < 0.3 and depth == 0:
                out += self.full_write(env)
            else:
                out.append(self.stmt(env, depth, in_loop))
        return out


WITNESSES = [
    (KEY_PARTIAL, [("assign", "a", [("lit", 1)], ("lit", 0))]),
    (KEY_READ, [("assign", "a", [("lit", 1)], ("lit", 0)), ("assign", "s", [], ("idx", "a", [("lit", 2)]))]),
    (KEY_READ, [("if", ("bin", "Gt", ("var", "t"), ("lit", 0)), [("assign", "c", [("lit", 1)], ("lit", 1))], []),
                ("assign", "n", [], ("idx", "c", [("lit", 1)]))]),
]


def run(ctx):
    from psyclone.psyir.frontend.fortran import FortranReader
    from psyclone.psyir.nodes import Routine
    ctx.cov["rule"] = ("routines from vlib.fortgen + C12 targeted shapes + whole-array overwrite loops + calls to an unknown "
                       "routine at top level; case = consecutive-statement region (routine body or loop/if body) given to "
                       "ACCDataTrans.apply; non-trivial = accepted, at least one clause generated and (for call-free regions) "
                       "the host run completed from at least one grid store; distinct = region text")
    ctx.cov["trusted_base"] = core.BASE_TRUST + [
        "coq/C13/AccData.v is a hand-written model of create_data_movement_deep_copy_refs / ACCDataTrans.validate's "
        "node-type check over the C11/C12 access-list model; tied to the code by this correspondence run",
        "the two-memory semantics (undefined device arrays = arbitrary junk, whole declared extent copied back, scalars "
        "shared) is this project's reading of OpenACC structured data regions",
        "Fort/Sem.v + vlib.minifort.interp (validated by ./check _FORT); Fort/Facts.v exec_frame / exec_unchanged / exec_bnd",
        "a call's semantics is an expansion supplied by the harness: known callees of the same module by their bodies, the "
        "opaque routine foo conservatively (reads and writes every element of every by-reference argument)"]
    ctx.assumptions = ["acc_run_ok (run-time): no upward-exposed read of an array that is not copied in, array writes in "
                       "bounds, every in-bounds element of every copyout array written",
                       "scalars are outside the claim (modelled as shared between host and device)",
                       "non-structure signatures only (no derived types)"]
    ctx.notes["intrinsics_translated"] = len(C12.run_translator())
    ok, rep = ctx.prove()
    ctx.log("proof ok=%s discharged=%d/%d" % (ok, ctx.cov["discharged"], ctx.cov["obligations"]))

    rng = ctx.rng("gen")
    reader = FortranReader()
    nprog = ctx.pick(16, 170)
    nstores = ctx.pick(3, 5)
    max_regions = ctx.pick(190, 10 ** 9)
    regions = []
    n_oos = 0
    dev_samples = []

    def do_routine(prog, g, tag, stores):
        nonlocal n_oos
        decls = g.decls()
        txt = C12.routine_text(prog, decls)
        psy = reader.psyir_from_source(txt)
        routine = C12.find_sub(psy)
        arrays = sorted(g.arrays)
        bnds = dict(g.arrays)
        nm = mf.Names(sorted(d[0] for d in decls))
        for path, sched in C12.schedules(routine):
            nch = len(sched.children)
            spans = [(i, j) for i in range(nch) for j in range(i + 1, nch + 1)]
            if path and len(spans) > 3:
                spans = rng.sample(spans, 3)
            elif len(spans) > 12:
                spans = rng.sample(spans, 12)
            for lo, hi in spans:
                nodes = sched.children[lo:hi]
                try:
                    region = C12.xstmts_from_psyir(nodes, bnds)
                except mf.OutOfSubset as e:
                    n_oos += 1
                    ctx.hist("out_of_subset", str(e)[:60])
                    continue
                rtxt = "\n".join(C12.xstmts_to_fortran(region))
                sem = C12.expand_calls(region, bnds)
                res = impl_acc(psy, path, lo, hi)
                if res[0] == "text-differs":
                    ctx.violation({"property": "C13", "what": "clauses of the ACCDataDirective node differ from the written "
                                   "directive", "region": rtxt, "node": res[1], "text": res[2]}, no_input=True)
                    res = res[1]
                has_call = C12.has_call(region)
                reg = {"tag": tag, "region": rtxt, "xs": region, "nm": nm, "arrays": arrays, "bnds": bnds, "routine": txt,
                       "span": (path, lo, hi), "accepted": res[0] == "ok", "clauses": res[1:] if res[0] == "ok" else None,
                       "has_call": has_call, "fails": [], "stores": stores, "ran": 0, "run_ok": 0}
                ctx.hist("verdict", res[0] if res[0] == "ok" else "refused:" + res[1][:50])
                if res[0] == "ok":
                    cin, cout, cpy = res[1:]
                    ctx.hist("clauses", "in%d out%d copy%d" % (min(len(cin), 2), min(len(cout), 2), min(len(cpy), 2)))
                    if True:
                        seen = set()
                        for si, (vals, _) in enumerate(stores):
                            tm = two_memory(sem, vals, bnds, arrays, cin, cout, cpy, junk_distinct)
                            if tm is None:
                                continue
                            reg["ran"] += 1
                            reg["run_ok"] += all(tm["run_ok"])
                            df = diff_host(tm)
                            if df:
                                if tm["culprit_read"] is not None:
                                    culprit, kind = tm["culprit_read"][0], "device-reads-undefined"
                                    detail = {"exposed_read": tm["culprit_read"], "first_difference": df[0][1:]}
                                else:
                                    culprit, kind = df[0][0], "host-value-differs"
                                    detail = {"location": df[0][1], "host_run": df[0][2], "device_run": df[0][3],
                                              "written_by_region": df[0][1] in tm.get("written", ())}
                                if (culprit, kind) not in seen:
                                    seen.add((culprit, kind))
                                    reg["fails"].append((culprit, kind, detail, si, all(tm["run_ok"])))
                            if len(dev_samples) < ctx.pick(12, 120) and rng.random() < 0.15:
                                tc = two_memory(sem, vals, bnds, arrays, cin, cout, cpy, lambda l, n: 7919)
                                if isinstance(tc["dev"], dict):
                                    dev_samples.append((sem, arrays, vals, bnds, tc["dev"], nm, (cin, cout, cpy)))
                ctx.count(rtxt, res[0] == "ok" and bool(res[1] or res[2] or res[3]) and reg["ran"] > 0)
                ctx.hist("region_len", hi - lo)
                ctx.hist("has_call", has_call)
                regions.append(reg)

    fixed = {"a": [(1, 6)], "b": [(1, 6)], "c": [(1, 6)], "d": [(0, 4), (1, 5)]}
    for wi, (key, prog) in enumerate(WITNESSES):
        g = Gen13(ctx.rng("w%d" % wi), arrays=fixed)
        stores = []
        for k in range(3):
            vals, b = g.store()
            vals[("t", ())] = [0, 1, -2][k]
            stores.append((vals, b))
        do_routine(prog, g, "witness:" + key, stores)
    n_wit = len(regions)
    for pi in range(nprog):
        if len(regions) >= max_regions:
            break
        g = Gen13(rng, max_depth=2)
        prog = g.block({}, 0, False, rng.randint(2, 5))
        c = rng.random()
        if c < 0.25:
            prog.insert(rng.randint(0, len(prog)), g.call({}))
        elif c < 0.45:
            k = rng.randint(0, len(prog))
            prog[k:k] = g.call_with_partial_write()
        c = rng.random()
        if c < 0.3:
            prog.insert(rng.randint(0, len(prog)), g.wop())
        elif c < 0.6:
            k = rng.randint(0, len(prog))
            prog[k:k] = g.wop_then_overwrite()
        if rng.random() < 0.55:
            k = rng.randint(0, len(prog))
            prog[k:k] = g.compound()
        stores = [g.store() for _ in range(nstores)]
        for vals, _ in stores:           # loop variables matter when a loop body is run as a region
            for v in fortgen.LOOPVARS:
                vals[(v, ())] = rng.randint(1, 3)
        do_routine(prog, g, "gen%d" % pi, stores)
    nfail = sum(len(r["fails"]) for r in regions)
    ctx.log("regions=%d accepted=%d with_call=%d out_of_subset=%d concrete differences=%d"
            % (len(regions), sum(r["accepted"] for r in regions), sum(r["has_call"] for r in regions), n_oos, nfail))
    ctx.notes["out_of_subset"] = n_oos
    ctx.notes["concrete_differences"] = nfail
    ctx.notes["runs_inside_acc_run_ok"] = sum(r["run_ok"] for r in regions)
    ctx.notes["runs_total"] = sum(r["ran"] for r in regions)

    # ---- model side
    def names(r, xs):
        return core.coq_list("%d%%nat" % r["nm"].get(x) for x in xs)
    coq_cases = []
    for r in regions:
        cin, cout, cpy = r["clauses"] if r["accepted"] else ([], [], [])
        culprits = [c if c in r["nm"].ids else None for c, _, _, _, _ in r["fails"]]
        r["culprit_ids"] = culprits
        bds = "; ".join("(%d%%nat, [%s])" % (r["nm"].get(a), "; ".join("((%d), (%d))" % p for p in r["bnds"][a]))
                        for a in r["arrays"])
        coq_cases.append("(%s, %s, [%s], %s, %s, %s, %s, %s)" % (
            C12.xstmts_to_coq(r["xs"], r["nm"]), names(r, r["arrays"]), bds, "true" if r["accepted"] else "false",
            names(r, cin), names(r, cout), names(r, cpy), names(r, [c for c in culprits if c is not None])))
    results = C12.coq_eval_values(ctx, HEADER, "c13_case", "eval_case", coq_cases, shard=ctx.pick(70, 100))
    mism = []
    n_static = 0
    for r, (v_ok, c_ok, wo, reasons, stat) in zip(regions, results):
        n_static += bool(stat)
        r["static"] = bool(stat)
        r["agrees"] = v_ok and c_ok
        it = iter(reasons)
        r["reasons"] = [next(it) if c is not None else 99 for c in r["culprit_ids"]]
        r["write_only"] = wo
        if not v_ok or not c_ok:
            mism.append((r, "verdict" if not v_ok else "clauses"))
        if r["accepted"]:
            ctx.hist("bucket", ("copyout-write-only" if wo else "copyout-array-read") + ("/call" if r["has_call"] else ""))
    ctx.cov["disagreements_checked"] = len(mism)
    ctx.notes["accepted_regions_in_static_class"] = n_static
    ctx.notes["accepted_regions"] = sum(r["accepted"] for r in regions)
    ctx.log("accepted regions inside static_safe (C13_acc_sound_static): %d of %d" % (n_static, sum(r["accepted"] for r in regions)))
    ctx.log("model/impl disagreements=%d" % len(mism))
    # ---- cross-check of the two-memory evaluator against Coq exec_dev
    dcases = []
    for region, arrays, vals, bnds, fin, nm, (cin, cout, cpy) in dev_samples:
        fin_c = "; ".join("((%d%%nat, [%s]), (%d))" % (nm.get(k[0]), "; ".join("(%d)" % i for i in k[1]), z)
                          for k, z in sorted(fin.items()))
        nl = lambda xs: core.coq_list("%d%%nat" % nm.get(x) for x in xs)
        dcases.append("(%s, %s, %s, %s, %s, 7919, %s, [%s])" % (mf.stmts_to_coq(region, nm), nl(arrays), nl(cin), nl(cout),
                                                               nl(cpy), mf.store_to_coq(vals, bnds, nm), fin_c))
    dbad = ctx.coq_eval_failing(HEADER, "dev_case", "dev_check", dcases, shard=40) if dcases else []
    ctx.notes["two_memory_evaluator_cross_checked"] = len(dcases)
    ctx.log("two-memory evaluator vs Coq exec_dev: %d cases, %d differ" % (len(dcases), len(dbad)))
    for i in dbad[:2]:
        ctx.violation({"property": "C13", "glue": "harness two-memory evaluation differs from Coq exec_dev",
                       "region": dev_samples[i][0], "store": sorted(dev_samples[i][2].items())}, no_input=True)

    def replay_of(r, extra):
        d = {"property": "C13", "routine": r["routine"], "region": r["region"], "region_span": r["span"],
             "generated_clauses": dict(zip(("copyin", "copyout", "copy"), r["clauses"])) if r["accepted"] else None,
             "how_to_replay": "FortranReader().psyir_from_source(routine); ACCDataTrans().apply(<children[lo:hi] of the "
                              "schedule at path>); run the region on the host store, and on a device store where every array "
                              "not in copyin/copy holds other values, copying copyout/copy arrays back"}
        d.update(extra)
        return d

    reported = 0
    for r in regions:
        for (culprit, kind, detail, si, run_ok), k in zip(r["fails"], r["reasons"]):
            info = replay_of(r, {"culprit_array": culprit, "failure": kind, "detail": detail, "reason_code": k,
                                 "store": sorted(r["stores"][si][0].items())})
            key = None
            if r.get("static"):
                run_ok = True          # theorem C13_acc_sound_static applies: any difference is a VIOLATION
            if not run_ok:
                if kind == "device-reads-undefined" and k == 2:
                    key = KEY_READ
                elif kind == "host-value-differs" and k in (1, 2) and not detail.get("written_by_region"):
                    key = KEY_PARTIAL
            if key is None:
                if reported < 3:
                    ctx.violation(dict(info, why=("the run satisfies acc_run_ok (C13_acc_sound_dyn holds of the model) yet "
                                                  "the host values differ" if run_ok else
                                                  "difference not explained by an established copyout gap (model reason "
                                                  "code %s)" % k)))
                reported += 1
                continue
            ctx.hist("finding_reason", key)
            if key in ctx.known_printed:
                continue
            open_keys = [f.get("key") for f in ctx.known_findings() if f.get("status") == "open"]
            if key not in open_keys and reported >= 3:
                reported += 1
                continue
            if ctx.finding(key, "%s: array '%s' is in copyout" % (kind, culprit), info):
                reported += 1
    if not reported and (mism or not ok):
        first = None
        if mism:
            r, what = mism[0]
            isarr = "(fun x => mem x %s)" % names(r, r["arrays"])
            xs = C12.xstmts_to_coq(r["xs"], r["nm"])
            shown = ctx.coq_eval_show(HEADER, ["(forallb x_accept %s, in_clause %s (xaccs false %s) CopyIn, in_clause %s (xaccs false %s) "
                                               "CopyOut, in_clause %s (xaccs false %s) Copy)" % (xs, isarr, xs, isarr, xs, isarr, xs)])
            first = replay_of(r, {"differs_in": what, "implementation_accepted": r["accepted"],
                                  "model (accepts, copyin, copyout, copy)": shown, "names": r["nm"].ids})
        ctx.violation({"property": "C13",
                       "broken": "correspondence C13.AccData (acceptance, clause classification) = ACCDataTrans" if mism
                       else "proof obligations of Properties/C13.v", "proof_report": rep if not ok else None,
                       "first_differing_case": first, "n_differing": len(mism)}, no_input=True)
    for r in [x for x in regions[n_wit:] if x["accepted"]][:3]:
        ctx.sample({"region": r["region"], "clauses": dict(zip(("copyin", "copyout", "copy"), r["clauses"]))})
