"""C17 -- SymbolicMaths.equal / never_equal / solve_equal_for / expand against Fortran integer arithmetic.

Model: coq/C17/Model.v (Fortran evaluation `feval`, SymPyWriter+parse_expr `tr`, sympy semantics `seval`,
polynomial normaliser); theorems: coq/Properties/C17.v.  Tie to /repo (DESIGN 5/C17):

 T   props/C17/translate.py regenerates coq/C17/Gen.v (does the writer bracket a power that is the base of a
     power?); the theorems are generic in that flag, the correspondence uses the value of the tree under test.
 C1  chk_tr    : the text the real SymPyWriter produces, read by Python's grammar (what parse_expr does),
                 equals the model's `tr` (up to the placement of signs inside products, `canon`).
 C2  chk_seval : the real sympy expression evaluated at rational valuations = `seval (tr e)` (ties the
                 modelled sympy semantics: rational "/", Mod with the sign of the divisor, Min/Max, functions).
 C3  chk_feval : this file's Fortran evaluator / fragment classifier = the Coq ones (sample).
 C4  chk_poly  : implementation verdicts on the polynomial fragment only when the proved normaliser agrees.
 C5  faithful model with the REAL sympy as oracle (tr -> sympy objects -> simplify / solveset) must
     reproduce every positive verdict of the implementation (one-directional: a stricter implementation
     never alarms).
 S   failing-input search (always): whenever the implementation says equal / never equal / reports a
     solution / expands, both sides are evaluated under Fortran semantics over a grid of integer valuations;
     a failure is explained by the node at which sympy's and Fortran's operator differ at that valuation
     (reason code); explained + listed open in known_findings.json + verdict reproduced by the faithful
     model => KNOWN-FINDING, anything else => VIOLATION."""
import ast
import itertools
import json
import math
import time
from fractions import Fraction

from vlib import core

PROP = "C17"
BASE = ["n", "m", "i", "j", "k", "lambda"]
# names that sympy's parser / Python would resolve by themselves if SymPyWriter's type map (or its renaming of
# reserved words) missed them: sympy globals (constants, singletons, functions) and Python keywords, plus names
# that collide with the renamed ones
SPECIAL = ["pi", "oo", "nan", "zoo", "E", "S", "Q", "O", "beta", "gamma", "zeta", "sqrt", "sign", "lambda_1",
           "in", "is", "not", "if", "for", "def", "pass", "sympy_lower"]
SCALARS = BASE + SPECIAL
ARRAYS = {"a": 1, "b": 2, "idx": 1, "re": 1, "binomial": 2, "while": 1}
REASON_KEY = {"div": "sympywriter/int-division-as-rational", "mod": "sympywriter/mod-sign",
              "pow-assoc": "sympywriter/pow-left-assoc", "pow-exp": "sympywriter/pow-negative-exponent"}
FEATURE_CODE = {"div": 0, "mod": 1, "pow-exp": 2, "pow-assoc": 3, "neg-lit": 4}
MAXEXP = 40


class OutOfSubset(Exception):
    pass


# ------------------------------------------------------------------------------------- expression AST
def lit(k): return ("lit", k)
def var(x): return ("var", x)
def neg(a): return ("neg", a)
def bop(o, a, b): return ("bin", o, a, b)
def call(f, args): return ("call", f, tuple(args))
def arr(name, idx): return ("call", ("arr", name), tuple(idx))


def is_pow(e): return e[0] == "bin" and e[1] == "**"
def nonneg_lit(e): return e[0] == "lit" and e[1] >= 0


def children(e):
    if e[0] == "neg":
        return [e[1]]
    if e[0] == "bin":
        return [e[2], e[3]]
    if e[0] == "call":
        return list(e[2])
    return []


def subexprs(e):
    for c in children(e):
        yield from subexprs(c)
    yield e


def variables(e):
    return sorted({x[1] for x in subexprs(e) if x[0] == "var"})


def size(e):
    return sum(1 for _ in subexprs(e))


def show(e):
    """Fortran text (fully bracketed where it matters) -- for replay files only."""
    t = e[0]
    if t == "lit":
        return str(e[1])
    if t == "var":
        return e[1]
    if t == "neg":
        return "(-%s)" % show(e[1])
    if t == "bin":
        return "(%s %s %s)" % (show(e[2]), e[1], show(e[3]))
    f = e[1]
    name = f if isinstance(f, str) else f[1]
    return "%s(%s)" % (name, ", ".join(show(a) for a in e[2]))


# ----------------------------------------------------------------- Fortran semantics (mirror of feval)
def std_arr(salt, name, zs):
    h = salt + (ord(name[0]) if name else 0)
    for z in zs:
        h = (h * 5 + z + 2) % 11
    return h % 7 - 3


def tquot(a, b):
    q = abs(a) // abs(b)
    return q if (a >= 0) == (b >= 0) else -q


def trem(a, b):
    return a - b * tquot(a, b)


def fpow(a, b):
    if b >= 0:
        if b > MAXEXP and abs(a) > 1:
            raise OverflowError
        return a ** b
    if a == 0:
        return None
    if a == 1:
        return 1
    if a == -1:
        return 1 if b % 2 == 0 else -1
    return 0


def feval(e, env):
    """env = (dict var -> int, salt).  None = division by zero etc."""
    t = e[0]
    if t == "lit":
        return e[1]
    if t == "var":
        return env[0].get(e[1], 0)
    if t == "neg":
        v = feval(e[1], env)
        return None if v is None else -v
    if t == "bin":
        x, y = feval(e[2], env), feval(e[3], env)
        if x is None or y is None:
            return None
        o = e[1]
        if o == "+":
            return x + y
        if o == "-":
            return x - y
        if o == "*":
            return x * y
        if o == "/":
            return None if y == 0 else tquot(x, y)
        return fpow(x, y)
    zs = [feval(a, env) for a in e[2]]
    if any(z is None for z in zs):
        return None
    f = e[1]
    if f == "MIN":
        return min(zs) if zs else None
    if f == "MAX":
        return max(zs) if zs else None
    if f == "MOD":
        if len(zs) != 2 or zs[1] == 0:
            return None
        return trem(zs[0], zs[1])
    return std_arr(env[1], f[1], zs)


# ---------------------------------------------------------------- SymPyWriter + parse_expr (mirror of tr)
def wrap(s, acc):
    return s if acc is None else ("bin", "**", s, acc)


def trx(fixed, e, acc=None):
    t = e[0]
    if t == "lit":
        return wrap(("int", e[1]), acc)
    if t == "var":
        return wrap(("var", e[1]), acc)
    if t == "neg":
        return wrap(("neg", trx(fixed, e[1])), acc)
    if t == "bin":
        if e[1] == "**" and not fixed:
            return trx(fixed, e[2], wrap(trx(fixed, e[3]), acc))
        return wrap(("bin", e[1], trx(fixed, e[2]), trx(fixed, e[3])), acc)
    f = e[1]
    args = [trx(fixed, a) for a in e[2]]
    if isinstance(f, tuple):
        out = []
        for a in args:
            out += [a, a, ("int", 1)]
        return wrap(("call", ("fun", f[1]), tuple(out)), acc)
    return wrap(("call", {"MIN": "Min", "MAX": "Max", "MOD": "Mod"}[f], tuple(args)), acc)


def tr(fixed, e):
    return trx(fixed, e, None)


class NonIntExp(Exception):
    pass


def seval(s, qenv):
    """sympy semantics over Q (mirror of Model.seval).  qenv = (dict var -> Fraction, salt)."""
    t = s[0]
    if t == "int":
        return Fraction(s[1])
    if t == "var":
        return Fraction(qenv[0].get(s[1], 0))
    if t == "neg":
        v = seval(s[1], qenv)
        return None if v is None else -v
    if t == "bin":
        x, y = seval(s[2], qenv), seval(s[3], qenv)
        if x is None or y is None:
            return None
        o = s[1]
        if o == "+":
            return x + y
        if o == "-":
            return x - y
        if o == "*":
            return x * y
        if o == "/":
            return None if y == 0 else x / y
        if y.denominator != 1:
            raise NonIntExp
        k = y.numerator
        if abs(k) > MAXEXP and abs(x) != 1 and x != 0:
            raise OverflowError
        if k >= 0:
            return x ** k
        return None if x == 0 else 1 / (x ** (-k))
    qs = [seval(a, qenv) for a in s[2]]
    if any(q is None for q in qs):
        return None
    f = s[1]
    if f == "Min":
        return min(qs) if qs else None
    if f == "Max":
        return max(qs) if qs else None
    if f == "Mod":
        if len(qs) != 2 or qs[1] == 0:
            return None
        return qs[0] - qs[1] * math.floor(qs[0] / qs[1])
    return Fraction(std_arr(qenv[1], f[1], [math.floor(q) for q in qs][0::3]))


def qenv_of(env):
    return ({x: Fraction(v) for x, v in env[0].items()}, env[1])


def in_frag(fixed, e):
    t = e[0]
    if t == "lit":
        return e[1] >= 0
    if t == "var":
        return True
    if t == "neg":
        return in_frag(fixed, e[1])
    if t == "bin":
        o = e[1]
        if o in "+-*":
            return in_frag(fixed, e[2]) and in_frag(fixed, e[3])
        if o == "/":
            return False
        return in_frag(fixed, e[2]) and nonneg_lit(e[3]) and (fixed or not is_pow(e[2]))
    f = e[1]
    if f == "MOD":
        return False
    if f in ("MIN", "MAX"):
        return len(e[2]) > 0 and all(in_frag(fixed, a) for a in e[2])
    return all(in_frag(fixed, a) for a in e[2])


def features(fixed, e):
    t = e[0]
    if t == "lit":
        return [] if e[1] >= 0 else [4]
    if t == "var":
        return []
    if t == "neg":
        return features(fixed, e[1])
    if t == "bin":
        own = []
        if e[1] == "/":
            own = [0]
        elif e[1] == "**":
            own = ([] if nonneg_lit(e[3]) else [2]) + ([] if (fixed or not is_pow(e[2])) else [3])
        return own + features(fixed, e[2]) + features(fixed, e[3])
    out = [1] if e[1] == "MOD" else []
    for a in e[2]:
        out += features(fixed, a)
    return out


def is_polynomial(e):
    """no call, no '/', exponents are constant expressions: the domain of the Coq normaliser `norm`"""
    for x in subexprs(e):
        if x[0] == "call" or (x[0] == "bin" and x[1] == "/"):
            return False
        if x[0] == "bin" and x[1] == "**" and variables(x[3]):
            return False
    return True


def culprit(fixed, e, env):
    """First node (post-order) at which the sympy value of the translation leaves the Fortran value although
    it agrees on all children: the operator that explains a wrong verdict at this valuation."""
    qenv = qenv_of(env)

    def agree(x):
        try:
            fv = feval(x, env)
            if fv is None:
                return True           # Fortran undefined here: nothing to explain
            sv = seval(tr(fixed, x), qenv)
        except (NonIntExp, OverflowError):
            return False
        return sv is not None and sv == fv

    for x in subexprs(e):
        if agree(x) or not all(agree(c) for c in children(x)):
            continue
        if x[0] == "bin" and x[1] == "/":
            return "div"
        if x[0] == "call" and x[1] == "MOD":
            return "mod"
        if x[0] == "bin" and x[1] == "**":
            if not nonneg_lit(x[3]):
                return "pow-exp"
            if is_pow(x[2]) and not fixed:
                return "pow-assoc"
        return "other:" + show(x)
    return None


# ------------------------------------------------------------------------------------ Coq term printers
def cz(n):
    return "(%d)%%Z" % n


def cstr(s):
    return '"%s"%%string' % s


def coq_expr(e):
    t = e[0]
    if t == "lit":
        return "(ELit %s)" % cz(e[1])
    if t == "var":
        return "(EVar %s)" % cstr(e[1])
    if t == "neg":
        return "(ENeg %s)" % coq_expr(e[1])
    if t == "bin":
        return "(EBin %s %s %s)" % ({"+": "Add", "-": "Sub", "*": "Mul", "/": "Div", "**": "Pow"}[e[1]],
                                    coq_expr(e[2]), coq_expr(e[3]))
    f = e[1]
    fn = {"MIN": "FMin", "MAX": "FMax", "MOD": "FMod"}[f] if isinstance(f, str) else "(FArr %s)" % cstr(f[1])
    return "(ECall %s %s)" % (fn, core.coq_list(coq_expr(a) for a in e[2]))


def coq_sexpr(s):
    t = s[0]
    if t == "int":
        return "(SInt %s)" % cz(s[1])
    if t == "var":
        return "(SVar %s)" % cstr(s[1])
    if t == "neg":
        return "(SNeg %s)" % coq_sexpr(s[1])
    if t == "bin":
        return "(SBin %s %s %s)" % ({"+": "Add", "-": "Sub", "*": "Mul", "/": "Div", "**": "Pow"}[s[1]],
                                    coq_sexpr(s[2]), coq_sexpr(s[3]))
    f = s[1]
    fn = {"Min": "SMin", "Max": "SMax", "Mod": "SMod"}[f] if isinstance(f, str) else "(SFun %s)" % cstr(f[1])
    return "(SCall %s %s)" % (fn, core.coq_list(coq_sexpr(a) for a in s[2]))


def coq_q(q):
    return "(Qmake %s %d%%positive)" % (cz(q.numerator), q.denominator)


def coq_opt(v, pr):
    return "None" if v is None else "(Some %s)" % pr(v)


def coq_bool(b):
    return "true" if b else "false"


# ----------------------------------------------------------------------------------- implementation side
class Impl:
    """Drives the real PSyclone code (imported from the tree under test)."""

    def __init__(self):
        from psyclone.core import SymbolicMaths
        from psyclone.psyir.backend.sympy_writer import SymPyWriter
        from psyclone.psyir.backend.visitor import VisitorError
        from psyclone.psyir import nodes, symbols
        import sympy
        self.sm = SymbolicMaths.get()
        self.SymPyWriter = SymPyWriter
        self.VisitorError = VisitorError
        self.n = nodes
        self.s = symbols
        self.sympy = sympy
        self.BO = nodes.BinaryOperation.Operator
        self.ops = {"+": self.BO.ADD, "-": self.BO.SUB, "*": self.BO.MUL, "/": self.BO.DIV, "**": self.BO.POW}
        self.rops = {v: k for k, v in self.ops.items()}
        I = nodes.IntrinsicCall.Intrinsic
        self.intr = {"MIN": I.MIN, "MAX": I.MAX, "MOD": I.MOD}
        self.rintr = {v: k for k, v in self.intr.items()}
        self.table = symbols.SymbolTable()
        self.sym = {}
        for x in SCALARS + ["xres"]:
            self.sym[x] = symbols.DataSymbol(x, symbols.INTEGER_TYPE)
            self.table.add(self.sym[x])
        for x, rank in ARRAYS.items():
            self.sym[x] = symbols.DataSymbol(x, symbols.ArrayType(symbols.INTEGER_TYPE, [10] * rank))
            self.table.add(self.sym[x])
        self.routine = nodes.Routine.create("c17", self.table, [])

    # -- my AST -> PSyIR
    def psyir(self, e):
        n, t = self.n, e[0]
        if t == "lit":
            if e[1] < 0:
                raise OutOfSubset("negative literal")
            return n.Literal(str(e[1]), self.s.INTEGER_TYPE)
        if t == "var":
            return n.Reference(self.sym[e[1]])
        if t == "neg":
            return n.UnaryOperation.create(n.UnaryOperation.Operator.MINUS, self.psyir(e[1]))
        if t == "bin":
            return n.BinaryOperation.create(self.ops[e[1]], self.psyir(e[2]), self.psyir(e[3]))
        f = e[1]
        args = [self.psyir(a) for a in e[2]]
        if isinstance(f, tuple):
            return n.ArrayReference.create(self.sym[f[1]], args)
        return n.IntrinsicCall.create(self.intr[f], args)

    # -- PSyIR -> my AST (fail-closed)
    def unpsyir(self, node):
        n = self.n
        if isinstance(node, n.Literal):
            if node.datatype.intrinsic != self.s.ScalarType.Intrinsic.INTEGER:
                raise OutOfSubset("non-integer literal " + node.value)
            return lit(int(node.value))
        if isinstance(node, n.ArrayReference):
            return arr(node.name, [self.unpsyir(c) for c in node.indices])
        if type(node) is n.Reference:      # pylint: disable=unidiomatic-typecheck
            return var(node.name)
        if isinstance(node, n.UnaryOperation):
            if node.operator == n.UnaryOperation.Operator.MINUS:
                return neg(self.unpsyir(node.children[0]))
            if node.operator == n.UnaryOperation.Operator.PLUS:
                return self.unpsyir(node.children[0])
            raise OutOfSubset(str(node.operator))
        if isinstance(node, n.BinaryOperation):
            if node.operator not in self.rops:
                raise OutOfSubset(str(node.operator))
            return bop(self.rops[node.operator], self.unpsyir(node.children[0]), self.unpsyir(node.children[1]))
        if isinstance(node, n.IntrinsicCall):
            if node.intrinsic not in self.rintr:
                raise OutOfSubset(str(node.intrinsic))
            return call(self.rintr[node.intrinsic], [self.unpsyir(c) for c in node.arguments])
        raise OutOfSubset(type(node).__name__)

    # -- API under test
    def verdicts(self, a, b):
        """(equal, never_equal); an exception is reported as the string 'exc:<type>'."""
        out = []
        for fn in (self.sm.equal, self.sm.never_equal):
            try:
                out.append(bool(fn(self.psyir(a), self.psyir(b))))
            except Exception as err:        # pylint: disable=broad-except
                out.append("exc:" + type(err).__name__)
        return tuple(out)

    def text(self, exprs):
        """The strings handed to parse_expr, and the map from names in the text to sympy names."""
        w = self.SymPyWriter()
        strs = w._to_str([self.psyir(e) for e in exprs])     # pylint: disable=protected-access
        names = {}
        for key, val in w.type_map.items():
            names[key] = str(val) if isinstance(val, self.sympy.Symbol) else val.__name__
        # an array whose name is reserved (or clashes) becomes a sympy function with the writer's UNIQUE name
        # (`while` -> while_1): still one distinct uninterpreted function per array.  Map it back to the array
        # through the writer's tag table (tag = Fortran name); two arrays can never share an entry.
        self.last_raw_type_map = sorted((key, not isinstance(val, self.sympy.Symbol), names[key])
                                        for key, val in w.type_map.items())
        tags = w._symbol_table.tags_dict                    # pylint: disable=protected-access
        for tag, sym in tags.items():
            if sym.name in names and not isinstance(w.type_map[sym.name], self.sympy.Symbol) and tag in ARRAYS:
                names[sym.name] = tag
        return strs, names

    def sympy_exprs(self, exprs):
        w = self.SymPyWriter()
        return w([self.psyir(e) for e in exprs]), w

    def solve(self, a, b, x):
        """'independent' | list of sympy solutions | 'exc:..' | 'nosym'."""
        try:
            (sa, sb), w = self.sympy_exprs([a, b])
            syms = [s for s in w.type_map.values() if str(s) == x and isinstance(s, self.sympy.Symbol)]
            if not syms:
                return "nosym", None
            res = self.sm.solve_equal_for(sa, sb, syms[0])
            if isinstance(res, str):
                return res, None
            return "set", sorted(res, key=str)
        except Exception as err:        # pylint: disable=broad-except
            return "exc:" + type(err).__name__, None

    def expand(self, e):
        """Returns (status, new expression as my AST or None, new PSyIR node)."""
        n = self.n
        asg = n.Assignment.create(n.Reference(self.sym["xres"]), self.psyir(e))
        self.routine.addchild(asg)
        try:
            self.sm.expand(asg.rhs)
            new = asg.rhs
            try:
                return "ok", self.unpsyir(new), new.copy()
            except OutOfSubset as err:
                return "out_of_subset:" + str(err), None, None
        except Exception as err:        # pylint: disable=broad-except
            return "exc:" + type(err).__name__, None, None
        finally:
            asg.detach()

    # -- sympy helpers
    def to_sympy(self, s):
        """my sexpr -> sympy object, built the way parse_expr evaluates the text (Python operators)."""
        sp, t = self.sympy, s[0]
        if t == "int":
            return sp.Integer(s[1])
        if t == "var":
            return sp.Symbol(s[1])
        if t == "neg":
            return -self.to_sympy(s[1])
        if t == "bin":
            x, y = self.to_sympy(s[2]), self.to_sympy(s[3])
            o = s[1]
            return x + y if o == "+" else x - y if o == "-" else x * y if o == "*" else x / y if o == "/" else x ** y
        args = [self.to_sympy(a) for a in s[2]]
        f = s[1]
        if f == "Min":
            return sp.Min(*args)
        if f == "Max":
            return sp.Max(*args)
        if f == "Mod":
            return sp.Mod(*args)
        return sp.Function(f[1])(*args)

    def sympy_value(self, expr, qenv):
        """Value of a real sympy expression under a rational valuation (functions = std_arr), or None."""
        sp = self.sympy
        from sympy.core.function import AppliedUndef
        sub = {s: sp.Rational(qenv[0].get(str(s), Fraction(0)).numerator, qenv[0].get(str(s), Fraction(0)).denominator)
               for s in expr.free_symbols}
        def ev(x):
            if not x.args:
                return x
            args = [ev(a) for a in x.args]
            if isinstance(x, AppliedUndef):
                fl = [sp.floor(a) for a in args]
                if not all(a.is_Integer for a in fl):
                    raise ValueError("non-numeric array index")
                return sp.Integer(std_arr(qenv[1], type(x).__name__, [int(a) for a in fl][0::3]))
            return x.func(*args)
        try:
            val = ev(expr.subs(sub, simultaneous=True))
        except (ZeroDivisionError, ValueError):
            return None
        if val.is_Rational:
            return Fraction(int(val.p), int(val.q))
        return None        # zoo, nan, irrational, complex

    def oracle_const(self, s):
        """simplify(s) is the sympy Integer k  ->  k ; else None   (the model's oracle, real sympy)."""
        r = self.sympy.simplify(self.to_sympy(s))
        return int(r) if isinstance(r, self.sympy.core.numbers.Integer) else None


def parse_py(text, names):
    """Read the text as Python's grammar does (sympy's parse_expr ends in eval) -> my sexpr."""
    tree = ast.parse(text.strip(), mode="eval").body

    def go(t):
        if isinstance(t, ast.Constant) and isinstance(t.value, int):
            return ("int", t.value)
        if isinstance(t, ast.Name):
            # a name the type map does not bind is resolved by sympy's own namespace (pi, oo, E, ...): never the
            # free symbol the model requires -> reported as a mismatch
            return ("var", names[t.id] if t.id in names else "!unbound:" + t.id)
        if isinstance(t, ast.UnaryOp) and isinstance(t.op, ast.USub):
            return ("neg", go(t.operand))
        if isinstance(t, ast.UnaryOp) and isinstance(t.op, ast.UAdd):
            return go(t.operand)
        if isinstance(t, ast.BinOp):
            o = {ast.Add: "+", ast.Sub: "-", ast.Mult: "*", ast.Div: "/", ast.Pow: "**"}.get(type(t.op))
            if o is None:
                raise OutOfSubset("operator " + type(t.op).__name__)
            return ("bin", o, go(t.left), go(t.right))
        if isinstance(t, ast.Call) and isinstance(t.func, ast.Name) and not t.keywords:
            f = t.func.id
            args = tuple(go(a) for a in t.args)
            if f in ("Min", "Max", "Mod"):
                return ("call", f, args)
            return ("call", ("fun", names[f] if f in names else "!unbound:" + f), args)
        raise OutOfSubset("python syntax " + type(t).__name__)
    return go(tree)


def back(s):
    """The Fortran expression whose correct translation would be the sympy expression s (used by the
    search: if the writer maps e to s, then `equal(e, back(s))` is a candidate wrong verdict)."""
    t = s[0]
    if t == "int":
        return lit(s[1]) if s[1] >= 0 else neg(lit(-s[1]))
    if t == "var":
        if s[1] not in SCALARS:
            raise OutOfSubset("unknown variable " + s[1])
        return var(s[1])
    if t == "neg":
        return neg(back(s[1]))
    if t == "bin":
        return bop(s[1], back(s[2]), back(s[3]))
    f = s[1]
    if isinstance(f, str):
        return call({"Min": "MIN", "Max": "MAX", "Mod": "MOD"}[f], [back(a) for a in s[2]])
    if f[1] not in ARRAYS or len(s[2]) != 3 * ARRAYS[f[1]]:
        raise OutOfSubset("function " + str(f))
    return arr(f[1], [back(a) for a in s[2][0::3]])


# --------------------------------------------------------------------------------------------- generators
class Gen:
    def __init__(self, rng, thorough):
        self.r = rng
        self.thorough = thorough

    def leaf(self, profile):
        r = self.r
        if r.random() < 0.4:
            return lit(r.choice([0, 1, 2, 2, 3, 3, 4, 5, 7]))
        c = r.random()
        return var(r.choice(BASE[:5]) if c < 0.84 else r.choice(BASE) if c < 0.88 else r.choice(SPECIAL))

    def expr(self, depth, profile):
        """profile: 'poly' (+ - * ** literal), 'frag' (+ MIN/MAX, arrays, unary minus), 'full' (+ / MOD, any **)."""
        r = self.r
        if depth <= 0 or r.random() < 0.18:
            return self.leaf(profile)
        kinds = ["+", "+", "-", "-", "*", "*", "powlit", "neg"]
        if profile in ("frag", "full"):
            kinds += ["minmax", "arr", "arr"]
        if profile == "full":
            kinds += ["/", "/", "/", "mod", "mod", "pow"]
        k = r.choice(kinds)
        if k in "+-*":
            return bop(k, self.expr(depth - 1, profile), self.expr(depth - 1, profile))
        if k == "/":
            d = lit(r.choice([2, 2, 3, 4])) if r.random() < 0.7 else self.expr(depth - 2, profile)
            return bop("/", self.expr(depth - 1, profile), d)
        if k == "powlit":
            base = self.expr(depth - 1, profile)
            if r.random() < 0.25:           # a power whose base is a power
                base = bop("**", self.expr(depth - 2, profile), lit(r.choice([2, 3])))
            return bop("**", base, lit(r.choice([0, 1, 2, 2, 2, 3])))
        if k == "pow":
            ex = r.choice([neg(lit(1)), neg(lit(2)), var(r.choice(BASE[:3])), neg(var("n")),
                           bop("-", var("n"), lit(1)), bop("**", lit(2), lit(r.choice([2, 3])))])
            return bop("**", self.expr(depth - 2, profile) if r.random() < 0.5 else lit(r.choice([2, 3])), ex)
        if k == "neg":
            return neg(self.expr(depth - 1, profile))
        if k == "minmax":
            n = 2 if r.random() < 0.8 else 3
            return call(r.choice(["MIN", "MAX"]), [self.expr(depth - 1, profile) for _ in range(n)])
        if k == "mod":
            d = lit(r.choice([2, 3, 4])) if r.random() < 0.6 else (neg(lit(2)) if r.random() < 0.4
                                                                    else self.expr(depth - 2, profile))
            num = self.expr(depth - 1, profile)
            if r.random() < 0.3:
                num = neg(lit(r.choice([1, 3, 5, 7])))
            return call("MOD", [num, d])
        name = r.choice(list(ARRAYS))
        return arr(name, [self.expr(depth - 2, profile) for _ in range(ARRAYS[name])])

    # --- rewrites that sympy regards as equal (some are not equal in Fortran: that is the point)
    def same(self, e, depth=2):
        r = self.r
        t = e[0]
        choice = r.random()
        if t == "bin" and e[1] in "+*" and choice < 0.35:
            return bop(e[1], self.same(e[3], depth - 1) if depth > 0 else e[3], e[2])
        if t == "bin" and e[1] == "*" and e[3][0] == "bin" and e[3][1] in "+-" and choice < 0.8:
            return bop(e[3][1], bop("*", e[2], e[3][2]), bop("*", e[2], e[3][3]))
        if t == "bin" and e[1] == "*" and e[2][0] == "bin" and e[2][1] in "+-" and choice < 0.8:
            return bop(e[2][1], bop("*", e[2][2], e[3]), bop("*", e[2][3], e[3]))
        if t == "bin" and e[1] == "-" and choice < 0.5:
            return bop("+", e[2], neg(e[3]))
        if t == "bin" and e[1] == "**" and e[3] == lit(2) and choice < 0.7:
            return bop("*", e[2], e[2])
        if t == "neg" and choice < 0.5:
            return bop("*", neg(lit(1)), e[1])
        if t == "call" and e[1] in ("MIN", "MAX") and choice < 0.6:
            return call(e[1], list(reversed(e[2])))
        if t == "call" and isinstance(e[1], tuple) and choice < 0.7:
            return arr(e[1][1], [self.same(a, depth - 1) for a in e[2]])
        if t == "call" and e[1] == "MOD" and e[2][1][0] == "lit" and choice < 0.6:
            return call("MOD", [bop("+", e[2][0], e[2][1]), e[2][1]])
        if t in ("bin", "neg") and depth > 0 and choice < 0.9:
            cs = children(e)
            i = r.randrange(len(cs))
            cs[i] = self.same(cs[i], depth - 1)
            return neg(cs[0]) if t == "neg" else bop(e[1], cs[0], cs[1])
        k = r.choice([2, 2, 3, 4])
        pick = r.random()
        if pick < 0.22:
            return bop("*", bop("/", e, lit(k)), lit(k))          # e/k*k
        if pick < 0.34:
            return bop("/", bop("*", e, lit(k)), lit(k))          # e*k/k   (also equal in Fortran)
        if pick < 0.44:
            return bop("+", bop("/", e, lit(2)), bop("/", e, lit(2)))
        if pick < 0.60:
            z = var(r.choice(BASE[:3]))
            return bop("-", bop("+", e, z), z)
        if pick < 0.72:
            return bop("*", e, lit(1))
        if pick < 0.80:
            return bop("*", e, call("MOD", [neg(lit(r.choice([3, 5, 7]))), lit(2)]))   # Mod(-7,2)=1 for sympy
        if pick < 0.88:
            return bop("*", bop("**", lit(2), var("k")), bop("*", e, bop("**", lit(2), neg(var("k")))))
        return bop("+", e, lit(0))

    # --- a near miss: one leaf / operator changed (should NOT be declared equal)
    def near(self, e):
        r = self.r
        t = e[0]
        if t == "lit":
            return lit(e[1] + r.choice([1, 2]))
        if t == "var":
            return var(r.choice([x for x in BASE[:5] if x != e[1]]))
        if t == "neg":
            return e[1] if r.random() < 0.3 else neg(self.near(e[1]))
        if t == "bin":
            c = r.random()
            if c < 0.25 and e[1] in ("-", "/", "**"):
                return bop(e[1], e[3], e[2])
            if c < 0.4:
                return bop(r.choice([o for o in "+-*" if o != e[1]]), e[2], e[3])
            if c < 0.7:
                return bop(e[1], self.near(e[2]), e[3])
            return bop(e[1], e[2], self.near(e[3]))
        f = e[1]
        c = r.random()
        if f in ("MIN", "MAX") and c < 0.5:
            return call("MAX" if f == "MIN" else "MIN", e[2])
        if f == "MOD" and c < 0.4:
            return call("MOD", [e[2][1], e[2][0]])
        if isinstance(f, tuple) and c < 0.3:
            other = [x for x in ARRAYS if ARRAYS[x] == ARRAYS[f[1]] and x != f[1]]
            if other:
                return arr(other[0], e[2])
        if isinstance(f, tuple) and len(e[2]) == 2 and c < 0.5:
            return arr(f[1], [e[2][1], e[2][0]])
        args = list(e[2])
        i = r.randrange(len(args))
        args[i] = self.near(args[i])
        return ("call", f, tuple(args))

    def callfirst(self):
        """A special name occurring ONLY as the first operand of an operation nested in a call (possibly a nested
        call / array index), compared with what sympy's own binding of that name would make of it."""
        r = self.r
        x = var(r.choice(SPECIAL))
        c, d = r.choice([1, 2, 3, 4]), r.choice([0, 1, 2])
        inner = bop(r.choice("+-"), x, lit(c))
        other = r.choice([lit(d), bop("+", var("i"), lit(d)), var("n")])
        f = r.choice(["MIN", "MAX", "MAX"])
        a = call(f, [inner, other] if r.random() < 0.7 else [other, inner])
        shape = r.random()
        if shape < 0.15:
            a = call(r.choice(["MIN", "MAX"]), [a, var("m")])
        elif shape < 0.3:
            a = arr("a", [a])
        elif shape < 0.4:
            a = bop("+", a, var("j"))
        elif shape < 0.5:
            a = call("MOD", [inner, lit(r.choice([2, 3]))])
        b = r.choice([other, bop("+", other, lit(1)), lit(d), lit(d + 1), lit(c), self.same(a), self.near(a)])
        return "callfirst", a, b

    def pair(self):
        """(kind, a, b)"""
        r = self.r
        if r.random() < 0.12:
            return self.callfirst()
        profile = r.choice(["poly", "frag", "frag", "full", "full"])
        a = self.expr(r.choice([2, 3, 3, 4] if self.thorough else [2, 2, 3, 3]), profile)
        c = r.random()
        if c < 0.42:
            b = self.same(a)
            if r.random() < 0.4:
                b = self.same(b)
            return "same:" + profile, a, b
        if c < 0.62:
            k = r.choice([1, 1, 2, 3, 5])
            b = self.same(a) if r.random() < 0.7 else a
            return "offset:" + profile, a, bop(r.choice("+-"), b, lit(k))
        if c < 0.88:
            return "near:" + profile, a, self.near(a)
        return "random:" + profile, a, self.expr(2, profile)


TARGETED = [
    # (a, b) pairs that every run includes (shapes of the known findings and their safe neighbours)
    (bop("*", bop("/", var("n"), lit(2)), lit(2)), var("n")),
    (call("MOD", [neg(lit(7)), lit(2)]), lit(1)),
    (call("MOD", [neg(lit(7)), lit(2)]), neg(lit(1))),
    (bop("**", bop("**", var("n"), lit(2)), lit(3)), bop("**", var("n"), bop("**", lit(2), lit(3)))),
    (bop("**", bop("**", var("n"), lit(2)), lit(3)), bop("**", var("n"), lit(6))),
    (bop("*", bop("**", lit(2), var("n")), bop("**", lit(2), neg(var("n")))), lit(1)),
    (bop("+", bop("*", bop("/", var("n"), lit(2)), lit(2)), lit(1)), var("n")),
    (call("MOD", [var("n"), lit(2)]), call("MOD", [bop("+", var("n"), lit(2)), lit(2)])),
    (bop("*", bop("+", var("n"), var("m")), bop("-", var("n"), var("m"))),
     bop("-", bop("*", var("n"), var("n")), bop("*", var("m"), var("m")))),
    (call("MAX", [var("n"), var("m")]), call("MAX", [var("m"), var("n")])),
    (call("MAX", [var("n"), var("m")]), call("MIN", [var("m"), var("n")])),
    (arr("b", [var("i"), bop("+", var("j"), lit(1))]), arr("b", [var("i"), bop("+", lit(1), var("j"))])),
    (arr("b", [var("i"), var("j")]), arr("b", [var("j"), var("i")])),
    (arr("a", [bop("*", bop("/", var("n"), lit(2)), lit(2))]), arr("a", [var("n")])),
    (arr("idx", [arr("idx", [var("m")])]), arr("idx", [arr("idx", [bop("+", var("m"), lit(0))])])),
    (bop("+", var("lambda"), lit(1)), bop("+", lit(1), var("lambda"))),
    (bop("-", var("n"), lit(1)), var("n")),
    (neg(bop("*", var("n"), var("m"))), bop("*", neg(var("n")), var("m"))),
    (bop("**", neg(var("n")), lit(2)), bop("**", var("n"), lit(2))),
    (neg(bop("**", var("n"), lit(2))), bop("**", var("n"), lit(2))),
]
for _x in ("pi", "oo", "E", "lambda", "in", "gamma"):
    TARGETED += [
        (call("MAX", [bop("-", var(_x), lit(3)), lit(1)]), lit(1)),
        (call("MAX", [bop("-", var(_x), lit(3)), lit(1)]), lit(2)),
        (call("MIN", [bop("+", var(_x), var("i")), bop("+", lit(4), var("i"))]), bop("+", var("i"), lit(3))),
        (call("MIN", [bop("-", var(_x), lit(4)), lit(0)]), lit(0)),
        (arr("a", [call("MAX", [bop("+", var(_x), lit(1)), lit(2)])]), arr("a", [lit(2)])),
        (bop("+", var(_x), lit(1)), bop("+", lit(1), var(_x))),
    ]
TARGETED += [
    (arr("re", [bop("+", var("i"), lit(1))]), arr("re", [bop("+", lit(1), var("i"))])),
    (arr("binomial", [var("i"), var("j")]), arr("binomial", [var("j"), var("i")])),
    (arr("while", [var("pi")]), arr("while", [bop("+", var("pi"), lit(0))])),
    (bop("+", var("lambda"), var("lambda_1")), bop("*", lit(2), var("lambda"))),
    (bop("-", var("sympy_lower"), var("n")), neg(bop("-", var("n"), var("sympy_lower")))),
]
TARGETED_SOLVE = [
    (call("MAX", [bop("-", var("pi"), lit(3)), var("i")]), lit(1), "i"),
    (bop("+", var("i"), call("MIN", [bop("-", var("E"), lit(4)), lit(0)])), var("n"), "i"),
    (bop("*", bop("/", var("i"), lit(2)), lit(2)), lit(3), "i"),
    (bop("*", call("MOD", [neg(lit(7)), lit(2)]), var("i")), lit(3), "i"),
    (bop("*", var("i"), var("i")), lit(4), "i"),
    (bop("*", lit(2), var("i")), var("n"), "i"),
    (bop("+", var("i"), var("k")), var("j"), "k"),
    (arr("a", [var("i")]), arr("a", [var("j")]), "i"),
    (bop("**", bop("**", var("i"), lit(2)), lit(1)), lit(9), "i"),
]
TARGETED_EXPAND = [
    bop("*", bop("+", var("i"), lit(1)), call("MAX", [bop("-", var("pi"), lit(3)), lit(1)])),
    bop("*", bop("+", var("i"), lit(1)), call("MIN", [bop("-", var("oo"), lit(3)), lit(1)])),
    bop("*", bop("+", var("pi"), lit(1)), bop("-", var("in"), lit(2))),
    bop("*", bop("/", bop("+", var("n"), lit(1)), lit(2)), lit(2)),
    bop("*", call("MOD", [neg(lit(7)), lit(2)]), bop("+", var("n"), lit(1))),
    bop("*", bop("**", bop("**", var("n"), lit(2)), lit(3)), bop("+", var("n"), lit(1))),
    bop("*", bop("+", var("n"), var("m")), bop("-", var("n"), var("m"))),
    bop("*", arr("a", [bop("+", var("i"), lit(1))]), bop("+", var("n"), var("m"))),
    bop("*", call("MAX", [var("n"), var("m")]), bop("+", var("n"), lit(1))),
    bop("*", neg(bop("+", var("n"), var("m"))), lit(3)),
    bop("*", var("n"), bop("**", bop("-", var("m"), lit(2)), lit(3))),
]


def grid(vars_, rng, limit):
    """Deterministic grid of integer valuations (negatives, zero, small positives) + random ones."""
    vals = [-3, -2, -1, 0, 1, 2, 3, 4, 5, 7]
    envs = []
    if len(vars_) <= 2:
        for combo in itertools.product(vals, repeat=len(vars_)):
            envs.append(dict(zip(vars_, combo)))
    else:
        for v in (-2, -1, 0, 1, 2, 3):
            envs.append({x: v for x in vars_})
        for _ in range(limit):
            envs.append({x: rng.choice(vals + [-7, 5, 9]) for x in vars_})
    out = []
    for k, env in enumerate(envs[:limit + 110]):
        out.append((env, k % 3))
    return out


# ------------------------------------------------------------------------------------------------ the run
def run(ctx):
    ctx.cov["rule"] = (
        "pairs (a,b) of integer expressions over + - * / ** unary-minus MOD MIN MAX and array accesses (depth<=4, "
        "variables n m i j k lambda, arrays a(:) b(:,:) idx(:)): b = rewrite of a that sympy regards as equal "
        "(commute, distribute, e/k*k, e*k/k, e+z-z, MOD(-c,2) factors, 2**k*2**(-k), x**2 -> x*x, MOD(e+c,c)), "
        "constant offsets (never_equal), near misses (one leaf/operator/index changed), unrelated pairs; plus "
        "solve_equal_for triples and expand inputs.  non-trivial = the implementation answered equal / never-equal "
        "/ returned a finite solution set / changed the expression; distinct = canonical (kind,a,b).  Each "
        "non-trivial verdict is evaluated under Fortran semantics on a grid of integer valuations "
        "(values -3..4 (+ -7,5,9), 3 array contents).")
    ctx.cov["trusted_base"] = core.BASE_TRUST + [
        "model coq/C17/Model.v is hand-written; tied on every run to SymPyWriter (text read by Python's `ast`, and "
        "values of the real sympy objects at rational points) and to SymbolicMaths (verdicts of the faithful model "
        "run with the real sympy as oracle)",
        "Fortran integer semantics (truncating /, MOD with the sign of the dividend, ** with negative exponent = "
        "truncated reciprocal, MIN/MAX) is my formalisation of F2008 7.1.5.2 / 13.7; not validated against gfortran here",
        "sympy 1.14 simplify/solveset/expand are oracles: explicit premises simplify_sound / solveset_sound / "
        "expand_sound / reader_faithful of the *_partial theorems (validated by testing only); the polynomial "
        "fragment needs no premise (poly_const, proved sound)",
        "Python's `ast` module as the reader of the SymPyWriter text (sympy.parse_expr tokenises and then eval()s it)",
    ]
    ctx.assumptions = [
        "simplify_sound: if sympy.simplify answers the Integer k then the expression has value k under every integer "
        "valuation at which it is defined (rational /, Mod with sign of divisor, Min/Max, functions uninterpreted)",
        "solveset_sound: every element of a FiniteSet answer, when it denotes an integer, makes the equation hold",
        "expand_sound: sympy.expand keeps the value wherever the input is defined",
        "reader_faithful: the expression read back by SymPyReader/FortranReader, written for sympy again, has the "
        "value of the printed sympy expression (checked per case by evaluation)",
        "expressions are integer-typed; literals are non-negative (as the Fortran frontend produces them)",
    ]
    # ---- T: translator, then the proofs
    broken = []          # things that no longer check, reported with no_input=True unless an input is found
    try:
        fixed = load_translate().generate()
    except Exception as err:        # pylint: disable=broad-except
        broken.append({"broken": "translator props/C17/translate.py (writer output for (n**2)**3 not recognised)",
                       "error": str(err)})
        core.write_if_changed(core.COQ / "C17" / "Gen.v", "Definition pow_left_bracketed : bool := false.\n")
        fixed = False
    ctx.notes["pow_left_bracketed"] = fixed
    ok, rep = ctx.prove()
    ctx.log("proof ok=%s discharged=%d/%d pow_left_bracketed=%s" % (ok, ctx.cov["discharged"], ctx.cov["obligations"], fixed))
    if not ok:
        broken.append({"broken": "proof obligations of Properties/C17.v", "proof_report": rep})

    impl = Impl()
    rng = ctx.rng("gen")
    gen = Gen(rng, ctx.thorough)
    concrete = []        # concrete failures that are violations (dicts)
    st = {"c1": [], "c2": [], "c3": [], "c4": [], "c6": [], "seen_c6": set(), "seen_c1": set(), "seen_c2": set(), "seen_c3": set()}

    def limited(fn, *args):
        with time_limit(ctx.pick(30, 60)):      # a time-out only drops the case (never a verdict)
            return fn(*args)

    def fsearch(a, b, want_equal, extra_vars=(), fix_env=None, limit=None):
        """valuations at which `a == b` (want_equal) resp. `a != b` fails under Fortran semantics."""
        vs = sorted(set(variables(a)) | set(variables(b)) | set(extra_vars))
        fails, evaluated = [], 0
        for env, salt in grid(vs, rng, limit or ctx.pick(40, 120)):
            if fix_env:
                env = dict(env, **fix_env)
            try:
                fa, fb = feval(a, (env, salt)), feval(b, (env, salt))
            except OverflowError:
                continue
            if fa is None or fb is None:
                continue
            evaluated += 1
            if (fa == fb) != want_equal:
                fails.append(((env, salt), fa, fb))
        return fails, evaluated

    def explain(site, a, b, fail, verdict, reproduced, extra=None):
        """A concrete failure of the property on the implementation: known finding or violation."""
        (env, salt), fa, fb = fail
        reasons = [r for r in (culprit(fixed, a, (env, salt)), culprit(fixed, b, (env, salt))) if r]
        replay = {"property": PROP, "site": "SymbolicMaths." + site, "a": show(a), "b": show(b), "verdict": verdict,
                  "valuation": env, "array_contents": "std_arr(salt=%d) of props/C17/check.py" % salt,
                  "fortran_value_a": fa, "fortran_value_b": fb,
                  "replay": "PSyIR of a and b (FortranReader, integer variables) -> SymbolicMaths.%s" % site}
        if extra:
            replay.update(extra)
        reason = reasons[0] if reasons else None
        ctx.hist("failures_by_reason", "%s/%s" % (site, reason))
        if reason in REASON_KEY and reproduced:
            what = "%s: %s vs %s answered %s but the Fortran values are %s and %s at %s" % (
                site, show(a), show(b), verdict, fa, fb, env)
            if ctx.finding(REASON_KEY[reason], what, replay):
                concrete.append(replay)
            return
        replay["why"] = ("verdict not reproduced by the faithful model (tr + real sympy)" if not reproduced else
                         "no operator of a or b explains the difference at this valuation (reason=%s): sympy's answer "
                         "or the translation is wrong inside the proved fragment" % reason)
        if len(concrete) < 4:
            ctx.violation(replay)
        concrete.append(replay)

    def add_corr(a, b):
        """queue the Coq correspondence cases for this pair"""
        try:
            strs, names = impl.text([a, b])
            if (a, b) not in st["seen_c6"] and len(st["c6"]) < ctx.pick(250, 2500):
                st["seen_c6"].add((a, b))
                st["c6"].append((a, b, impl.last_raw_type_map))
            for e, txt in zip((a, b), strs):
                if e not in st["seen_c1"] and len(st["c1"]) < ctx.pick(400, 5000):
                    st["seen_c1"].add(e)
                    st["c1"].append((e, txt, parse_py(txt, names)))
        except OutOfSubset as err:
            ctx.hist("text_out_of_subset", str(err)[:40])
        except Exception as err:        # pylint: disable=broad-except
            ctx.hist("text_exception", type(err).__name__)
        for e in (a, b):
            if e in st["seen_c2"] or len(st["c2"]) >= ctx.pick(300, 4000) or size(e) > 14:
                continue
            st["seen_c2"].add(e)
            vs = variables(e)
            try:
                (se,), _ = impl.sympy_exprs([e])
            except Exception as err:        # pylint: disable=broad-except
                ctx.hist("sympy_exception", type(err).__name__)
                continue
            for k in range(3):
                pool = [-3, -2, -1, 0, 1, 2, 3, 5] if k == 0 else \
                    [Fraction(-5, 2), Fraction(-1, 2), Fraction(1, 3), Fraction(3, 2), -2, 0, 1, 4, Fraction(7, 3)]
                qenv = ({x: Fraction(rng.choice(pool)) for x in vs}, k)
                try:
                    mine = seval(tr(fixed, e), qenv)
                except (NonIntExp, OverflowError):
                    ctx.hist("c2_skipped", "non-integer or huge exponent")
                    continue
                if mine is None:
                    # undefined in the model (a zero divisor): sympy's automatic evaluation may have removed the
                    # singularity (n/n -> 1); the theorems only speak about valuations where the value is defined
                    ctx.hist("c2_skipped", "model value undefined at this valuation")
                    continue
                try:
                    real = limited(impl.sympy_value, se, qenv)
                except Exception as err:        # pylint: disable=broad-except
                    ctx.hist("sympy_value_exception", type(err).__name__)
                    continue
                st["c2"].append((e, qenv, real, mine))
            if e not in st["seen_c3"] and len(st["c3"]) < ctx.pick(150, 2500):
                st["seen_c3"].add(e)
                env = ({x: rng.choice([-4, -3, -2, -1, 0, 1, 2, 3, 6]) for x in vs}, rng.randrange(4))
                try:
                    st["c3"].append((e, env, feval(e, env), in_frag(fixed, e), features(fixed, e)))
                except OverflowError:
                    pass

    # ---------------------------------------------------------------- equal / never_equal
    def check_pair(kind, a, b):
        try:
            eq, ne = limited(impl.verdicts, a, b)
        except TimeoutError:
            ctx.hist("verdict", "timeout")
            return
        except OutOfSubset:
            return
        ctx.hist("pair_kind", kind)
        ctx.hist("verdict", "equal" if eq is True else "never_equal" if ne is True else
                 "undecided" if (eq is False and ne is False) else "exception")
        ctx.hist("in_fragment", in_frag(fixed, a) and in_frag(fixed, b))
        for f in sorted(set(features(fixed, a) + features(fixed, b))):
            ctx.hist("unsafe_feature", [k for k, v in FEATURE_CODE.items() if v == f][0])
        ctx.count((kind.split(":")[0], a, b), eq is True or ne is True)
        if eq is True or ne is True:
            try:
                k = limited(impl.oracle_const, ("bin", "-", tr(fixed, a), tr(fixed, b)))
                meq, mne = (k == 0), (k is not None and k != 0)
            except Exception as err:        # pylint: disable=broad-except
                meq = mne = None              # unknown (time-out under load, ...): C5 is skipped for this pair
                ctx.hist("model_oracle_exception", type(err).__name__)
            for site, claimed, model in (("equal", eq is True, meq), ("never_equal", ne is True, mne)):
                if not claimed:
                    continue
                fails, evaluated = fsearch(a, b, site == "equal")
                ctx.hist("grid_points_evaluated", "total", evaluated)
                if model is None:
                    if fails:
                        explain(site, a, b, fails[0], True, True)
                elif not model:
                    ctx.cov["disagreements_checked"] += 1
                    if not fails:
                        fails, _ = fsearch(a, b, site == "equal", limit=400)
                    if fails:
                        explain(site, a, b, fails[0], True, False)
                    else:
                        broken.append({"broken": "C5: implementation answers %s=True, faithful model (tr + real sympy "
                                                 "simplify) does not" % site, "a": show(a), "b": show(b)})
                elif fails:
                    explain(site, a, b, fails[0], True, True)
            if isinstance(eq, bool) and isinstance(ne, bool) and is_polynomial(a) and is_polynomial(b) \
                    and len(st["c4"]) < ctx.pick(200, 4000):
                ctx.hist("polynomial_pairs_with_verdict", "equal" if eq else "never_equal")
                st["c4"].append((a, b, eq, ne))
        add_corr(a, b)

    pairs = [("targeted", a, b) for a, b in TARGETED]
    n_pairs = ctx.pick(450, 9000)
    t_pairs = time.time()
    for kind, a, b in pairs:
        check_pair(kind, a, b)
    done = len(pairs)
    while done < n_pairs:
        kind, a, b = gen.pair()
        if size(a) + size(b) > 60:
            continue
        check_pair(kind, a, b)
        done += 1
    ctx.notes["pairs"] = done
    ctx.log("pairs=%d (%.1fs) concrete_violations=%d" % (done, time.time() - t_pairs, len(concrete)))

    # ---------------------------------------------------------------- solve_equal_for
    sp = impl.sympy

    def check_solve(a, b, x):
        try:
            status, sols = limited(impl.solve, a, b, x)
        except TimeoutError:
            status, sols = "timeout", None
        ctx.hist("solve_status", status)
        ctx.count(("solve", a, b, x), status == "set" and bool(sols))
        if status != "set":
            return
        # C5 for solve: the faithful model with the real solveset must give the same finite set
        try:
            msol = limited(sp.solvers.solveset, impl.to_sympy(tr(fixed, a)) - impl.to_sympy(tr(fixed, b)), sp.Symbol(x))
            same = (msol is sp.EmptySet and not sols) or (isinstance(msol, sp.FiniteSet) and
                                                         sorted(map(str, msol)) == sorted(map(str, sols)))
        except Exception as err:        # pylint: disable=broad-except
            same = True                       # unknown (time-out, solver error in the model run): C5 skipped
            ctx.hist("model_solve_exception", type(err).__name__)
        for sol in sols:
            others = sorted((set(variables(a)) | set(variables(b)) | {str(s) for s in sol.free_symbols}) - {x})
            found = None
            for env, salt in grid(others, rng, ctx.pick(30, 80)):
                q = impl.sympy_value(sol, ({k: Fraction(v) for k, v in env.items()}, salt))
                if q is None or q.denominator != 1:
                    continue
                env2 = dict(env)
                env2[x] = int(q)
                try:
                    fa, fb = feval(a, (env2, salt)), feval(b, (env2, salt))
                except OverflowError:
                    continue
                if fa is None or fb is None:
                    continue
                ctx.hist("grid_points_evaluated", "total")
                if fa != fb:
                    found = ((env2, salt), fa, fb)
                    break
            if found:
                explain("solve_equal_for", a, b, found, "solution %s = %s" % (x, sol), same,
                        {"solve_for": x, "reported_solutions": [str(s) for s in sols]})
        if not same:
            ctx.cov["disagreements_checked"] += 1
            if not concrete:
                broken.append({"broken": "C5: solve_equal_for differs from the faithful model (tr + real solveset)",
                               "a": show(a), "b": show(b), "x": x, "impl": [str(s) for s in sols]})

    t_ph = time.time()
    for a, b, x in TARGETED_SOLVE:
        check_solve(a, b, x)
    n_solve, k_solve = ctx.pick(40, 900), 0
    while k_solve < n_solve:
        x = rng.choice(["i", "j"])
        profile = rng.choice(["poly", "frag", "full"])
        a = gen.expr(2, profile)
        if x not in variables(a):
            a = bop(rng.choice("+-*"), a, var(x))
        if rng.random() < 0.5:
            a = gen.same(a)
        b = rng.choice([lit(rng.choice([0, 1, 3, 4, 6])), var(rng.choice(["n", "m"])),
                        bop("+", var(x), lit(rng.choice([1, 2]))), gen.expr(1, "poly")])
        check_solve(a, b, x)
        add_corr(a, b)
        k_solve += 1

    # ---------------------------------------------------------------- expand
    def check_expand(e):
        try:
            status, new, newnode = limited(impl.expand, e)
        except TimeoutError:
            status, new, newnode = "timeout", None, None
        ctx.hist("expand_status", status.split(":")[0])
        changed = status == "ok" and new != e
        ctx.count(("expand", e), changed)
        if status != "ok":
            return
        ctx.hist("expand_in_fragment", in_frag(fixed, e) and in_frag(fixed, new))
        # premises of expand_preserves_partial, checked by evaluation: expand_sound + reader_faithful, i.e.
        # the sympy value of the new expression = the sympy value of the model's translation of the old one
        reproduced = True
        try:
            (snew,), _ = impl.sympy_exprs([new])
            model_old = impl.to_sympy(tr(fixed, e))
            for k in range(4):
                qenv = ({v: Fraction(rng.choice([-3, -2, -1, 1, 2, 3, 5])) for v in set(variables(e)) | set(variables(new))}, k)
                v_new, v_old = impl.sympy_value(snew, qenv), impl.sympy_value(model_old, qenv)
                if v_new is not None and v_old is not None and v_new != v_old:
                    reproduced = False
        except Exception as err:        # pylint: disable=broad-except
            ctx.hist("expand_model_exception", type(err).__name__)
        fails, evaluated = fsearch(e, new, True)
        ctx.hist("grid_points_evaluated", "total", evaluated)
        if fails:
            explain("expand", e, new, fails[0], "expanded to " + show(new), reproduced)
        elif not reproduced:
            ctx.cov["disagreements_checked"] += 1
            broken.append({"broken": "C5: expand result differs (as a sympy expression) from the model's translation "
                                     "of the input", "input": show(e), "output": show(new)})
        add_corr(e, new)

    ctx.log("solve triples=%d (%.1fs)" % (k_solve + len(TARGETED_SOLVE), time.time() - t_ph))
    t_ph = time.time()
    for e in TARGETED_EXPAND:
        check_expand(e)
    n_exp, k_exp = ctx.pick(60, 1200), 0
    while k_exp < n_exp:
        profile = rng.choice(["poly", "frag", "frag", "full"])
        e = bop("*", gen.expr(2, profile), bop(rng.choice("+-"), gen.expr(1, profile), gen.expr(1, profile)))
        if rng.random() < 0.3:
            e = bop("**", bop(rng.choice("+-"), gen.expr(1, profile), gen.expr(1, profile)), lit(rng.choice([2, 3])))
        check_expand(e)
        k_exp += 1

    ctx.log("expand inputs=%d (%.1fs)" % (k_exp + len(TARGETED_EXPAND), time.time() - t_ph))
    # ---------------------------------------------------------------- Coq correspondences
    header = ("From Coq Require Import ZArith QArith String.\nFrom PV Require Import C17.Model.\n"
              "Open Scope Z_scope.")
    fx = coq_bool(fixed)

    def env_list(env, pr):
        return core.coq_list("(%s, %s)" % (cstr(x), pr(v)) for x, v in sorted(env.items()))

    c1 = ["(%s, %s)" % (coq_expr(e), coq_sexpr(p)) for e, _, p in st["c1"]]
    c2 = ["(%s, (%s, %s), %s)" % (coq_expr(e), cz(q[1]), env_list(q[0], coq_q), coq_opt(real, coq_q))
          for e, q, real, _ in st["c2"]]
    c3 = ["(%s, (%s, %s), (%s, (%s, %s)))" % (coq_expr(e), cz(env[1]), env_list(env[0], cz), coq_opt(v, cz),
                                             coq_bool(fr), core.coq_list(cz(f) for f in fs))
          for e, env, v, fr, fs in st["c3"]]
    c4 = ["(%s, %s, (%s, %s))" % (coq_expr(a), coq_expr(b), coq_bool(eq), coq_bool(ne)) for a, b, eq, ne in st["c4"]]
    t_ph = time.time()
    tagged = [("K1", k, c) for k, c in enumerate(c1)] + [("K2", k, c) for k, c in enumerate(c2)] + \
             [("K3", k, c) for k, c in enumerate(c3)] + [("K4", k, c) for k, c in enumerate(c4)]
    rng2 = ctx.rng("shuffle")
    rng2.shuffle(tagged)                     # balance the shards
    header2 = header.replace("C17.Model.", "C17.Model C17.Cases.")
    failing = ctx.coq_eval_failing(header2, "ccase", "chk_case %s" % fx, ["(%s %s)" % (t, c) for t, _, c in tagged],
                                   shard=max(60, (len(tagged) + 3) // 4)) if tagged else []
    bad = {"K1": [], "K2": [], "K3": [], "K4": []}
    for i in failing:
        bad[tagged[i][0]].append(tagged[i][1])
    bad1, bad2, bad3, bad4 = (sorted(bad[k]) for k in ("K1", "K2", "K3", "K4"))
    ctx.log("coq evaluation of %d cases %.1fs" % (len(tagged), time.time() - t_ph))
    # C6: the model of _create_type_map (coq/C17/TypeMap.v `build`) against the real writer's type_map
    c6 = ["(%s, %s)" % (core.coq_list([coq_expr(a), coq_expr(b)]),
                        core.coq_list("(%s, %s, %s)" % (cstr(k), coq_bool(f), cstr(v)) for k, f, v in raw))
          for a, b, raw in st["c6"]]
    bad6 = ctx.coq_eval_failing(header.replace("C17.Model.", "C17.Model C17.TypeMap."),
                                "list expr * list (string * bool * string)", "chk_typemap", c6, shard=400) if c6 else []
    ctx.cov["disagreements_checked"] += len(bad6)
    ctx.log("C6 type map cases=%d (bad %d)" % (len(c6), len(bad6)))
    if bad6:
        a, b, raw = st["c6"][bad6[0]]
        shown = ctx.coq_eval_show(header.replace("C17.Model.", "C17.Model C17.TypeMap."),
                                  ["build %s" % core.coq_list([coq_expr(a), coq_expr(b)])])
        broken.append({"broken": "C6: SymPyWriter type_map differs from the model coq/C17/TypeMap.v `build` (a name "
                                 "not bound, bound to the wrong kind, or renamed differently)",
                       "a": show(a), "b": show(b), "implementation_type_map": raw, "model": shown, "n": len(bad6)})
    mirror_bad = [i for i, (_, _, real, mine) in enumerate(st["c2"]) if real != mine]
    ctx.cov["disagreements_checked"] += len(bad1) + len(bad2) + len(bad3) + len(bad4)
    ctx.notes["correspondence_cases"] = {"C6_type_map": len(c6), "C1_text": len(c1), "C2_sympy_values": len(c2), "C3_feval": len(c3),
                                         "C4_poly_verdicts": len(c4)}
    ctx.log("coq cases: C1=%d (bad %d) C2=%d (bad %d, mirror bad %d) C3=%d (bad %d) C4=%d (bad %d)"
            % (len(c1), len(bad1), len(c2), len(bad2), len(mirror_bad), len(c3), len(bad3), len(c4), len(bad4)))
    for e, txt, p in st["c1"][:2] + st["c1"][-2:]:
        ctx.sample({"expression": show(e), "sympywriter_text": txt, "in_fragment": in_frag(fixed, e)})
    if st["c4"]:
        a, b, eq, ne = st["c4"][len(st["c4"]) // 2]
        ctx.sample({"a": show(a), "b": show(b), "impl_equal": eq, "impl_never_equal": ne})

    # the translation no longer matches: look for a wrong verdict it causes
    for i in (bad1[:6] + [j for j in bad2[:6]]):
        from_c1 = i in bad1[:6] and i < len(st["c1"])
        e = st["c1"][i][0] if from_c1 else st["c2"][i][0]
        try:
            strs, names = impl.text([e])
            e2 = back(parse_py(strs[0], names))
        except Exception:        # pylint: disable=broad-except
            continue
        if e2 == e:
            continue
        try:
            eq, ne = limited(impl.verdicts, e, e2)
        except Exception:        # pylint: disable=broad-except
            continue
        if eq is True:
            fails, _ = fsearch(e, e2, True, limit=300)
            if fails:
                explain("equal", e, e2, fails[0], True, False,
                        {"note": "found from a translation mismatch: SymPyWriter wrote %r" % strs[0]})
                break
    if (bad1 or bad2) and not concrete:
        i = bad1[0] if bad1 else bad2[0]
        case = st["c1"][i] if bad1 else st["c2"][i]
        shown = ctx.coq_eval_show(header, ["tr %s %s" % (fx, coq_expr(case[0]))])
        broken.append({"broken": "C1/C2: SymPyWriter output differs from the model coq/C17/Model.v `tr`",
                       "n_text_mismatches": len(bad1), "n_value_mismatches": len(bad2),
                       "first_differing_case": {"expression": show(case[0]),
                                                "implementation": str(case[1]) if bad1 else str(case[2]),
                                                "model_tr": shown}})
    if bad3:
        e, env, v, fr, fs = st["c3"][bad3[0]]
        broken.append({"broken": "C3: the harness evaluator/classifier differs from coq/C17/Model.v (feval/in_frag/"
                                 "features)", "expression": show(e), "valuation": env[0], "python": [v, fr, fs]})
    for i in bad4[:3]:
        a, b, eq, ne = st["c4"][i]
        fails, _ = fsearch(a, b, bool(eq), limit=600)
        if fails:
            explain("equal" if eq else "never_equal", a, b, fails[0], True, False,
                    {"note": "the proved polynomial normaliser disagrees with this verdict"})
        elif not concrete:
            broken.append({"broken": "C4: verdict on the polynomial fragment not confirmed by the proved normaliser",
                           "a": show(a), "b": show(b), "impl_equal": eq, "impl_never_equal": ne})

    # ---------------------------------------------------------------- my Fortran semantics against gfortran
    t_ph = time.time()
    gf = gfortran_validation(ctx, gen, rng, ctx.pick(90, 1500))
    ctx.notes["gfortran_validation"] = gf
    ctx.log("gfortran validation of feval: %s (%.1fs)" % (gf, time.time() - t_ph))
    if gf.get("mismatches"):
        broken.append({"broken": "the Fortran integer semantics of the model (feval) differs from gfortran",
                       "first": gf["first_mismatch"]})
    if ctx.thorough:
        rc, out = core.sh(["coqchk", "-silent", "-o", "-Q", str(core.COQ), "PV", "PV.Properties.C17"], timeout=900,
                          cwd=core.COQ)
        m = out.split("* Axioms:")[-1].split("*")[0].strip() if "* Axioms:" in out else "?"
        ctx.notes["coqchk"] = {"rc": rc, "axioms": m}
        ctx.log("coqchk rc=%d axioms=%s" % (rc, m))
        if rc != 0:
            broken.append({"broken": "coqchk rejects the .vo closure of Properties/C17", "tail": out[-1500:]})

    # ---------------------------------------------------------------- verdict
    ctx.notes["concrete_failures_outside_known_findings"] = len(concrete)
    if broken and not concrete:
        ctx.violation({"property": PROP, "no_longer_checks": broken[:5], "n": len(broken)}, no_input=True)
    elif broken:
        ctx.notes["also_broken"] = [b.get("broken") for b in broken[:5]]


def fortran_text(e):
    t = e[0]
    if t == "lit":
        return str(e[1])
    if t == "var":
        return e[1]
    if t == "neg":
        return "(-%s)" % fortran_text(e[1])
    if t == "bin":
        return "(%s %s %s)" % (fortran_text(e[2]), e[1], fortran_text(e[3]))
    return "%s(%s)" % (e[1], ", ".join(fortran_text(a) for a in e[2]))


def gfortran_validation(ctx, gen, rng, n_cases):
    """Differential test of THIS FILE's (and, through C3, the Coq model's) Fortran integer semantics:
    scalar expressions over + - * / ** unary minus MOD MIN MAX are compiled with gfortran and the printed
    values compared with feval.  Only cases where every intermediate value fits a default integer and no
    division by zero occurs are used."""
    cases = []
    special = [bop("/", neg(lit(7)), lit(2)), call("MOD", [neg(lit(7)), lit(2)]), call("MOD", [lit(7), neg(lit(2))]),
               bop("**", lit(2), neg(lit(1))), bop("**", neg(lit(1)), neg(lit(3))), bop("**", lit(0), lit(0)),
               bop("*", bop("/", var("n"), lit(2)), lit(2)), bop("**", bop("**", var("n"), lit(2)), lit(3)),
               bop("**", var("n"), bop("**", lit(2), lit(3))), neg(bop("**", var("n"), lit(2))),
               bop("/", neg(var("n")), lit(2)), neg(bop("/", var("n"), lit(2))), bop("**", var("n"), neg(var("m"))),
               call("MOD", [var("n"), var("m")]), call("MIN", [var("n"), var("m"), lit(1)]),
               bop("-", var("n"), bop("-", var("m"), var("i"))), bop("/", bop("/", var("n"), lit(2)), lit(2))]
    tries = 0
    while len(cases) < n_cases and tries < 20 * n_cases:
        tries += 1
        e = special[tries - 1] if tries <= len(special) else gen.expr(rng.choice([2, 3]), "full")
        if any(x[0] == "call" and isinstance(x[1], tuple) for x in subexprs(e)):
            continue
        if set(variables(e)) - set(BASE):
            continue
        env = {x: rng.choice([-7, -3, -2, -1, 0, 1, 2, 3, 5, 8]) for x in BASE}
        try:
            vals = [feval(x, (env, 0)) for x in subexprs(e)]
        except OverflowError:
            continue
        if any(v is None or abs(v) >= 2 ** 31 - 1 for v in vals):
            continue
        cases.append((e, env, vals[-1]))
    lines = ["program c17sem", "  implicit none", "  integer :: " + ", ".join(BASE)]
    for e, env, _ in cases:
        for x in BASE:
            lines.append("  %s = %d" % (x, env[x]))
        lines.append("  write(*,*) %s" % fortran_text(e))
    lines.append("end program c17sem")
    d = ctx.scratch / "gfortran"
    d.mkdir(exist_ok=True)
    (d / "c17sem.f90").write_text("\n".join(lines) + "\n")
    rc, out = core.sh(["gfortran", "-O0", "-fno-range-check", "-ffree-line-length-none", "-o", "c17sem", "c17sem.f90"],
                      timeout=300, cwd=d)
    if rc != 0:
        return {"status": "gfortran failed to compile the generated program", "mismatches": 1,
                "first_mismatch": out[-800:]}
    rc, out = core.sh(["./c17sem"], timeout=120, cwd=d)
    got = [ln.strip() for ln in out.split("\n") if ln.strip()]
    if rc != 0 or len(got) != len(cases):
        return {"status": "generated program failed", "mismatches": 1, "first_mismatch": out[-800:]}
    bad = [(fortran_text(e), env, v, g) for (e, env, v), g in zip(cases, got) if str(v) != g]
    res = {"status": "ok", "cases": len(cases), "mismatches": len(bad)}
    if bad:
        res["first_mismatch"] = {"expression": bad[0][0], "valuation": bad[0][1], "feval": bad[0][2], "gfortran": bad[0][3]}
    return res


class time_limit:
    """SIGALRM-based wall-clock limit for a single sympy call (main thread only)."""

    def __init__(self, seconds):
        self.seconds = seconds

    def __enter__(self):
        import signal

        def handler(signum, frame):
            raise TimeoutError("sympy call exceeded %ss" % self.seconds)
        self.old = signal.signal(signal.SIGALRM, handler)
        signal.alarm(self.seconds)

    def __exit__(self, *a):
        import signal
        signal.alarm(0)
        signal.signal(signal.SIGALRM, self.old)
        return False


def load_translate():
    import importlib.util
    path = core.VERIF / "props" / PROP / "translate.py"
    spec = importlib.util.spec_from_file_location("props_C17_translate", path)
    mod = importlib.util.module_from_spec(spec)
    spec.loader.exec_module(mod)
    return mod
