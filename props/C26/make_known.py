"""Maintenance helper (never run by ./check): turn the concrete C26 failures found by a run on the
UNCHANGED tree (replays/C26-*.json carrying a "key") into props/C26/known_findings.json entries.
Usage:  /venv/bin/python props/C26/make_known.py [--merge]"""
import glob
import json
import sys
from pathlib import Path

HERE = Path(__file__).resolve().parent
VERIF = HERE.parent.parent

WHAT = {
    "comment": "a comment is attached to the statement",
    "symbols": "symbols are added to the routine's symbol table",
    "tree": "the tree is modified",
    "tree+symbols": "the tree and the symbol tables are modified",
    "text": "the written code changes",
}


def main():
    out = {}
    f = HERE / "known_findings.json"
    if "--merge" in sys.argv and f.exists():
        out = {e["key"]: e for e in json.loads(f.read_text())}
    for p in sorted(glob.glob(str(VERIF / "replays" / "C26-*.json"))):
        r = json.loads(Path(p).read_text())
        if "key" not in r or r["key"] in out:
            continue
        kind = r["key"][:-len("-before-raise")].rsplit("-", 1)[1]
        out[r["key"]] = {
            "key": r["key"], "status": "open", "property": "C26",
            "what": "%s%s.apply(node, %s): %s and then TransformationError is raised (%s)" % (
                r["transformation"], r["constructor"], r["options"], WHAT.get(kind, kind),
                r["error"].replace("Transformation Error: ", "")[:90].replace("\n", " ")),
            "witness": {k: r[k] for k in ("transformation", "constructor", "program", "target", "second_argument",
                                          "options", "error", "observed")}}
    f.write_text(json.dumps(sorted(out.values(), key=lambda e: e["key"]), indent=1) + "\n")
    print("known_findings.json: %d entries" % len(out))
    for k in sorted(out):
        print("  ", k)


if __name__ == "__main__":
    main()
