"""C26 program corpus: small Fortran programs (fixed templates exercising what the transformations
look at, plus seeded random loop programs from vlib.fortgen) and LFRic/GOcean invokes from
PSyclone's test_files.  Every program object can rebuild a FRESH tree on demand (`make()`)."""
import os

from vlib import core

G_RICH = '''
module m_rich
  implicit none
  integer :: gv
contains
  subroutine sub(n, a, b, c, d)
    integer, intent(in) :: n
    real, intent(inout) :: a(10), b(10), c(10,10), d(10,10)
    integer :: i, j
    real :: s
    a(:) = b(:) + 1.0
    a(2:10) = b(1:9)
    s = sum(a)
    s = maxval(b(:))
    c = matmul(c, d)
    do i = 1, n
      do j = 1, n
        c(i,j) = d(j,i) * 2.0 + abs(a(i))
      end do
    end do
    do i = 2, n
      a(i) = a(i-1) + sign(b(i), s)
    end do
    if (s > 0.0) then
      call other(a, n)
    else
      s = min(s, 1.0, a(1))
    end if
  end subroutine sub
  subroutine other(x, n)
    integer, intent(in) :: n
    real, intent(inout) :: x(n)
    integer :: i
    do i = 1, n
      x(i) = x(i) + gv
    end do
  end subroutine other
end module m_rich
'''

G_INLINE = '''
module m_inl
  use other_mod, only: zz, unknownfn
  implicit none
  type :: vt
    real :: d(10)
    integer :: k
  end type vt
  real :: shared(10)
contains
  subroutine top(v, x, n)
    type(vt), intent(inout) :: v
    real, intent(inout) :: x(10)
    integer, intent(in) :: n
    integer :: i
    real :: y
    call s1(x, n)
    call s2(v%d, v%k)
    call s3(x(2:5))
    y = f1(x(1)) + 2.0
    do i = 1, n
      call s1(x, i)
    end do
    call s4(x)
    call s5(x, n)
    call ext(x)
    do i = 1, n
      call s3(x(1:4))
      call s4(x)
    end do
  end subroutine top
  subroutine s1(p, m)
    real, intent(inout) :: p(10)
    integer, intent(in) :: m
    integer :: i
    do i = 1, m
      p(i) = p(i) * 2.0
    end do
  end subroutine s1
  subroutine s2(q, k)
    real, intent(inout) :: q(:)
    integer, intent(in) :: k
    q(k) = 0.0
    q(:) = q(:) + 1.0
  end subroutine s2
  subroutine s3(r)
    real, intent(inout) :: r(4)
    r(1) = r(4)
  end subroutine s3
  real function f1(t)
    real, intent(in) :: t
    f1 = t * t
  end function f1
  subroutine s4(w)
    real, intent(inout) :: w(10)
    real, save :: keep = 0.0
    keep = keep + w(1)
    w(2) = keep + shared(1)
  end subroutine s4
  subroutine s5(u, n)
    real, intent(inout) :: u(10)
    integer, intent(in) :: n
    integer :: i
    u(1) = zz
    i = n
    u(i) = unknownfn(u(1))
  end subroutine s5
end module m_inl
'''

G_ARRAYS = '''
subroutine arrs(n, a, b, c, idx, msk, msk2, str, t3)
  integer, intent(in) :: n
  real, intent(inout) :: a(n), b(n), c(n,n), t3(4,4,4)
  integer, intent(in) :: idx(n)
  logical, intent(in) :: msk(n), msk2(n,n)
  character(len=8), intent(inout) :: str
  real :: s, v(3), w(3), mm(3,3)
  integer :: i
  where (a > 0.0) b = a
  s = sum(c(:,1))
  s = dot_product(a, b)
  c(:,:) = 0.0
  str = 'abc'
  a(:) = b(idx(:))
  a(1:n) = a(n:1:-1)
  a(:) = b(:) * s + c(:,2)
  s = product(a(1:3))
  s = minval(c)
  v = matmul(mm, w)
  v(:) = matmul(mm(:,:), w(:))
  t3(:,:,1) = t3(:,:,2)
  s = max(s, a(1)) + min(b(1), 2.0)
  s = sign(s, a(2)) * abs(b(2))
  a = b
  s = sum(a, mask=msk)
  b(2:n-1) = a(1:n-2) + a(3:n)
  c(1,:) = a(:) + sum(b)
  s = sum(b(idx(:)), mask=msk)
  s = maxval(c(:,idx(:)), mask=msk2)
  s = minval(b(idx(:)))
end subroutine arrs
'''

G_LOOPS = '''
program loops
  implicit none
  integer, parameter :: n = 20, m = 10
  real :: t(n,m), u(n,m), r(n)
  integer :: i, j, k, ii
  real :: acc, tmp
  do j = 1, m
    do i = 1, n
      t(i,j) = 2.0 * u(i,j)
    end do
  end do
  do j = 1, m, 2
    do i = n, 1, -1
      u(i,j) = t(i,j) + 1.0
    end do
  end do
  acc = 0.0
  do i = 1, n
    acc = acc + r(i)
  end do
  do i = 2, n
    r(i) = r(i-1) * 0.5
  end do
  do i = 1, n
    tmp = r(i) * 2.0
    k = i + 1
    r(i) = tmp + k
  end do
  do i = 1, n
    r(i) = 1.0
  end do
  do i = 1, n
    u(i,1) = r(i)
  end do
  do j = 1, m
    tmp = 3.0
    do i = 1, n
      do ii = 1, 2
        t(i,j) = t(i,j) + tmp
      end do
    end do
  end do
  do j = 1, m
    do i = 1, n, k
      t(i,j) = 0.0
    end do
  end do
  do j = 1, m
    do i = j, n
      u(i,j) = 0.5
    end do
  end do
  i = 1
  do while (i < n)
    i = i * 2
  end do
  do i = 1, n
    if (r(i) < 0.0) exit
    r(i) = sqrt(r(i))
  end do
  write(*,*) acc, r(1)
end program loops
'''

G_KERNELISH = '''
module k_mod
  implicit none
contains
  subroutine kern(a, b, n)
    integer, intent(in) :: n
    real, intent(inout) :: a(n)
    real, intent(in) :: b(n)
    real :: loc(10), big(n)
    integer :: i
    if (n < 1) then
      return
    end if
    do i = 1, n
      loc(1) = b(i)
      big(i) = loc(1)
      a(i) = big(i)
    end do
    if (a(1) > 0.0) then
      a(1) = 0.0
      return
    end if
    a(2) = 1.0
  end subroutine kern
end module k_mod
'''

G_ALG2 = '''
program alg2
  use kern_mod, only: kern
  use other_kern_mod, only: kern2
  use field_mod, only: field_type
  implicit none
  type(field_type) :: f1, f2
  real :: x
  call invoke(kern(f1), kern2(f1, f2))
  x = 1.0
  call invoke(kern(f2), 3)
  call invoke(kern2(f2, f1), name="last")
end program alg2
'''

# 2-D nests for compound transformations (LoopTiling2DTrans = chunk outer, chunk inner, swap): the
# OUTER loop is always chunkable, the INNER one hits one refusal reason of ChunkLoopTrans each
# (step not dividing the chunk size, step larger than it, variable step, negative step, CodeBlock in
# the body, bound written in the body), so that with several tile sizes a later sub-apply can be
# refused after an earlier one has mutated the tree if the up-front validation is incomplete.
G_NESTS = '''
subroutine nests(t, u, n, m, k)
  integer, intent(in) :: n, m, k
  real, intent(inout) :: t(100,100), u(100,100)
  integer :: i, j, nn
  do j = 1, 100
    do i = 1, 100, 8
      t(i,j) = 2.0 * t(i,j)
    end do
  end do
  do j = 1, 100, 2
    do i = 1, 100, 3
      t(i,j) = u(i,j)
    end do
  end do
  do j = 1, m
    do i = 1, n, k
      t(i,j) = 0.0
    end do
  end do
  do j = 1, m
    do i = n, 1, -1
      u(i,j) = t(i,j)
    end do
  end do
  do j = 1, 100, 16
    do i = 1, 100, 64
      u(i,j) = 1.0
    end do
  end do
  do j = 1, m
    do i = 1, n
      write(*,*) t(i,j)
    end do
  end do
  nn = n
  do j = 1, m
    do i = 1, nn
      nn = nn - 1
    end do
  end do
  do j = 1, 100, 5
    do i = 1, 100, 5
      t(i,j) = t(i,j) + 1.0
    end do
  end do
  do j = 1, 100, 4
    do i = 1, 100
      t(i,j) = t(i,j) + 2.0
    end do
  end do
end subroutine nests
'''

GENERIC = [("nests", G_NESTS), ("rich", G_RICH), ("inline", G_INLINE), ("arrays", G_ARRAYS), ("loops", G_LOOPS),
           ("kernelish", G_KERNELISH)]

LFRIC_FILES = ["dynamo0p3/1_single_invoke.f90", "dynamo0p3/4_multikernel_invokes.f90",
               "dynamo0p3/15.1.2_builtin_and_normal_kernel_invoke.f90", "dynamo0p3/1.0.1_single_named_invoke.f90",
               "dynamo0p3/22.0_intergrid_prolong.f90"]
GOCEAN_FILES = ["gocean1p0/single_invoke.f90", "gocean1p0/test11_different_iterates_over_one_invoke.f90",
                "gocean1p0/single_invoke_two_kernels.f90"]
LFRIC_ALG_FILES = ["dynamo0p3/1_single_invoke.f90", "dynamo0p3/15.1.2_builtin_and_normal_kernel_invoke.f90"]


class Program:
    """name, kind (generic / lfric / gocean / alg), source text (for replays) and make()."""
    def __init__(self, name, kind, source=None, path=None, api=None, dm=True):
        self.name, self.kind, self.source, self.path, self.api, self.dm = name, kind, source, path, api, dm
        self._info = None
        self.with_text = kind in ("generic", "alg")

    def make(self):
        """a fresh tree (root node)."""
        from psyclone.configuration import Config
        if self.kind in ("generic", "alg"):
            from psyclone.psyir.frontend.fortran import FortranReader
            if Config.get().api != "nemo":
                Config.get().api = "nemo"
            if self.source is None:
                self.source = open(self.path).read()
            return FortranReader().psyir_from_source(self.source)
        from psyclone.parse.algorithm import parse
        from psyclone.psyGen import PSyFactory
        if Config.get().api != self.api:
            Config.get().api = self.api
        if self._info is None:
            _, self._info = parse(self.path, api=self.api)
        psy = PSyFactory(self.api, distributed_memory=self.dm).create(self._info)
        self._psy = psy        # keep alive
        return psy.invokes.invoke_list[0].schedule.root

    def describe(self):
        d = {"name": self.name, "kind": self.kind}
        if self.path:
            d["path"] = str(self.path)
            d["api"] = self.api
            d["distributed_memory"] = self.dm
        else:
            d["source"] = self.source
        return d


def fortgen_program(rng, tag):
    from vlib import fortgen, minifort as mf
    g = fortgen.Gen(rng, max_depth=2, allow_exit=False)
    stmts = g.program(rng.choice([3, 4]))
    src = mf.to_fortran("rnd_%s" % tag, stmts, g.decls())
    return Program("fortgen_%s" % tag, "generic", source=src)


def test_files():
    return core.REPO / "src" / "psyclone" / "tests" / "test_files"


def programs(ctx):
    """the list of programs of this run (deterministic given tier and seed)."""
    tf = test_files()
    quick_templates = ("nests", "rich", "arrays", "loops")
    progs = [Program(n, "generic", source=s) for n, s in GENERIC if ctx.thorough or n in quick_templates]
    rng = ctx.rng("fortgen")
    for k in range(ctx.pick(1, 3)):
        progs.append(fortgen_program(rng, "s%d_%d" % (ctx.seed, k)))
    nl, ng = ctx.pick(1, len(LFRIC_FILES)), ctx.pick(1, len(GOCEAN_FILES))
    for f in LFRIC_FILES[:nl]:
        progs.append(Program("lfric:" + os.path.basename(f), "lfric", path=str(tf / f), api="dynamo0.3", dm=True))
    if ctx.thorough:
        progs.append(Program("lfric-nodm:" + os.path.basename(LFRIC_FILES[1]), "lfric", path=str(tf / LFRIC_FILES[1]),
                             api="dynamo0.3", dm=False))
    for f in GOCEAN_FILES[:ng]:
        progs.append(Program("gocean:" + os.path.basename(f), "gocean", path=str(tf / f), api="gocean1.0", dm=False))
    # algorithm layers read as plain PSyIR (targets of the Alg transformations)
    progs.append(Program("alg2", "alg", source=G_ALG2))
    for f in LFRIC_ALG_FILES[:ctx.pick(0, 2)]:
        progs.append(Program("alg:" + os.path.basename(f), "alg", path=str(tf / f)))
    return progs
