"""C26 static translator: effect skeletons of every Transformation.apply  ->  coq/C26/Gen.v

For every concrete ``Transformation`` subclass T of the tree under test (classes are enumerated by
import; all *bodies* are read with ``ast`` from the source files) the translator abstracts
``T.apply`` -- following ``self.…``/``super().…`` calls through T's MRO, module-level helpers of
the transformation modules, nested ``Other().validate/apply`` calls and constructors -- into an
*effect skeleton* (coq/C26/Skeleton.v):

    Pure | Raise l | Mut l | Abort | Ret | Brk | Cont | Seq [..] | Alt a b | Loop b
    | TryTE b h | TryOther b h | Finally b f | Fn name body

``Raise``  = an explicit ``raise TransformationError`` (or re-raise of one),
``Mut``    = a call of a mutating primitive of the PSyIR / symbol tables (table MUTATORS below,
             TRUSTED) or an attribute/subscript store/delete on something that is not the
             transformation object itself or a provably fresh local object,
``Abort``  = raise of any other exception.

Fail-closed: an unknown statement/expression shape, an unresolvable ``apply``/``validate`` receiver,
an unresolvable name or a new apply-site outside the transformation modules raises
``TranslateError`` (the check reports it as a VIOLATION ... no-failing-input-found).
"""
import ast
import builtins
import importlib
import inspect
import json
import os
import pkgutil
import sys
from pathlib import Path

HERE = Path(__file__).resolve().parent
VERIF = HERE.parent.parent
if str(VERIF) not in sys.path:
    sys.path.insert(0, str(VERIF))
from vlib import core  # noqa: E402


class TranslateError(Exception):
    pass


# --------------------------------------------------------------------------- trusted tables
# Method names that (may) mutate a PSyIR tree / symbol table / symbol when called on an object
# that is not known to be fresh.  TRUSTED classification (DESIGN C26 "scope").
MUTATORS = {
    # Node / ChildrenList
    "detach", "replace_with", "addchild", "pop_all_children", "append", "insert", "extend", "pop",
    "remove", "clear", "reverse", "sort", "lower_to_language_level",
    "append_preceding_comment", "update_parent_symbol_table",
    # Reference / Call / misc node editing helpers
    "append_named_arg", "insert_named_arg", "replace_named_arg", "reset_argument_names",
    "add_clause", "addchildren", "replace_symbols_using", "update_symbols_from",
    # SymbolTable
    "new_symbol", "find_or_create", "find_or_create_tag", "find_or_create_integer_symbol",
    "find_or_create_array", "add", "rename_symbol", "swap", "swap_symbol_properties",
    "specify_argument_list", "append_argument", "insert_argument", "remove_symbol", "attach", "merge",
    "resolve_imports", "add_lfric_precision_symbol", "add_tags",
    "find_or_create_coded_kernel_symbol", "specialise", "copy_properties", "resolve_type",
    "get_or_create_integer_symbol", "update", "setdefault", "discard", "popitem",
    # PSy-layer objects
    "rename_and_write", "modified", "set_color_map", "update_halo_exchanges", "create_halo_exchanges",
    "set_upper_bound", "set_lower_bound", "load", "_add_field_component_halo_exchange",
    "_add_halo_exchange", "set_opencl_options", "zero_reduction_variable", "setval",
    "create_coded_kernel_symbols", "raise", "make_constant", "adjust_data_sizes",
    "_update_arg_metadata", "_setup",
    "copy_external_import", "create_psylayer_symbol_root_names", "psyir_expression",
}
# Methods called on receivers of unknown type that the heuristic audit (a definition of that name
# somewhere in psyclone stores into `self` state or calls a MUTATORS name, transitively through
# self.x() calls) flags, but that were reviewed by hand and judged not to change PSyIR/symbol
# tables observably (local accumulators, lazily cached values).  TRUSTED.
PURE_REVIEWED = {
    "args_filter", "check_for_clashes", "coded_kernels", "copy", "create", "get", "get_kernel_schedule",
    "get_lbound_expression", "has_inc_arg", "independent_iterations", "kernels", "lookup", "path_from",
    "symbols_imported_from", "walk",
}
# the container-method names above that are also methods of plain list/dict/set locals: a call on
# a *local container* (see LOCALC) is pure
CONTAINER_METHODS = {"append", "insert", "extend", "pop", "remove", "clear", "reverse", "sort", "add",
                     "update", "setdefault", "discard", "popitem"}

# attribute stores on these receivers are not PSyIR mutations
PURE_BUILTINS = {
    "len", "isinstance", "issubclass", "str", "int", "float", "bool", "list", "dict", "set", "tuple",
    "range", "enumerate", "zip", "sorted", "reversed", "min", "max", "sum", "any", "all", "abs",
    "type", "id", "hash", "repr", "getattr", "hasattr", "print", "iter", "next", "map", "filter",
    "frozenset", "callable", "super", "format", "ord", "chr", "round", "divmod", "open", "vars",
    "object", "slice", "bytes", "isinstance", "NotImplemented", "property", "staticmethod", "id",
}
MUT_BUILTINS = {"setattr", "delattr"}

# apply()/validate() call sites outside the transformation modules (file, function, called method).
# ASSUMPTION CHECKED HERE: no TransformationError escapes from non-transformation code into a
# transformation; the list is the complete set of such sites, each inspected by hand:
NONTRANS_SITES = {
    ("psyclone/gocean1p0.py", "get_kernel_schedule", "apply"): "TE caught: re-raised as GenerationError",
    ("psyclone/nemo.py", "__init__", "apply"): "driver (NemoPSy constructor), not called from a transformation",
    ("psyclone/profiler.py", "add_profile_nodes", "apply"): "driver, not called from a transformation",
    ("psyclone/generator.py", "generate", "apply"): "driver",
    ("psyclone/psyad/adjoint_visitor.py", "assignment_node", "apply"): "psyad driver",
    ("psyclone/psyad/domain/lfric/lfric_adjoint_harness.py", "generate_lfric_adjoint_harness", "apply"): "psyad driver",
    ("psyclone/psyad/domain/lfric/lfric_adjoint.py", "generate_lfric_adjoint", "apply"): "psyad driver",
    ("psyclone/domain/common/extract_driver_creator.py", "create", "validate"):
        "LEAKS: ExtractDriverCreator.create <- write_driver <- GOceanExtractTrans.apply (see TE_LEAK_METHODS)",
    ("psyclone/domain/lfric/lfric_extract_driver_creator.py", "create", "validate"):
        "LEAKS: LFRicExtractDriverCreator.create <- write_driver <- LFRicExtractTrans.apply (see TE_LEAK_METHODS)",
    ("psyclone/domain/lfric/lfric_builtins.py", "metadata", "validate"): "LFRicKernelMetadata.validate, not a transformation",
    ("psyclone/psyad/transformations/preprocess.py", "preprocess_trans", "apply"): "psyad driver; catches TE",
    ("psyclone/psyad/transformations/preprocess.py", "preprocess_trans", "validate"): "psyad driver; catches TE",
}
# names of the driver functions above: a transformation calling one of them is not understood
DRIVER_NAMES = {"add_profile_nodes", "generate", "assignment_node", "generate_lfric_adjoint_harness",
                "generate_lfric_adjoint", "preprocess_trans"}
# methods of non-transformation classes through which a TransformationError can reach a transformation
TE_LEAK_METHODS = {"write_driver"}

# self.<attr>(...) where <attr> is not a method: attribute-held callables, classified by hand
SELF_CALLABLE_ATTRS = {"_node_class": "pure"}   # PSyDataTrans: node class; the call constructs a fresh node

TE_NAMES = {"TransformationError"}
# exception classes that are super-classes of TransformationError: a handler for them catches TE
TE_SUPERS = {"TransformationError", "PSycloneError", "Exception", "BaseException"}


# --------------------------------------------------------------------------- skeleton terms
def seq(items):
    out = []
    for it in items:
        if it[0] == "seq":
            out.extend(it[1])
        elif it[0] != "pure":
            out.append(it)
    # drop everything after a definite control transfer at this level (dead code)
    for i, it in enumerate(out):
        if it[0] in ("raise", "abort", "ret", "brk", "cont"):
            out = out[:i + 1]
            break
    if not out:
        return ("pure",)
    if len(out) == 1:
        return out[0]
    return ("seq", out)


def alt(a, b):
    if a == b:
        return a
    return ("alt", a, b)


def loop(b):
    if b[0] == "pure":
        return b
    return ("loop", b)


def is_trivial(sk):
    """no Raise / Mut / Abort anywhere (control only)."""
    k = sk[0]
    if k in ("raise", "mut", "abort"):
        return False
    if k in ("pure", "ret", "brk", "cont"):
        return True
    if k == "seq":
        return all(is_trivial(x) for x in sk[1])
    if k in ("alt", "tryte", "tryoth", "finally"):
        return is_trivial(sk[1]) and is_trivial(sk[2])
    if k == "loop":
        return is_trivial(sk[1])
    if k == "fn":
        return is_trivial(sk[2])
    if k == "ref":
        return False
    raise TranslateError("is_trivial: " + repr(sk))


# --------------------------------------------------------------------------- source index
class Sources:
    def __init__(self, repo):
        self.repo = Path(repo)
        self.src = self.repo / "src"
        self.trees = {}

    def module_file(self, modname):
        p = self.src / (modname.replace(".", "/") + ".py")
        if p.exists():
            return p
        p = self.src / modname.replace(".", "/") / "__init__.py"
        if p.exists():
            return p
        raise TranslateError("no source for module " + modname)

    def tree(self, modname):
        if modname not in self.trees:
            f = self.module_file(modname)
            self.trees[modname] = ast.parse(f.read_text(), filename=str(f))
        return self.trees[modname]

    def classdef(self, cls):
        t = self.tree(cls.__module__)
        node = t
        for part in cls.__qualname__.split("."):
            for n in node.body:
                if isinstance(n, ast.ClassDef) and n.name == part:
                    node = n
                    break
            else:
                raise TranslateError("class %s not found in %s" % (cls.__qualname__, cls.__module__))
        return node

    def funcdef(self, modname, name):
        for n in self.tree(modname).body:
            if isinstance(n, ast.FunctionDef) and n.name == name:
                return n
        return None


def all_transformations():
    import psyclone.psyir.transformations  # noqa: F401
    import psyclone.transformations  # noqa: F401
    from psyclone.psyGen import Transformation
    for pk in ["psyclone.psyir.transformations", "psyclone.domain", "psyclone.psyad"]:
        m = importlib.import_module(pk)
        for mi in pkgutil.walk_packages(m.__path__, pk + "."):
            if ".tests" in mi.name:
                continue
            importlib.import_module(mi.name)

    def subs(c):
        out = []
        for s in c.__subclasses__():
            out.append(s)
            out += subs(s)
        return out
    classes = sorted(set(subs(Transformation)), key=lambda c: (c.__module__, c.__qualname__))
    classes = [c for c in classes if c.__module__.startswith("psyclone.") and ".tests." not in c.__module__]
    return Transformation, classes


# --------------------------------------------------------------------------- the analyser
class AVal:
    """abstract value of a local: kind in inst(cls) / cls(cls) / fresh / localc / unknown / selfobj /
    func(obj) / module(obj)"""
    def __init__(self, kind, obj=None):
        self.kind, self.obj = kind, obj

    def __repr__(self):
        return "AVal(%s,%s)" % (self.kind, getattr(self.obj, "__name__", self.obj))


UNKNOWN = AVal("unknown")
FRESH = AVal("fresh")
LOCALC = AVal("localc")      # local python container (list/dict/set/tuple/str literal or comprehension)
SELF = AVal("self")


class FnCtx:
    def __init__(self, T, D, modname, fdef, outer=None, is_method=True):
        self.T, self.D, self.modname, self.fdef, self.outer = T, D, modname, fdef, outer
        self.is_method = is_method
        self.selfname = None
        if is_method and fdef.args.args:
            decos = [ast.unparse(d) for d in fdef.decorator_list]
            if "staticmethod" not in decos:
                self.selfname = fdef.args.args[0].arg
            self.is_classmethod = "classmethod" in decos
        self.env = {}
        self.penv = {}              # abstract values of parameters known at the call site
        self.localdefs = {}
        self.handler_stack = []     # for bare `raise`: list of (catches_te, catches_other)
        self.excnames = {}          # name bound by `except X as name` -> (catches_te, catches_other)
        self.qual = "%s.%s" % (D.__name__, fdef.name) if D is not None else "%s.%s" % (modname.split(".")[-1], fdef.name)


class Analyzer:
    def __init__(self, repo=None):
        self.repo = Path(repo or core.REPO)
        self.S = Sources(self.repo)
        self.Transformation, self.classes = all_transformations()
        # sanity: the imported psyclone is the tree under test
        import psyclone
        got = Path(psyclone.__file__).resolve().parent.parent
        if got != (self.repo / "src").resolve():
            raise TranslateError("imported psyclone (%s) is not the tree under test (%s)" % (got, self.repo))
        self.defs = {}        # defname -> skeleton (shared function definitions, in creation order)
        self.memo = {}        # (Tname, modname, qual) -> ("ref", defname) | skeleton
        self.stack = []
        self.recursive = set()
        self.tainted = set()
        self.attr_cache = {}
        self.notes = {"recursion": [], "unknown_receiver_calls": {}, "pure_default_methods": {}}
        self.trans_modules = {c.__module__ for c in self.classes} | {"psyclone.psyGen"}
        self.check_nontrans_sites()

    # ------------------------------------------------------------------ global assumption
    def check_nontrans_sites(self):
        src = self.S.src / "psyclone"
        trans_files = {self.S.module_file(m).resolve() for m in self.trans_modules if m != "psyclone.psyGen"}
        found = set()
        for p in sorted(src.rglob("*.py")):
            if "tests" in p.relative_to(src).parts:
                continue
            text = p.read_text()
            rel = str(p.relative_to(self.S.src))
            if p.resolve() in trans_files:
                continue
            tree = ast.parse(text)
            # a module outside the transformation modules that raises TransformationError
            for fn in ast.walk(tree):
                if not isinstance(fn, ast.FunctionDef):
                    continue
                if rel == "psyclone/psyGen.py":
                    pass
                for n in ast.walk(fn):
                    if isinstance(n, ast.Raise) and n.exc is not None and self._exc_class_name(n.exc) in TE_NAMES:
                        raise TranslateError("raise TransformationError outside the transformation modules: %s:%d"
                                             % (rel, n.lineno))
                    if isinstance(n, ast.Call) and isinstance(n.func, ast.Attribute) and n.func.attr in ("apply", "validate"):
                        recv = ast.unparse(n.func.value).lower()
                        if "trans" in recv or n.func.attr == "apply":
                            if n.func.attr == "apply" and not ("trans" in recv):
                                # e.g. pandas-like .apply on non-transformations: not expected at all
                                pass
                            found.add((rel, fn.name, n.func.attr))
                        elif (rel, fn.name, n.func.attr) in NONTRANS_SITES:
                            found.add((rel, fn.name, n.func.attr))
        new = sorted(s for s in found if s not in NONTRANS_SITES)
        if new:
            raise TranslateError("new apply()/validate() call site(s) outside the transformation modules "
                                 "(not in NONTRANS_SITES; inspect whether TransformationError can leak): %r" % new)

    @staticmethod
    def _exc_class_name(e):
        if isinstance(e, ast.Call):
            e = e.func
        if isinstance(e, ast.Name):
            return e.id
        if isinstance(e, ast.Attribute):
            return e.attr
        return None

    # ------------------------------------------------------------------ resolution helpers
    def mro(self, cls):
        return [k for k in cls.__mro__ if k.__module__.startswith("psyclone.")]

    def find_method(self, T, name, after=None):
        """(defining class, FunctionDef, kind) of attribute `name` for an instance of T; search
        starts after class `after` in T's MRO when given.  kind: 'method'|'property'|'static'|'class'.
        Returns None when no psyclone class in the MRO defines it."""
        mro = self.mro(T)
        if after is not None:
            if after not in mro:
                raise TranslateError("super(): %s not in MRO of %s" % (after.__name__, T.__name__))
            mro = mro[mro.index(after) + 1:]
        for K in mro:
            cd = self.S.classdef(K)
            getter = None
            for n in cd.body:
                if isinstance(n, ast.FunctionDef) and n.name == name:
                    decos = [ast.unparse(d) for d in n.decorator_list]
                    if "property" in decos:
                        getter = n
                    elif any(d.endswith(".setter") for d in decos):
                        continue
                    elif "staticmethod" in decos:
                        return K, n, "static"
                    elif "classmethod" in decos:
                        return K, n, "class"
                    elif "abc.abstractmethod" in decos or "abstractmethod" in decos:
                        return K, n, "method"
                    elif decos:
                        raise TranslateError("unknown decorator on %s.%s: %s" % (K.__name__, name, decos))
                    else:
                        return K, n, "method"
            if getter is not None:
                return K, getter, "property"
            # class-level simple assignment  name = ...
            for n in cd.body:
                if isinstance(n, ast.Assign) and any(isinstance(t, ast.Name) and t.id == name for t in n.targets):
                    return K, n, "classattr"
        return None

    def find_setter(self, T, name):
        for K in self.mro(T):
            cd = self.S.classdef(K)
            for n in cd.body:
                if isinstance(n, ast.FunctionDef) and n.name == name and \
                        any(ast.unparse(d) == name + ".setter" for d in n.decorator_list):
                    return K, n
        return None

    def self_attr_value(self, T, attr):
        """abstract value of self.<attr>: joins all `self.attr = <expr>` stores in T's MRO."""
        key = (T, attr)
        if key in self.attr_cache:
            return self.attr_cache[key]
        self.attr_cache[key] = UNKNOWN
        vals = []
        for K in self.mro(T):
            cd = self.S.classdef(K)
            for fn in cd.body:
                if not isinstance(fn, ast.FunctionDef) or not fn.args.args:
                    continue
                sn = fn.args.args[0].arg
                ctx = None
                for n in ast.walk(fn):
                    tgts = []
                    if isinstance(n, ast.Assign):
                        tgts, val = n.targets, n.value
                    elif isinstance(n, ast.AnnAssign) and n.value is not None:
                        tgts, val = [n.target], n.value
                    for t in tgts:
                        if isinstance(t, ast.Attribute) and isinstance(t.value, ast.Name) and t.value.id == sn \
                                and t.attr == attr:
                            if ctx is None:
                                ctx = FnCtx(T, K, K.__module__, fn)
                                self.prepass(ctx)
                            vals.append(self.aval(ctx, val))
            if vals:
                break      # the most derived class that stores the attribute decides
        res = self.join(vals) if vals else UNKNOWN
        self.attr_cache[key] = res
        return res

    @staticmethod
    def join(vals):
        first = vals[0]
        for v in vals[1:]:
            if v.kind in ("fresh", "localc") and first.kind in ("fresh", "localc"):
                if v.kind != first.kind or v.obj is not first.obj:
                    first = FRESH
                continue
            if v.kind != first.kind or v.obj is not first.obj:
                # None-initialised then set to a transformation instance: keep the instance
                return UNKNOWN
        return first

    def resolve_name(self, ctx, name):
        """python object bound to a global / imported name as seen from ctx's function, or raise."""
        c = ctx
        while c is not None:
            for n in ast.walk(c.fdef):
                if isinstance(n, ast.ImportFrom):
                    for a in n.names:
                        if (a.asname or a.name) == name:
                            mod = importlib.import_module(n.module)
                            if hasattr(mod, a.name):
                                return getattr(mod, a.name)
                            return importlib.import_module(n.module + "." + a.name)
                elif isinstance(n, ast.Import):
                    for a in n.names:
                        if (a.asname or a.name.split(".")[0]) == name:
                            return importlib.import_module(a.name if a.asname else a.name.split(".")[0])
            c = c.outer
        mod = sys.modules.get(ctx.modname) or importlib.import_module(ctx.modname)
        if name in mod.__dict__:
            return mod.__dict__[name]
        if hasattr(builtins, name):
            return getattr(builtins, name)
        raise TranslateError("%s: cannot resolve name '%s'" % (ctx.qual, name))

    # ------------------------------------------------------------------ abstract values
    def prepass(self, ctx):
        """flow-insensitive local environment + nested defs."""
        assigns = {}
        params = set()
        a = ctx.fdef.args
        for arg in a.posonlyargs + a.args + a.kwonlyargs + ([a.vararg] if a.vararg else []) + ([a.kwarg] if a.kwarg else []):
            params.add(arg.arg)
        own_nodes = list(self.walk_own(ctx.fdef))
        for n in own_nodes:
            if isinstance(n, ast.FunctionDef) and n is not ctx.fdef:
                ctx.localdefs[n.name] = n
        ctx.params = params
        ctx.assigned = {}
        for n in own_nodes:
            if isinstance(n, ast.Assign):
                for t in n.targets:
                    self._collect_target(ctx, t, n.value)
            elif isinstance(n, ast.AnnAssign) and n.value is not None:
                self._collect_target(ctx, n.target, n.value)
            elif isinstance(n, ast.AugAssign):
                self._collect_target(ctx, n.target, None)
            elif isinstance(n, (ast.For, ast.comprehension)):
                self._collect_target(ctx, n.target, None)
            elif isinstance(n, ast.With):
                for it in n.items:
                    if it.optional_vars is not None:
                        self._collect_target(ctx, it.optional_vars, None)
            elif isinstance(n, ast.NamedExpr):
                self._collect_target(ctx, n.target, n.value)
            elif isinstance(n, ast.ExceptHandler) and n.name:
                ctx.assigned.setdefault(n.name, []).append(None)
        # evaluate: iterate to a fixpoint of depth 3 (aliases of aliases)
        ctx.env = {}
        for _ in range(3):
            for name, vals in ctx.assigned.items():
                if name in params:
                    ctx.env[name] = UNKNOWN
                    continue
                avs = [UNKNOWN if v is None else self._aval_assigned(ctx, v) for v in vals]
                # `x = None` then `x = Trans()` : ignore the None
                avs2 = [av for av, v in zip(avs, vals) if not (isinstance(v, ast.Constant) and v.value is None)]
                avs2 = [UNKNOWN if av.kind == "tuple" else av for av in avs2]
                ctx.env[name] = self.join(avs2) if avs2 else UNKNOWN

    def _aval_assigned(self, ctx, v):
        if isinstance(v, tuple) and v[0] == "unpack":
            tv = self.aval(ctx, v[1])
            if tv.kind == "tuple" and v[2] < len(tv.obj):
                return tv.obj[v[2]]
            return UNKNOWN
        return self.aval(ctx, v)

    def _collect_target(self, ctx, t, value):
        if isinstance(t, ast.Name):
            ctx.assigned.setdefault(t.id, []).append(value)
        elif isinstance(t, (ast.Tuple, ast.List)):
            for i, e in enumerate(t.elts):
                if value is not None and isinstance(value, ast.Call) and isinstance(e, ast.Name):
                    ctx.assigned.setdefault(e.id, []).append(("unpack", value, i))
                else:
                    self._collect_target(ctx, e, None)
        elif isinstance(t, ast.Starred):
            self._collect_target(ctx, t.value, None)

    @staticmethod
    def walk_own(fdef):
        """walk a function body without descending into nested function/class definitions
        (nested defs themselves are yielded)."""
        todo = list(fdef.body)
        while todo:
            n = todo.pop()
            yield n
            if isinstance(n, (ast.FunctionDef, ast.AsyncFunctionDef, ast.ClassDef, ast.Lambda)):
                continue
            todo.extend(ast.iter_child_nodes(n))

    def aval(self, ctx, e):
        if isinstance(e, ast.Name):
            if ctx.selfname and e.id == ctx.selfname:
                return SELF
            if e.id in ctx.params:
                if e.id in ctx.assigned:
                    return UNKNOWN      # parameter re-bound in the body
                return ctx.penv.get(e.id, UNKNOWN)
            if e.id in ctx.assigned:
                return ctx.env.get(e.id, UNKNOWN)
            if e.id in ctx.localdefs:
                return AVal("localfn", ctx.localdefs[e.id])
            c = ctx.outer
            while c is not None:
                if e.id in c.assigned or e.id in c.params:
                    return c.env.get(e.id, UNKNOWN)
                if e.id in c.localdefs:
                    return AVal("localfn", c.localdefs[e.id])
                c = c.outer
            try:
                obj = self.resolve_name(ctx, e.id)
            except TranslateError:
                return UNKNOWN
            return self.obj_aval(obj)
        if isinstance(e, ast.Attribute):
            base = self.aval(ctx, e.value)
            if base.kind == "self":
                r = self.find_method(ctx.T, e.attr)
                if r is not None and r[2] in ("method", "static", "class"):
                    return AVal("boundmethod", (r[0], r[1], r[2]))
                return self.self_attr_value(ctx.T, e.attr)
            if base.kind == "module":
                if hasattr(base.obj, e.attr):
                    return self.obj_aval(getattr(base.obj, e.attr))
                return UNKNOWN
            if base.kind == "cls" and e.attr in ("create",):
                return AVal("clscreate", base.obj)
            if base.kind == "fresh" and e.attr == "symbol_table":
                # a created/copied scoping node owns a new symbol table with new symbols
                # (ScopingNode._refine_copy deep-copies the table): fresh as well
                return FRESH
            return UNKNOWN
        if isinstance(e, ast.Call):
            f = self.aval(ctx, e.func)
            if f.kind == "transcls":
                return AVal("inst", f.obj)
            if f.kind == "cls":
                return AVal("fresh", f.obj)
            if isinstance(e.func, ast.Attribute) and e.func.attr in ("copy", "create", "deep_copy"):
                return FRESH
            if isinstance(e.func, ast.Name) and e.func.id in ("list", "dict", "set", "tuple", "sorted", "OrderedDict"):
                return LOCALC
            if f.kind == "boundmethod":
                return self.ret_aval(ctx.T, f.obj[0], f.obj[1])
            if f.kind == "func" and (f.obj.__module__ or "") in self.trans_modules:
                fd = self.S.funcdef(f.obj.__module__, f.obj.__name__)
                if fd is not None:
                    return self.ret_aval(None, None, fd, is_method=False, modname=f.obj.__module__)
            if isinstance(e.func, ast.Attribute) and e.func.attr in ("walk", "keys", "values", "items", "split"):
                return LOCALC          # these return a new python container
            return UNKNOWN
        if isinstance(e, (ast.List, ast.Dict, ast.Set, ast.Tuple, ast.ListComp, ast.DictComp, ast.SetComp,
                          ast.JoinedStr, ast.GeneratorExp)):
            return LOCALC
        if isinstance(e, ast.Constant):
            return LOCALC
        if isinstance(e, ast.IfExp):
            return self.join([self.aval(ctx, e.body), self.aval(ctx, e.orelse)])
        if isinstance(e, ast.Subscript) and isinstance(e.slice, ast.Slice):
            return LOCALC          # x[a:b] of a list (also of a ChildrenList) is a new plain list
        if isinstance(e, ast.BinOp) and isinstance(e.op, (ast.Mult, ast.Add)) and \
                (self.aval(ctx, e.left).kind == "localc" or self.aval(ctx, e.right).kind == "localc"):
            return LOCALC
        if isinstance(e, ast.BoolOp) and isinstance(e.op, ast.Or):
            return self.join([self.aval(ctx, v) for v in e.values])
        return UNKNOWN

    def ret_aval(self, T, K, fn, is_method=True, modname=None):
        """join of the abstract values of all `return <expr>` of a function (LOCALC/FRESH matter)."""
        key = ("ret", T.__name__ if T else None, K.__name__ if K else None, fn.name, fn.lineno)
        if key in self.attr_cache:
            return self.attr_cache[key]
        self.attr_cache[key] = UNKNOWN
        ctx = FnCtx(T, K, K.__module__ if K else modname, fn, is_method=is_method)
        try:
            self.prepass(ctx)
            rets = [n.value for n in self.walk_own(fn) if isinstance(n, ast.Return)]
            if rets and all(isinstance(r, ast.Tuple) and len(r.elts) == len(rets[0].elts) for r in rets):
                # tuple of values: element-wise
                elts = []
                for i in range(len(rets[0].elts)):
                    ev = self.join([self.aval(ctx, r.elts[i]) for r in rets])
                    elts.append(ev if ev.kind in ("localc", "fresh") else UNKNOWN)
                res = AVal("tuple", elts)
                self.attr_cache[key] = res
                return res
            vals = [self.aval(ctx, r) if r is not None else UNKNOWN for r in rets]
        except TranslateError:
            vals = []
        res = self.join(vals) if vals else UNKNOWN
        if res.kind not in ("localc", "fresh"):
            res = UNKNOWN
        self.attr_cache[key] = res
        return res

    def obj_aval(self, obj):
        if inspect.isclass(obj):
            if issubclass(obj, self.Transformation):
                return AVal("transcls", obj)
            return AVal("cls", obj)
        if inspect.ismodule(obj):
            return AVal("module", obj)
        if inspect.isfunction(obj):
            return AVal("func", obj)
        if inspect.isbuiltin(obj):
            return AVal("builtin", obj)
        return UNKNOWN

    # ------------------------------------------------------------------ function analysis
    def argkinds(self, ctx, e, fdef, skip):
        """abstract values (only container/fresh ones) of the actual arguments of call `e`, keyed by
        the parameter names of `fdef` (`skip` leading parameters are bound implicitly)."""
        names = [a.arg for a in fdef.args.posonlyargs + fdef.args.args][skip:]
        out = {}
        for i, a in enumerate(e.args):
            if isinstance(a, ast.Starred):
                break
            if i < len(names):
                v = self.aval(ctx, a)
                if v.kind in ("localc", "fresh"):
                    out[names[i]] = v
        allnames = set(names) | {a.arg for a in fdef.args.kwonlyargs}
        for k in e.keywords:
            if k.arg in allnames:
                v = self.aval(ctx, k.value)
                if v.kind in ("localc", "fresh"):
                    out[k.arg] = v
        return out

    def analyze_function(self, T, D, modname, fdef, outer=None, is_method=True, penv=None):
        """skeleton of a function body wrapped in Fn; shared through self.defs."""
        qual = ("%s.%s" % (D.__name__, fdef.name)) if D is not None else ("%s.%s" % (modname.split(".")[-1], fdef.name))
        if outer is not None:
            qual = outer.qual + "." + fdef.name
        penv = penv or {}
        key = (T.__name__ if (T is not None and is_method) else None, modname, qual, fdef.lineno,
               tuple(sorted((k, v.kind) for k, v in penv.items())))
        if key in self.memo:
            return self.memo[key]
        if key in self.stack:
            # functions between the recursion head and here are part of the cycle: their result is
            # only meaningful inside the head's Loop, so it is not memoised
            for k2 in self.stack[self.stack.index(key) + 1:]:
                self.tainted.add(k2)
            note = "%s (self type %s)" % (qual, key[0])
            if note not in self.notes["recursion"]:
                self.notes["recursion"].append(note)
            self.recursive.add(key)
            return ("pure",)     # the enclosing analysis wraps the body in Loop (see below)
        self.stack.append(key)
        try:
            ctx = FnCtx(T, D, modname, fdef, outer=outer, is_method=is_method)
            ctx.penv = dict(penv)
            if outer is not None:
                ctx.selfname = None
                ctx.qual = qual
            self.prepass(ctx)
            if outer is not None and outer.selfname:
                # closures see the enclosing `self`
                ctx.selfname = outer.selfname if outer.selfname not in ctx.params else None
            body = self.block(ctx, fdef.body)
        finally:
            self.stack.pop()
        if key in self.recursive:
            # direct recursion: every effect of the body may precede every other one: abstracted
            # as a loop over the body with the recursive call removed (sound for the order analysis)
            body = loop(("fn", qual, body))
        if is_trivial(body):
            res = ("pure",)
        else:
            defname = "fn_" + "__".join(str(k) for k in (key[0] or "", qual.replace(".", "_"))).strip("_")
            defname = "".join(c if (c.isalnum() or c == "_") else "_" for c in defname)
            base, i = defname, 1
            while defname in self.defs:
                i += 1
                defname = "%s_%d" % (base, i)
            self.defs[defname] = ("fn", qual, body)
            res = ("ref", defname)
        if key in self.tainted:
            self.tainted.discard(key)
        else:
            self.memo[key] = res
        return res

    def block(self, ctx, stmts):
        return seq([self.stmt(ctx, s) for s in stmts])

    # ------------------------------------------------------------------ statements
    def stmt(self, ctx, s):
        m = getattr(self, "s_" + type(s).__name__, None)
        if m is None:
            raise TranslateError("%s:%d unsupported statement %s" % (ctx.qual, s.lineno, type(s).__name__))
        return m(ctx, s)

    def s_Expr(self, ctx, s):
        return self.expr(ctx, s.value)

    def s_Pass(self, ctx, s):
        return ("pure",)

    def s_Break(self, ctx, s):
        return ("brk",)

    def s_Continue(self, ctx, s):
        return ("cont",)

    def s_Import(self, ctx, s):
        return ("pure",)

    s_ImportFrom = s_Import
    s_Global = s_Import
    s_Nonlocal = s_Import

    def s_FunctionDef(self, ctx, s):
        # analysed where it is called; decorators/defaults are evaluated here
        return seq([self.expr(ctx, d) for d in s.args.defaults + [k for k in s.args.kw_defaults if k is not None]])

    def s_ClassDef(self, ctx, s):
        raise TranslateError("%s:%d nested class definition" % (ctx.qual, s.lineno))

    def s_Assert(self, ctx, s):
        return seq([self.expr(ctx, s.test), alt(("abort",), ("pure",))])

    def s_Return(self, ctx, s):
        return seq([self.expr(ctx, s.value) if s.value is not None else ("pure",), ("ret",)])

    def s_Assign(self, ctx, s):
        acts = [self.expr(ctx, s.value)]
        for t in s.targets:
            acts.append(self.store(ctx, t))
        return seq(acts)

    def s_AnnAssign(self, ctx, s):
        acts = [self.expr(ctx, s.value)] if s.value is not None else []
        if s.value is not None:
            acts.append(self.store(ctx, s.target))
        return seq(acts)

    def s_AugAssign(self, ctx, s):
        return seq([self.expr(ctx, s.value), self.store(ctx, s.target)])

    def s_Delete(self, ctx, s):
        return seq([self.store(ctx, t, delete=True) for t in s.targets])

    def s_If(self, ctx, s):
        return seq([self.expr(ctx, s.test), alt(self.block(ctx, s.body), self.block(ctx, s.orelse))])

    def s_For(self, ctx, s):
        return seq([self.expr(ctx, s.iter), self.store(ctx, s.target), loop(self.block(ctx, s.body)),
                    self.block(ctx, s.orelse)])

    def s_While(self, ctx, s):
        return seq([loop(seq([self.expr(ctx, s.test), self.block(ctx, s.body)])), self.expr(ctx, s.test),
                    self.block(ctx, s.orelse)])

    def s_With(self, ctx, s):
        acts = []
        for it in s.items:
            acts.append(self.expr(ctx, it.context_expr))
            if it.optional_vars is not None:
                acts.append(self.store(ctx, it.optional_vars))
        acts.append(self.block(ctx, s.body))
        return seq(acts)

    def handler_kinds(self, ctx, h):
        """(catches_te, catches_other) of an except clause."""
        if h.type is None:
            return True, True
        types = h.type.elts if isinstance(h.type, ast.Tuple) else [h.type]
        te = oth = False
        for t in types:
            n = self._exc_class_name(t)
            if n is None:
                raise TranslateError("%s:%d unsupported except type" % (ctx.qual, h.lineno))
            if n in TE_SUPERS:
                te = True
                if n not in TE_NAMES:
                    oth = True
            else:
                obj = self.resolve_name(ctx, n) if isinstance(t, ast.Name) else None
                if obj is not None and inspect.isclass(obj):
                    from psyclone.psyir.transformations import TransformationError
                    if issubclass(TransformationError, obj):
                        te = True
                    if issubclass(obj, TransformationError):
                        te = True
                    else:
                        oth = True
                else:
                    oth = True
        return te, oth

    def s_Try(self, ctx, s):
        body = self.block(ctx, s.body)
        if s.orelse:
            # else-clause runs after a body that completed; exceptions of it are not handled here:
            # modelled by sequencing it after the whole try statement (sound for the order analysis)
            pass
        res = body
        if s.handlers:
            hte, hoth = [], []
            for h in s.handlers:
                te, oth = self.handler_kinds(ctx, h)
                ctx.handler_stack.append((te, oth))
                if h.name:
                    ctx.excnames[h.name] = (te, oth)
                hb = self.block(ctx, h.body)
                ctx.handler_stack.pop()
                if te:
                    hte.append(hb)
                if oth:
                    hoth.append(hb)
            # handlers for other exceptions may run after any prefix of the body
            if hoth:
                hb = hoth[0]
                for x in hoth[1:]:
                    hb = alt(hb, x)
                res = ("tryoth", res, hb) if not is_trivial(hb) or True else res
            if hte:
                hb = hte[0]
                for x in hte[1:]:
                    hb = alt(hb, x)
                res = ("tryte", res, hb)
        res = seq([res, self.block(ctx, s.orelse)])
        if s.finalbody:
            fb = self.block(ctx, s.finalbody)
            if not is_trivial(fb):
                res = ("finally", res, fb)
        return res

    def s_Raise(self, ctx, s):
        if s.exc is None:
            if not ctx.handler_stack:
                raise TranslateError("%s:%d bare raise outside handler" % (ctx.qual, s.lineno))
            te, oth = ctx.handler_stack[-1]
            return self._raise_kinds(ctx, s, te, oth)
        pre = self.expr(ctx, s.exc)
        if s.cause is not None:
            pre = seq([pre, self.expr(ctx, s.cause)])
        if isinstance(s.exc, ast.Name) and s.exc.id in ctx.excnames:
            te, oth = ctx.excnames[s.exc.id]
            return seq([pre, self._raise_kinds(ctx, s, te, oth)])
        n = self._exc_class_name(s.exc)
        if n is None:
            raise TranslateError("%s:%d unsupported raise expression" % (ctx.qual, s.lineno))
        obj = None
        try:
            obj = self.resolve_name(ctx, n)
        except TranslateError:
            pass
        from psyclone.psyir.transformations import TransformationError
        if n in TE_NAMES or (inspect.isclass(obj) and issubclass(obj, TransformationError)):
            return seq([pre, ("raise", "%s:raise" % ctx.qual)])
        if obj is not None and inspect.isclass(obj) and issubclass(obj, BaseException):
            return seq([pre, ("abort",)])
        raise TranslateError("%s:%d raise of unknown object %s" % (ctx.qual, s.lineno, n))

    def _raise_kinds(self, ctx, s, te, oth):
        if te and oth:
            return alt(("raise", "%s:reraise" % ctx.qual), ("abort",))
        if te:
            return ("raise", "%s:reraise" % ctx.qual)
        return ("abort",)

    # ------------------------------------------------------------------ stores
    def store(self, ctx, t, delete=False):
        what = "del" if delete else "set"
        if isinstance(t, ast.Name):
            return ("pure",)
        if isinstance(t, (ast.Tuple, ast.List)):
            return seq([self.store(ctx, e, delete) for e in t.elts])
        if isinstance(t, ast.Starred):
            return self.store(ctx, t.value, delete)
        if isinstance(t, ast.Attribute):
            pre = self.expr(ctx, t.value)
            base = self.aval(ctx, t.value)
            if base.kind == "self":
                st = self.find_setter(ctx.T, t.attr)
                if st is not None:
                    return seq([pre, self.analyze_function(ctx.T, st[0], st[0].__module__, st[1])])
                return pre           # state of the transformation object itself: not PSyIR
            if base.kind in ("fresh", "localc"):
                return pre
            return seq([pre, ("mut", "%s:%sattr:%s" % (ctx.qual, what, t.attr))])
        if isinstance(t, ast.Subscript):
            pre = seq([self.expr(ctx, t.value), self.expr(ctx, t.slice)])
            base = self.aval(ctx, t.value)
            if base.kind in ("fresh", "localc"):
                return pre
            root = t.value
            while isinstance(root, (ast.Attribute, ast.Subscript)):
                root = root.value
            if isinstance(root, ast.Name) and ctx.selfname and root.id == ctx.selfname and \
                    isinstance(t.value, ast.Attribute) and isinstance(t.value.value, ast.Name):
                return pre          # self.<attr>[k] = v : state of the transformation object
            if isinstance(t.value, ast.Attribute) and isinstance(t.value.value, ast.Name) and \
                    self.aval(ctx, t.value.value).kind == "transcls":
                return pre          # TransClass.<attr>[k] = v : class-level state of the transformation
            if isinstance(t.value, ast.Name):
                nm = t.value.id
                if nm in ("options",):
                    # the caller's options dictionary: not part of the PSyIR (noted limitation)
                    return pre
                if nm in ctx.assigned and base.kind == "unknown":
                    # local bound to something unknown: could alias e.g. node.children
                    vals = ctx.assigned[nm]
                    if all(v is not None and self._aval_assigned(ctx, v).kind == "localc" for v in vals):
                        return pre
            return seq([pre, ("mut", "%s:%sitem:%s" % (ctx.qual, what, self._short(t.value)))])
        raise TranslateError("%s: unsupported store target %s" % (ctx.qual, ast.dump(t)[:80]))

    def _is_plain_container_expr(self, ctx, v):
        return self.aval(ctx, v).kind == "localc"

    @staticmethod
    def _short(e):
        s = ast.unparse(e)
        return s.split(".")[-1][:30]

    # ------------------------------------------------------------------ expressions
    def expr(self, ctx, e):
        if e is None:
            return ("pure",)
        m = getattr(self, "e_" + type(e).__name__, None)
        if m is None:
            raise TranslateError("%s:%d unsupported expression %s" % (ctx.qual, getattr(e, "lineno", 0), type(e).__name__))
        return m(ctx, e)

    def e_Constant(self, ctx, e):
        return ("pure",)

    def e_Name(self, ctx, e):
        return ("pure",)

    def e_JoinedStr(self, ctx, e):
        return seq([self.expr(ctx, v) for v in e.values])

    def e_FormattedValue(self, ctx, e):
        return self.expr(ctx, e.value)

    def e_Attribute(self, ctx, e):
        pre = self.expr(ctx, e.value)
        base = self.aval(ctx, e.value)
        if base.kind == "self":
            r = self.find_method(ctx.T, e.attr)
            if r is not None and r[2] == "property":
                return seq([pre, self.analyze_function(ctx.T, r[0], r[0].__module__, r[1])])
        return pre

    def e_Subscript(self, ctx, e):
        return seq([self.expr(ctx, e.value), self.expr(ctx, e.slice)])

    def e_Slice(self, ctx, e):
        return seq([self.expr(ctx, e.lower), self.expr(ctx, e.upper), self.expr(ctx, e.step)])

    def e_Starred(self, ctx, e):
        return self.expr(ctx, e.value)

    def e_UnaryOp(self, ctx, e):
        return self.expr(ctx, e.operand)

    def e_BinOp(self, ctx, e):
        return seq([self.expr(ctx, e.left), self.expr(ctx, e.right)])

    def e_Compare(self, ctx, e):
        return seq([self.expr(ctx, e.left)] + [self.expr(ctx, c) for c in e.comparators])

    def e_BoolOp(self, ctx, e):
        res = ("pure",)
        for v in reversed(e.values[1:]):
            res = alt(seq([self.expr(ctx, v), res]), ("pure",))
        return seq([self.expr(ctx, e.values[0]), res])

    def e_IfExp(self, ctx, e):
        return seq([self.expr(ctx, e.test), alt(self.expr(ctx, e.body), self.expr(ctx, e.orelse))])

    def e_Tuple(self, ctx, e):
        return seq([self.expr(ctx, x) for x in e.elts])

    e_List = e_Tuple
    e_Set = e_Tuple

    def e_Dict(self, ctx, e):
        return seq([self.expr(ctx, x) for pair in zip(e.keys, e.values) for x in pair if x is not None])

    def e_Lambda(self, ctx, e):
        # body runs when called (usually as a key function inside the enclosing call): place it here
        return alt(self.expr(ctx, e.body), ("pure",))

    def _comp(self, ctx, e, elts):
        inner = seq([self.expr(ctx, x) for x in elts])
        for g in reversed(e.generators):
            inner = seq([self.expr(ctx, g.iter), loop(seq([seq([self.expr(ctx, c) for c in g.ifs]), inner]))])
        return inner

    def e_ListComp(self, ctx, e):
        return self._comp(ctx, e, [e.elt])

    e_SetComp = e_ListComp
    e_GeneratorExp = e_ListComp

    def e_DictComp(self, ctx, e):
        return self._comp(ctx, e, [e.key, e.value])

    def e_NamedExpr(self, ctx, e):
        return self.expr(ctx, e.value)

    def e_Call(self, ctx, e):
        args = [self.expr(ctx, a) for a in e.args] + [self.expr(ctx, k.value) for k in e.keywords]
        f = e.func
        if isinstance(f, ast.Attribute):
            return self.call_attr(ctx, e, f, args)
        if isinstance(f, ast.Name):
            return self.call_name(ctx, e, f, args)
        if isinstance(f, ast.Call) and isinstance(f.func, ast.Name) and f.func.id == "type" and len(f.args) == 1:
            # type(x)(...) : construction of a fresh object of x's class
            return seq([self.expr(ctx, f.args[0])] + args)
        if isinstance(f, ast.Subscript) and isinstance(f.value, ast.Name) and f.value.id not in ctx.assigned \
                and f.value.id not in ctx.params:
            tbl = self.resolve_name(ctx, f.value.id)
            if isinstance(tbl, dict) and tbl and all(inspect.isclass(v) and not issubclass(v, self.Transformation)
                                                     for v in tbl.values()):
                # TABLE[key](...) with a module-level table of (node) classes: fresh object
                return seq([self.expr(ctx, f.slice)] + args)
        if isinstance(f, ast.Subscript) and isinstance(f.value, ast.Attribute):
            b = self.aval(ctx, f.value.value)
            cls = ctx.T if b.kind == "self" else (b.obj if b.kind == "transcls" else None)
            r = self.find_method(cls, f.value.attr) if cls is not None else None
            if r is not None and r[2] == "classattr" and isinstance(r[1].value, ast.Dict) and r[1].value.values \
                    and all(isinstance(v, ast.Lambda) for v in r[1].value.values):
                # CLASS.table[key](...) with a class-level dict of lambdas: any of the lambda bodies
                body = ("pure",)
                lctx = FnCtx(cls, r[0], r[0].__module__, ast.FunctionDef(
                    name="<classattr %s>" % f.value.attr, args=ast.arguments(
                        posonlyargs=[], args=[], kwonlyargs=[], kw_defaults=[], defaults=[]), body=[],
                    decorator_list=[], lineno=r[1].lineno), is_method=False)
                self.prepass(lctx)
                for v in r[1].value.values:
                    lctx.params = {a.arg for a in v.args.args}
                    body = alt(body, self.expr(lctx, v.body))
                return seq([self.expr(ctx, f.slice)] + args + [body])
        if isinstance(f, ast.Call) and isinstance(f.func, ast.Name) and f.func.id == "super":
            raise TranslateError("%s:%d call of super() result" % (ctx.qual, e.lineno))
        raise TranslateError("%s:%d unsupported callee %s" % (ctx.qual, e.lineno, ast.unparse(f)[:60]))

    # ---- calls through a name
    def call_name(self, ctx, e, f, args):
        name = f.id
        v = self.aval(ctx, f)
        pre = seq(args)
        if v.kind == "localfn":
            c = ctx
            while c is not None and v.obj.name not in c.localdefs:
                c = c.outer
            return seq([pre, self.analyze_function(ctx.T, ctx.D, ctx.modname, v.obj, outer=c or ctx,
                                                   is_method=ctx.is_method,
                                                   penv=self.argkinds(ctx, e, v.obj, 0))])
        if name in ctx.params or (name in ctx.assigned and v.kind == "unknown" and False):
            raise TranslateError("%s:%d call of a local/parameter callable '%s'" % (ctx.qual, e.lineno, name))
        if v.kind == "boundmethod":
            K, fn, kind = v.obj
            return seq([pre, self.analyze_function(ctx.T, K, K.__module__, fn,
                                                   penv=self.argkinds(ctx, e, fn, 0 if kind == "static" else 1))])
        if v.kind == "fresh" and v.obj is not None:
            from psyclone.psyir.backend.visitor import PSyIRVisitor
            if issubclass(v.obj, PSyIRVisitor):
                return pre      # a backend visitor works on a copy of the tree it is given
        if v.kind == "transcls":
            return seq([pre, self.call_method_of(ctx, e, v.obj, "__init__", required=False)])
        if v.kind == "cls":
            if issubclass(v.obj, BaseException):
                return pre
            return pre      # construction of a fresh (detached) object
        if v.kind == "func":
            return seq([pre, self.call_function_obj(ctx, e, v.obj)])
        if v.kind == "builtin" or hasattr(builtins, name):
            if name in MUT_BUILTINS:
                tgt = self.aval(ctx, e.args[0]) if e.args else UNKNOWN
                if tgt.kind in ("self", "fresh", "localc"):
                    return pre
                return seq([pre, ("mut", "%s:%s" % (ctx.qual, name))])
            if name in PURE_BUILTINS:
                return pre
            raise TranslateError("%s:%d builtin '%s' not classified" % (ctx.qual, e.lineno, name))
        raise TranslateError("%s:%d cannot classify call of '%s' (%r)" % (ctx.qual, e.lineno, name, v))

    def call_function_obj(self, ctx, e, fobj):
        mod = fobj.__module__ or ""
        if fobj.__name__ in DRIVER_NAMES:
            raise TranslateError("%s:%d call of driver function %s" % (ctx.qual, e.lineno, fobj.__name__))
        if mod in self.trans_modules and mod != "psyclone.psyGen":
            fd = self.S.funcdef(mod, fobj.__name__)
            if fd is None:
                raise TranslateError("%s:%d function %s.%s has no module-level def" % (ctx.qual, e.lineno, mod, fobj.__name__))
            return self.analyze_function(None, None, mod, fd, is_method=False, penv=self.argkinds(ctx, e, fd, 0))
        if fobj.__name__ in MUTATORS:
            return ("mut", "%s:%s" % (ctx.qual, fobj.__name__))
        return ("pure",)

    def call_method_of(self, ctx, e, cls, mname, required=True, after=None):
        r = self.find_method(cls, mname, after=after)
        if r is None:
            if required:
                raise TranslateError("%s:%d method %s not found for %s" % (ctx.qual, e.lineno, mname, cls.__name__))
            return ("pure",)
        K, fn, kind = r
        if kind == "classattr":
            raise TranslateError("%s:%d call of class attribute %s.%s" % (ctx.qual, e.lineno, K.__name__, mname))
        return self.analyze_function(cls, K, K.__module__, fn,
                                     penv=self.argkinds(ctx, e, fn, 0 if kind == "static" else 1))

    # ---- calls through an attribute
    def call_attr(self, ctx, e, f, args):
        m = f.attr
        recv = f.value
        # super().m(...) / super(C, self).m(...)
        if isinstance(recv, ast.Call) and isinstance(recv.func, ast.Name) and recv.func.id == "super":
            if ctx.D is None:
                raise TranslateError("%s:%d super() outside a class" % (ctx.qual, e.lineno))
            after = ctx.D
            if recv.args:
                c0 = self.aval(ctx, recv.args[0])
                if c0.kind not in ("transcls", "cls"):
                    raise TranslateError("%s:%d super(X, ..) with unknown X" % (ctx.qual, e.lineno))
                after = c0.obj
            return seq(args + [self.call_method_of(ctx, e, ctx.T, m, required=(m in ("apply", "validate")), after=after)])
        pre = seq([self.expr(ctx, recv)] + args)
        base = self.aval(ctx, recv)
        if base.kind == "self":
            r = self.find_method(ctx.T, m)
            if r is not None and r[2] in ("method", "static", "class"):
                return seq([pre, self.analyze_function(ctx.T, r[0], r[0].__module__, r[1],
                                                       penv=self.argkinds(ctx, e, r[1], 0 if r[2] == "static" else 1))])
            if r is not None and r[2] == "property":
                # self.prop.method(...)  handled by falling through with the property's value unknown
                raise TranslateError("%s:%d call of property self.%s" % (ctx.qual, e.lineno, m))
            sv = self.self_attr_value(ctx.T, m)
            if SELF_CALLABLE_ATTRS.get(m) == "pure":
                return pre
            if sv.kind in ("cls", "clscreate"):
                return pre       # self.<attr> holds a (node) class / its create(): fresh object
            if sv.kind == "boundmethod":
                K, fn, kind = sv.obj
                return seq([pre, self.analyze_function(ctx.T, K, K.__module__, fn,
                                                       penv=self.argkinds(ctx, e, fn, 0 if kind == "static" else 1))])
            raise TranslateError("%s:%d call of self.%s which is not a method (%r)" % (ctx.qual, e.lineno, m, sv))
        if base.kind == "inst":
            r = self.find_method(base.obj, m)
            if r is None:
                raise TranslateError("%s:%d %s has no method %s" % (ctx.qual, e.lineno, base.obj.__name__, m))
            if r[2] not in ("method", "static", "class"):
                raise TranslateError("%s:%d call of non-method %s.%s" % (ctx.qual, e.lineno, base.obj.__name__, m))
            return seq([pre, self.analyze_function(base.obj, r[0], r[0].__module__, r[1],
                                                   penv=self.argkinds(ctx, e, r[1], 0 if r[2] == "static" else 1))])
        if base.kind == "transcls":
            # Class.method(...) : static/class method or unbound call
            r = self.find_method(base.obj, m)
            if r is None:
                raise TranslateError("%s:%d %s has no attribute %s" % (ctx.qual, e.lineno, base.obj.__name__, m))
            if r[2] not in ("method", "static", "class"):
                raise TranslateError("%s:%d call of non-method %s.%s" % (ctx.qual, e.lineno, base.obj.__name__, m))
            return seq([pre, self.analyze_function(base.obj, r[0], r[0].__module__, r[1],
                                                   penv=self.argkinds(ctx, e, r[1], 1 if r[2] == "class" else 0))])
        if base.kind == "module":
            if hasattr(base.obj, m):
                o = getattr(base.obj, m)
                ov = self.obj_aval(o)
                if ov.kind == "func":
                    return seq([pre, self.call_function_obj(ctx, e, o)])
                if ov.kind == "transcls":
                    return seq([pre, self.call_method_of(ctx, e, o, "__init__", required=False)])
                return pre
            raise TranslateError("%s:%d module %s has no %s" % (ctx.qual, e.lineno, base.obj.__name__, m))
        if m in ("apply", "validate"):
            rs = ast.unparse(recv)
            if self._known_nontrans_receiver(ctx, recv, m):
                return pre
            raise TranslateError("%s:%d cannot resolve the transformation in `%s.%s(...)`" % (ctx.qual, e.lineno, rs, m))
        if (m in DRIVER_NAMES and m != "generate") or \
                ("driver_creator" in ast.unparse(recv) and m not in TE_LEAK_METHODS):
            # ("generate" is also the name of ArgOrdering.generate; generator.generate is a
            #  module-level function and is caught in call_function_obj)
            raise TranslateError("%s:%d call of driver function %s" % (ctx.qual, e.lineno, m))
        if m in TE_LEAK_METHODS:
            return seq([pre, alt(("raise", "%s:call:%s" % (ctx.qual, m)), ("pure",))])
        if base.kind in ("fresh", "localc"):
            return pre
        if base.kind == "cls":
            # ClassName.create(...) etc: construction of fresh objects / class-level queries
            if m in MUTATORS and m not in ("create",):
                return seq([pre, ("mut", "%s:%s" % (ctx.qual, m))])
            return pre
        if m in MUTATORS:
            if m in CONTAINER_METHODS and self._is_local_container(ctx, recv):
                return pre
            return seq([pre, ("mut", "%s:%s" % (ctx.qual, m))])
        h = self.notes["pure_default_methods"]
        h[m] = h.get(m, 0) + 1
        return pre

    def _known_nontrans_receiver(self, ctx, recv, m):
        return False

    def _is_local_container(self, ctx, recv):
        """receiver is a local name only ever bound to python container expressions."""
        if isinstance(recv, ast.Name) and recv.id in ctx.params and recv.id not in ctx.assigned:
            return ctx.penv.get(recv.id, UNKNOWN).kind == "localc"
        if isinstance(recv, ast.Name) and recv.id in ctx.assigned and recv.id not in ctx.params:
            vals = ctx.assigned[recv.id]
            return all(v is not None and self._aval_assigned(ctx, v).kind == "localc" for v in vals)
        if isinstance(recv, ast.Subscript):
            return self._is_local_container(ctx, recv.value)
        return False

    # ------------------------------------------------------------------ audit of the Pure default
    def audit_pure_defaults(self):
        """every method name that was classified Pure *by default* (unknown receiver, name not in
        MUTATORS) must either have no definition in psyclone that looks mutating, or be listed in
        PURE_REVIEWED."""
        src = self.S.src / "psyclone"
        defs = {}
        for p in sorted(src.rglob("*.py")):
            if "tests" in p.relative_to(src).parts:
                continue
            for c in ast.walk(ast.parse(p.read_text())):
                if isinstance(c, ast.ClassDef):
                    for n in c.body:
                        if isinstance(n, ast.FunctionDef):
                            defs.setdefault(n.name, []).append(n)

        def direct(fn):
            sn = fn.args.args[0].arg if fn.args.args else None
            for n in ast.walk(fn):
                tg = []
                if isinstance(n, ast.Assign):
                    tg = n.targets
                elif isinstance(n, (ast.AugAssign, ast.AnnAssign)):
                    tg = [n.target]
                elif isinstance(n, ast.Delete):
                    tg = n.targets
                for x in tg:
                    b = x
                    while isinstance(b, (ast.Attribute, ast.Subscript)):
                        b = b.value
                    if isinstance(x, (ast.Attribute, ast.Subscript)) and isinstance(b, ast.Name) and b.id == sn:
                        return True
                if isinstance(n, ast.Call) and isinstance(n.func, ast.Attribute) and n.func.attr in MUTATORS:
                    return True
            return False
        sus = {n for n, l in defs.items() if any(direct(fn) for fn in l)} | set(MUTATORS)
        changed = True
        while changed:
            changed = False
            for n, l in defs.items():
                if n in sus:
                    continue
                for fn in l:
                    sn = fn.args.args[0].arg if fn.args.args else None
                    if any(isinstance(x, ast.Call) and isinstance(x.func, ast.Attribute)
                           and isinstance(x.func.value, ast.Name) and x.func.value.id == sn and x.func.attr in sus
                           for x in ast.walk(fn)):
                        sus.add(n)
                        changed = True
                        break
        bad = sorted(n for n in self.notes["pure_default_methods"] if n in sus and n not in PURE_REVIEWED)
        if bad:
            raise TranslateError("method(s) %r are called by transformations on receivers of unknown type, are not in "
                                 "MUTATORS, and have a definition that looks mutating: classify them (MUTATORS or "
                                 "PURE_REVIEWED)" % bad)

    # ------------------------------------------------------------------ entry
    def skeleton_of(self, T):
        r = self.find_method(T, "apply")
        if r is None:
            raise TranslateError("no apply for " + T.__name__)
        return self.analyze_function(T, r[0], r[0].__module__, r[1])


# --------------------------------------------------------------------------- python-side analysis
def expand(sk, defs, cache=None):
    """inline ("ref", n) nodes (for the python-side pair computation)."""
    k = sk[0]
    if k == "ref":
        return expand(defs[sk[1]], defs)
    if k == "seq":
        return ("seq", [expand(x, defs) for x in sk[1]])
    if k in ("alt", "tryte", "tryoth", "finally"):
        return (k, expand(sk[1], defs), expand(sk[2], defs))
    if k == "loop":
        return ("loop", expand(sk[1], defs))
    if k == "fn":
        return ("fn", sk[1], expand(sk[2], defs))
    return sk


class Summ:
    """python mirror of the Coq functions muts / raises / unsafe_pairs (Skeleton.v)."""
    def __init__(self, defs):
        self.defs = defs
        self.m = {}

    def get(self, sk):
        """(muts, raises, pairs) as ordered duplicate-free lists."""
        k = sk[0]
        if k == "ref":
            if sk[1] not in self.m:
                self.m[sk[1]] = self.get(self.defs[sk[1]])
            return self.m[sk[1]]
        if k in ("pure", "abort", "ret", "brk", "cont"):
            return [], [], []
        if k == "raise":
            return [], [sk[1]], []
        if k == "mut":
            return [sk[1]], [], []
        if k == "havoc":
            l = sk[1] + ":recursion"
            return [l], [l], [(l, l)]
        if k == "fn":
            return self.get(sk[2])
        if k == "seq":
            M, R, P = [], [], []
            for x in sk[1]:
                m, r, p = self.get(x)
                P = union(P, p)
                P = union(P, [(a, b) for a in M for b in r])
                M = union(M, m)
                R = union(R, r)
            return M, R, P
        if k == "alt":
            m1, r1, p1 = self.get(sk[1])
            m2, r2, p2 = self.get(sk[2])
            return union(m1, m2), union(r1, r2), union(p1, p2)
        if k == "loop":
            m, r, p = self.get(sk[1])
            return m, r, union(p, [(a, b) for a in m for b in r])
        if k == "tryte":
            m1, r1, p1 = self.get(sk[1])
            m2, r2, p2 = self.get(sk[2])
            return union(m1, m2), r2, union(p2, [(a, b) for a in m1 for b in r2])
        if k == "tryoth":
            m1, r1, p1 = self.get(sk[1])
            m2, r2, p2 = self.get(sk[2])
            return union(m1, m2), union(r1, r2), union(union(p1, p2), [(a, b) for a in m1 for b in r2])
        if k == "finally":
            m1, r1, p1 = self.get(sk[1])
            m2, r2, p2 = self.get(sk[2])
            P = union(union(p1, p2), [(a, b) for a in m1 for b in r2])
            P = union(P, [(a, b) for a in m2 for b in r1])
            return union(m1, m2), union(r1, r2), P
        raise TranslateError("summ: " + repr(sk)[:80])


def union(a, b):
    out = list(a)
    seen = set(a)
    for x in b:
        if x not in seen:
            seen.add(x)
            out.append(x)
    return out


# --------------------------------------------------------------------------- Coq emission
def coq_sk(sk, ind=1):
    k = sk[0]
    pad = " " * ind
    if k == "pure":
        return "Pure"
    if k == "raise":
        return "Raise %s" % core.coq_str(sk[1])
    if k == "mut":
        return "Mut %s" % core.coq_str(sk[1])
    if k == "abort":
        return "Abort"
    if k == "ret":
        return "Ret"
    if k == "brk":
        return "Brk"
    if k == "cont":
        return "Cont"
    if k == "ref":
        return sk[1]
    if k == "seq":
        return "Seq [" + (";\n" + pad).join(coq_sk(x, ind + 1) for x in sk[1]) + "]"
    if k == "alt":
        return "Alt (%s)\n%s(%s)" % (coq_sk(sk[1], ind + 1), pad, coq_sk(sk[2], ind + 1))
    if k == "loop":
        return "Loop (%s)" % coq_sk(sk[1], ind + 1)
    if k == "tryte":
        return "TryTE (%s)\n%s(%s)" % (coq_sk(sk[1], ind + 1), pad, coq_sk(sk[2], ind + 1))
    if k == "tryoth":
        return "TryOther (%s)\n%s(%s)" % (coq_sk(sk[1], ind + 1), pad, coq_sk(sk[2], ind + 1))
    if k == "finally":
        return "Finally (%s)\n%s(%s)" % (coq_sk(sk[1], ind + 1), pad, coq_sk(sk[2], ind + 1))
    if k == "fn":
        return "Fn %s\n%s(%s)" % (core.coq_str(sk[1]), pad, coq_sk(sk[2], ind + 1))
    raise TranslateError("coq_sk: " + repr(sk)[:80])


def translate(repo=None):
    """returns (gen_text, info) ; info = {classes: {name: {...}}, defs, notes}"""
    A = Analyzer(repo)
    info = {"classes": {}, "abstract": [], "notes": A.notes}
    entries = []
    for T in A.classes:
        if inspect.isabstract(T):
            info["abstract"].append(T.__name__)
            continue
        sk = A.skeleton_of(T)
        entries.append((T, sk))
    A.audit_pure_defaults()
    S = Summ(A.defs)
    names = [T.__name__ for T, _ in entries]
    if len(set(names)) != len(names):
        raise TranslateError("duplicate transformation class names: %r" % sorted(n for n in names if names.count(n) > 1))
    out = ["(* GENERATED by props/C26/translate.py from the tree under test -- do not edit. *)",
           "From Coq Require Import List String Bool.", "Import ListNotations.", "Open Scope string_scope.",
           "From PV Require Import C26.Skeleton C26.Proofs.", ""]
    for dn, sk in A.defs.items():
        out.append("Definition %s : sk :=\n %s.\n" % (dn, coq_sk(sk)))
    table = []
    for T, sk in entries:
        nm = T.__name__
        m, r, p = S.get(sk)
        safe = not p
        info["classes"][nm] = {"module": T.__module__, "safe": safe, "pairs": [list(x) for x in p],
                               "n_mut": len(m), "n_raise": len(r), "muts": m, "raises": r}
        out.append("Definition skel_%s : sk := %s." % (nm, coq_sk(sk)))
        plist = core.coq_list("(%s, %s)" % (core.coq_str(a), core.coq_str(b)) for a, b in p)
        if safe:
            out.append("Lemma safe_%s : safe skel_%s = true.\nProof. vm_compute. reflexivity. Qed." % (nm, nm))
        else:
            out.append("Lemma unsafe_%s : safe skel_%s = false.\nProof. vm_compute. reflexivity. Qed." % (nm, nm))
            out.append("Lemma pairs_%s : pairs_same (unsafe_pairs skel_%s)\n %s = true.\nProof. vm_compute. reflexivity. Qed."
                       % (nm, nm, plist))
        out.append("")
        table.append("(%s, skel_%s)" % (core.coq_str(nm), nm))
    out.append("Definition all_skeletons : list (string * sk) :=\n [" + ";\n  ".join(table) + "].\n")
    safe_names = [T.__name__ for T, _ in entries if info["classes"][T.__name__]["safe"]]
    out.append("Definition safe_names : list string :=\n " + core.coq_list(core.coq_str(n) for n in safe_names) + ".\n")
    out.append("Definition unsafe_names : list string :=\n " + core.coq_list(
        core.coq_str(T.__name__) for T, _ in entries if not info["classes"][T.__name__]["safe"]) + ".\n")
    out.append("Lemma all_safe_names : all_safe all_skeletons safe_names = true.\nProof. vm_compute. reflexivity. Qed.\n")
    out.append("Lemma names_partition : List.length safe_names + List.length unsafe_names = List.length all_skeletons."
               "\nProof. vm_compute. reflexivity. Qed.\n")
    info["n_defs"] = len(A.defs)
    return "\n".join(out) + "\n", info


def main():
    text, info = translate()
    changed = core.write_if_changed(core.COQ / "C26" / "Gen.v", text)
    print("C26 translate: %d classes (%d safe, %d unsafe), %d abstract skipped, %d shared defs, Gen.v %s"
          % (len(info["classes"]), sum(1 for c in info["classes"].values() if c["safe"]),
             sum(1 for c in info["classes"].values() if not c["safe"]), len(info["abstract"]), info["n_defs"],
             "rewritten" if changed else "unchanged"))
    if "--write-baseline" in sys.argv:
        base = {n: c["pairs"] for n, c in sorted(info["classes"].items()) if not c["safe"]}
        if "--merge" in sys.argv and (HERE / "static_unsafe_baseline.json").exists():
            # union with the existing list (used to cover the tree with props/C26/fix.patch applied)
            old = json.loads((HERE / "static_unsafe_baseline.json").read_text())
            for n, pairs in old.items():
                cur = base.setdefault(n, [])
                cur += [p for p in pairs if p not in cur]
            base = dict(sorted(base.items()))
        (HERE / "static_unsafe_baseline.json").write_text(json.dumps(base, indent=0, sort_keys=True) + "\n")
        print("baseline written: %d transformations, %d pairs" % (len(base), sum(len(v) for v in base.values())))
    if "-v" in sys.argv:
        for n, c in info["classes"].items():
            if not c["safe"]:
                print("UNSAFE", n)
                for a, b in c["pairs"]:
                    print("    ", a, " -> ", b)
        print(json.dumps(info["notes"], indent=1, default=str)[:6000])


if __name__ == "__main__":
    try:
        main()
    except TranslateError as err:
        print("C26 translate FAILED (fail-closed): %s" % err)
        sys.exit(1)
