"""C26 — a rejected transformation leaves the code unchanged.

Static tie (translator): props/C26/translate.py regenerates coq/C26/Gen.v (effect skeletons of every
Transformation.apply of the tree under test); coq/Properties/C26.v proves the skeleton-level
meta-theorem and instantiates it on every generated skeleton that is `safe`.  Skeletons that are
not safe are compared, (mutation site, raise site) pair by pair, with the committed baseline
props/C26/static_unsafe_baseline.json: a NEW pair triggers a focused search for a concrete failing
input and is a VIOLATION either way.

Dynamic search (the property itself on the implementation): every transformation x targets of a
program corpus x an option grid; on TransformationError the tree view, the canonical view of all
symbol tables and (where a writer exists) the FortranWriter text before/after are compared.  A
difference is a concrete failing input: KNOWN-FINDING if its key is listed open in
known_findings.json, VIOLATION otherwise.  All sizes are fixed numbers (no wall-clock guards)."""
import importlib.util
import inspect
import json
import os
import re
import sys
from pathlib import Path

from vlib import core

HERE = Path(__file__).resolve().parent


def _load(name):
    spec = importlib.util.spec_from_file_location("c26_" + name, HERE / (name + ".py"))
    mod = importlib.util.module_from_spec(spec)
    sys.modules["c26_" + name] = mod
    spec.loader.exec_module(mod)
    return mod


translate = _load("translate")
dyn = _load("dyn")
corpus = _load("corpus")


# ----------------------------------------------------------------------------- strata
def stratum(node):
    """coarse equivalence class of a target (quick tier tries one representative per class)."""
    from psyclone.psyir.nodes import (IntrinsicCall, Call, Operation, Assignment, Loop, IfBlock, Literal)
    if isinstance(node, list):
        return "list%d:%s" % (min(len(node), 3), "+".join(sorted({type(n).__name__ for n in node}))[:60])
    t = type(node).__name__
    try:
        if isinstance(node, IntrinsicCall):
            return t + ":" + node.intrinsic.name
        if isinstance(node, Call):
            return t + ":" + node.routine.name
        if isinstance(node, Operation):
            return t + ":" + node.operator.name
        if isinstance(node, Assignment):
            r = node.rhs
            rd = type(r).__name__ + ((":" + r.intrinsic.name) if isinstance(r, IntrinsicCall) else "")
            return "%s:%s=%s" % (t, type(node.lhs).__name__ + str(len(node.lhs.children)), rd)
        if isinstance(node, Loop):
            body = node.loop_body.children

            def shape(lp):
                # kinds of start/stop/step (L literal, R reference, O other) of one loop
                sh = "".join("L" if isinstance(e, Literal) else ("R" if type(e).__name__ == "Reference" else "O")
                             for e in (lp.start_expr, lp.stop_expr, lp.step_expr))
                # the value of a literal step other than 1 matters to chunking/tiling
                if isinstance(lp.step_expr, Literal) and lp.step_expr.value != "1":
                    sh += lp.step_expr.value
                return sh
            depth, cur, shapes = 1, node, [shape(node)]
            while len(cur.loop_body.children) == 1 and isinstance(cur.loop_body.children[0], Loop) and depth < 3:
                depth, cur = depth + 1, cur.loop_body.children[0]
                shapes.append(shape(cur))
            return "%s:d%d:n%d:%s:%s" % (t, depth, min(len(body), 3), type(body[0]).__name__ if body else "-",
                                         ",".join(shapes))
        if isinstance(node, IfBlock):
            return t + (":else" if node.else_body else "")
        if isinstance(node, Literal):
            return t + ":" + node.datatype.intrinsic.name
    except Exception:                    # pylint: disable=broad-except
        pass
    return t


def norm_msg(msg):
    m = re.sub(r"'[^']*'|\"[^\"]*\"", "Q", msg)
    m = re.sub(r"\d+", "N", m)
    return m[:120]


# ----------------------------------------------------------------------------- work tree
class Work:
    """the tree transformations are tried on; replaced by a fresh one whenever it was changed."""
    def __init__(self, ctx, prog, st):
        self.ctx, self.prog, self.st = ctx, prog, st
        self.domain = self._is_domain(prog)
        self.use_copy = not self.domain
        self.master = self.build()
        self.base = dyn.Snap(self.master, with_text=prog.with_text)
        if self.domain:
            # warm-up must be idempotent, else the baseline is not well defined
            dyn.warm_up(self.master)
            if dyn.Snap(self.master, with_text=False).diff(self.base):
                raise RuntimeError("warm-up of %s is not idempotent" % prog.name)
        self.root = None
        self.fresh()

    @staticmethod
    def _is_domain(prog):
        while getattr(prog, "kind", None) == "derived":
            prog = prog.parent
        return prog.kind in ("lfric", "gocean")

    def build(self):
        root = self.prog.make()
        if self.domain:
            dyn.warm_up(root)
        return root

    def fresh(self):
        if self.use_copy:
            self.root = self.master.copy()
            chk = dyn.Snap(self.root, with_text=False)
            if chk.diff(self.base):
                # the copy is not faithful / the master got contaminated through shared symbols
                self.st["master_rebuilds"] = self.st.get("master_rebuilds", 0) + 1
                self.master = self.build()
                chk = dyn.Snap(self.master, with_text=False)
                if chk.diff(self.base):
                    raise RuntimeError("program %s does not rebuild to the same tree" % self.prog.name)
                self.root = self.master.copy()
                if dyn.Snap(self.root, with_text=False).diff(self.base):
                    self.use_copy = False
                    self.root = self.build()
        else:
            self.root = self.build()
        self.st["fresh_trees"] = self.st.get("fresh_trees", 0) + 1


class Derived:
    """a program obtained by applying one accepted transformation to another program."""
    def __init__(self, prog, cls, label, tgt, extra, opts):
        self.parent, self.cls, self.label, self.tgt, self.extra, self.opts = prog, cls, label, tgt, extra, opts
        self.name = "%s+%s%s" % (prog.name, cls.__name__, label)
        self.kind = "derived"
        self.with_text = prog.with_text
        self.source = None

    def make(self):
        root = self.parent.make()
        inst = dict(dyn.instances(self.cls))[self.label]
        args = build_args(root, self.tgt, self.extra)
        o = dyn.attempt(inst, args, self.opts)
        if o.kind != "accepted":
            raise RuntimeError("derived program %s: pre-transformation not accepted (%s)" % (self.name, o.kind))
        return root

    def describe(self):
        d = {"name": self.name, "kind": "derived", "base": self.parent.describe(),
             "pre_transformation": {"class": self.cls.__name__, "ctor": self.label, "target": encode_target(self.tgt),
                                    "extra": self.extra, "options": repr(self.opts)}}
        return d


def encode_target(tgt):
    return [tgt[0], [list(p) for p in tgt[1]] if tgt[0] == "list" else list(tgt[1])]


def decode_target(t):
    return (t[0], [tuple(p) for p in t[1]] if t[0] == "list" else tuple(t[1]))


def build_args(root, tgt, extra):
    """positional arguments of apply: the target plus, for 2-argument applies, `extra`
    (('node', path) or ('int', k))."""
    a0 = dyn.resolve_target(root, tgt)
    if extra is None:
        return (a0,)
    if extra[0] == "node":
        return (a0, dyn.node_at(root, tuple(extra[1])))
    return (a0, extra[1])


def extras_for(cls, root, tgt, rng):
    """values of the second positional argument of apply (None when apply takes one)."""
    ar = dyn.apply_arity(cls)
    if len(ar) <= 1:
        return [None]
    if len(ar) > 2 or tgt[0] != "node":
        return []
    if ar[1] == "index":
        return [("int", 0), ("int", 1)]
    node = dyn.node_at(root, tgt[1])
    out = []
    par = node.parent
    if par is not None:
        sib = par.children
        i = node.position
        if i + 1 < len(sib):
            out.append(("node", list(dyn.path_of(sib[i + 1], root))))
        if i > 0:
            out.append(("node", list(dyn.path_of(sib[i - 1], root))))
        if i + 2 < len(sib):
            out.append(("node", list(dyn.path_of(sib[i + 2], root))))
    out.append(("node", []))      # the root itself
    return out[:3]


# ----------------------------------------------------------------------------- the sweep
class Sweep:
    def __init__(self, ctx, classes, skinfo):
        self.ctx, self.classes, self.skinfo = ctx, classes, skinfo
        self.st = {}
        self.failures = {}         # key -> replay dict (first witness)
        self.obs = {}              # class name -> set of (raised, changed)
        self.rel = {}              # (class, label, stratum) -> status
        self.accepted = {}         # program name -> list of (cls, label, tgt, extra, opts)
        self.n_attempts = 0
        self.n_shrinks = 0
        self.shrunk = {}
        self.hint = load_hint()
        self.use_hint = not ctx.thorough
        self.text_every = ctx.pick(40, 8)

    # one attempt; returns outcome kind
    def one(self, W, prog, cls, label, inst, tgt, extra, opts):
        ctx = self.ctx
        try:
            args = build_args(W.root, tgt, extra)
        except (IndexError, ValueError):
            return "stale"
        o = dyn.attempt(inst, args, opts)
        self.n_attempts += 1
        name = cls.__name__
        kind = o.kind
        changed = False
        ctx.hist("outcome", kind if not kind.startswith("other:") else "other-exception")
        if kind == "te":
            ctx.hist("rejected_by_transformation", name)
            after = dyn.Snap(W.root, with_text=False)
            d = after.diff(W.base)
            do_text = prog.with_text and (bool(d) or self.n_attempts % self.text_every == 0)
            if do_text:
                after.text = dyn.writer_text(W.root)
                d = after.diff(W.base)
            ctx.count((prog.name, name, label, tgt, extra, repr(opts)), nontrivial=True)
            if d:
                W.fresh()
                # confirm on a fresh tree (a difference seen at a periodic text comparison could
                # have been caused by an earlier attempt that the cheap views did not notice)
                o2 = dyn.attempt(inst, build_args(W.root, tgt, extra), opts)
                a2 = dyn.Snap(W.root, with_text=prog.with_text)
                d2 = a2.diff(W.base)
                if d2 or o2.kind != "te":
                    W.fresh()
                if o2.kind != "te" or not d2:
                    ctx.hist("unconfirmed_difference", name)
                    self.last = o
                    return kind
                o, after, d = o2, a2, d2
                changed = True
                if opts:
                    pre = (name, label, tuple(sorted(opts)), dyn.change_kind(W.base, after))
                    if pre in self.shrunk:
                        # same transformation / option keys / kind of change as an earlier failure:
                        # counted under that failure's (shrunk) key
                        self.ctx.hist("failures_by_key", self.shrunk[pre])
                        self.obs.setdefault(name, set()).add((True, True))
                        self.last = o
                        return kind
                    opts, o, after, d = self.shrink(W, prog, inst, tgt, extra, opts, o, after, d)
                    self.shrunk[pre] = self.key_of(name, opts, dyn.change_kind(W.base, after))
                self.failure(W, prog, cls, label, tgt, extra, opts, o, after, d)
        else:
            ctx.count((prog.name, name, label, tgt, extra, repr(opts)), nontrivial=False)
            after = dyn.Snap(W.root, with_text=False)
            if after.diff(W.base):
                changed = True
                W.fresh()
            elif kind == "accepted" and prog.with_text and dyn.writer_text(W.root) != W.base.text:
                changed = True
                W.fresh()
            if kind == "accepted":
                ctx.hist("accepted_by_transformation", name)
                if changed:
                    self.accepted.setdefault(prog.name, []).append((cls, label, tgt, extra, opts))
        if kind in ("te", "accepted"):
            self.obs.setdefault(name, set()).add((kind == "te", changed))
        o_kind = kind
        self.last = o
        return o_kind

    def shrink(self, W, prog, inst, tgt, extra, opts, o, after, d):
        """smallest sub-dictionary of `opts` with which the attempt still fails the property
        (greedy, one key at a time; every trial on a fresh tree)."""
        cur = dict(opts)
        for k in sorted(opts):
            trial = {x: v for x, v in cur.items() if x != k}
            self.n_shrinks += 1
            o2 = dyn.attempt(inst, build_args(W.root, tgt, extra), trial or None)
            a2 = dyn.Snap(W.root, with_text=prog.with_text)
            d2 = a2.diff(W.base)
            if d2:
                W.fresh()
            elif o2.kind != "te" and dyn.Snap(W.root, with_text=False).diff(W.base):
                W.fresh()
            if o2.kind == "te" and d2:
                cur, o, after, d = trial, o2, a2, d2
            elif o2.kind != "te":
                W.fresh()
        return (cur or None), o, after, d

    @staticmethod
    def key_of(name, opts, ck):
        return "%s/%s-%s-before-raise" % (name, "+".join(sorted(opts)) if opts else "noopt", ck)

    def folded(self):
        """failures whose option set strictly contains the option set of another failure of the
        same transformation and kind of change are folded into that one (same root cause)."""
        def parts(k):
            t, rest = k.split("/", 1)
            o, ck = rest[:-len("-before-raise")].rsplit("-", 1)
            return t, (frozenset() if o == "noopt" else frozenset(o.split("+"))), ck
        keep = {}
        for k, r in self.failures.items():
            t, o, ck = parts(k)
            sub = [k2 for k2 in self.failures if k2 != k and parts(k2)[0] == t and parts(k2)[2] == ck and parts(k2)[1] < o]
            if sub:
                self.failures[min(sub, key=lambda x: (len(parts(x)[1]), x))].setdefault("also_fails_with", []).append(k)
            else:
                keep[k] = r
        return keep

    def failure(self, W, prog, cls, label, tgt, extra, opts, o, after, d):
        name = cls.__name__
        key = self.key_of(name, opts, dyn.change_kind(W.base, after))
        self.ctx.hist("failures_by_key", key)
        if key in self.failures:
            return
        rep = {"property": "C26", "transformation": name, "module": cls.__module__, "constructor": label,
               "program": prog.describe(), "target": encode_target(tgt),
               "second_argument": extra, "options": repr(opts), "error": o.msg, "views_changed": d,
               "expected": "after TransformationError the tree, all symbol tables and the written code are as before",
               "observed": {}, "static_skeleton_safe": self.skinfo.get(name, {}).get("safe"),
               "how_to_replay": "read program (FortranReader / PSyFactory), node = root.children[i]... along `target`, "
                                "%s%s.apply(node%s, %s) raises TransformationError; compare FortranWriter()(root) and the "
                                "symbol tables before/after" % (name, label, ", <second_argument>" if extra else "", repr(opts))}
        if "tree" in d:
            rep["observed"]["tree_view_first_difference"] = dyn.first_diff(W.base.tree, after.tree)
        if "symtab" in d:
            rep["observed"]["symbol_tables_first_difference"] = dyn.first_diff(W.base.syms, after.syms)
        if "text" in d:
            rep["observed"]["written_code_first_difference"] = dyn.first_diff(W.base.text, after.text)
        self.failures[key] = rep

    # ---- a program
    def run_program(self, prog, full, only=None, grid_full=False):
        """`full`: try every target with options=None (else one representative per stratum that was
        not yet classified for that transformation); `only`: restrict to these class names."""
        ctx = self.ctx
        rng = ctx.rng("sweep:" + prog.name)
        W = Work(ctx, prog, self.st)
        tgts = dyn.targets(W.root)
        strata = {}
        for tg in tgts:
            try:
                s = stratum(dyn.resolve_target(W.root, tg))
            except Exception:            # pylint: disable=broad-except
                s = "?"
            strata.setdefault(s, []).append(tg)
        for s in strata:
            ctx.hist("target_strata", s.split(":")[0])
        ctx.hist("program_targets", prog.name, len(tgts))
        nrel = ctx.pick(1, 3)
        # thorough: at most 5 (seeded) targets per stratum with options=None
        full_sample = {s: [m[i] for i in sorted(rng.sample(range(len(m)), 5))] for s, m in strata.items() if len(m) > 5}
        for cls in self.classes:
            name = cls.__name__
            if only is not None and name not in only:
                continue
            grid = dyn.option_grid(cls)
            for label, inst in dyn.instances(cls):
                if inst is None:
                    ctx.hist("not_constructible", name)
                    continue
                newly, cached, shallow = [], [], []
                # quick tier: besides the strata the committed hint file lists as relevant for this
                # transformation, a few seeded other strata are tried
                extra_strata = set(rng.sample(sorted(strata), min(len(strata), 1))) if self.use_hint else set()
                for s, members in sorted(strata.items()):
                    key = (name, label, s)
                    if full:
                        cand = members if (grid_full or len(members) <= 5) else full_sample[s]
                    elif self.use_hint and key not in self.rel and hint_key(key) not in self.hint \
                            and s not in extra_strata:
                        continue
                    elif key in self.rel:
                        if self.rel[key] != "shallow":
                            cached += [(tg, ex) for tg in members[:nrel]
                                       for ex in extras_for(cls, W.root, tg, rng)[:1]]
                        continue
                    else:
                        cand = members[:1]
                    for tg in cand:
                        for ex in extras_for(cls, W.root, tg, rng):
                            k = self.one(W, prog, cls, label, inst, tg, ex, None)
                            status = "shallow"
                            if k == "accepted":
                                status = "accepted"
                            elif k == "te":
                                status = "te:" + norm_msg(self.last.msg)
                            elif k == "timeout":
                                ctx.hist("timeouts", name)
                            if key not in self.rel or self.rel[key] == "shallow":
                                self.rel[key] = status
                            (newly if status != "shallow" else shallow).append((tg, ex, status, key))
                # the modal rejection message of this transformation on this program is taken to be
                # the shallow (wrong kind of node) rejection; everything else is "relevant"
                msgs = {}
                for _, _, stt, _ in newly:
                    if stt.startswith("te:"):
                        msgs[stt] = msgs.get(stt, 0) + 1
                modal = max(msgs, key=lambda m: (msgs[m], m)) if msgs else None
                rel2 = list(cached)
                for tg, ex, stt, key in newly:
                    if stt == modal and msgs[modal] > 1:
                        shallow.append((tg, ex, stt, key))
                        if self.rel.get(key) == stt:
                            self.rel[key] = "shallow"
                    else:
                        rel2.append((tg, ex))
                # targets this transformation accepts with default options (validation passes):
                # where an option value that is set but falsy / of the wrong type can slip through
                # validation and be refused later
                acc = [(tg, ex) for tg, ex, stt, _ in newly if stt == "accepted"]
                acc += [(tg, ex) for tg, ex in cached
                        if any(self.rel.get((name, label, s0)) == "accepted" for s0, mem in strata.items() if tg in mem)]
                cap = ctx.pick(6, 40) if not grid_full else 10000
                if len(rel2) > cap:
                    rel2 = [rel2[i] for i in sorted(rng.sample(range(len(rel2)), cap))]
                for tg, ex in rel2:
                    for opts in grid[1:]:
                        self.one(W, prog, cls, label, inst, tg, ex, opts)
                if acc:
                    # generic value classes: quick = one accepted target per value (round-robin over
                    # the accepted targets), thorough = up to 2 accepted targets per value
                    gg = dyn.generic_grid(cls)
                    if not (ctx.thorough or grid_full) and W.domain:
                        # quick, PSy-layer programs: only the set-but-falsy classes
                        gg = [o for o in gg if not list(o.values())[0]]
                    for i, opts in enumerate(gg):
                        if ctx.thorough or grid_full:
                            picks = [acc[(i + j) % len(acc)] for j in range(min(2, len(acc)))]
                        else:
                            picks = [acc[i % len(acc)]]
                        for tg, ex in picks:
                            self.one(W, prog, cls, label, inst, tg, ex, opts)
                nsh = ctx.pick(1, 2) if not grid_full else 6
                for tg, ex, _, _ in shallow[:nsh]:
                    for opts in grid[1:]:
                        self.one(W, prog, cls, label, inst, tg, ex, opts)
        return W


def hint_key(key):
    return "|".join(key)


def load_hint():
    f = HERE / "corpus" / "relevance.json"
    return set(json.loads(f.read_text())) if f.exists() else set()


# ----------------------------------------------------------------------------- known findings
def replay_known(ctx, sw, classes):
    """replay every witness of known_findings.json on the tree under test."""
    byname = {c.__name__: c for c in classes}
    for kf in ctx.known_findings():
        w = kf.get("witness") or {}
        cls = byname.get(w.get("transformation"))
        if cls is None:
            continue
        pd = w["program"]
        prog = program_from_description(pd)
        try:
            W = Work(ctx, prog, sw.st)
        except Exception as err:         # pylint: disable=broad-except
            ctx.log("known finding %s: program does not build (%s)" % (kf["key"], err))
            continue
        inst = dict(dyn.instances(cls)).get(w.get("constructor", "()"))
        if inst is None:
            continue
        tgt = decode_target(w["target"])
        before = set(sw.failures)
        opts = eval(w["options"], {"__builtins__": {}}, {})   # repr of a dict of literals written by this check
        sw.one(W, prog, cls, w.get("constructor", "()"), inst, tgt, w.get("second_argument"), opts)
        new = set(sw.failures) - before
        ctx.log("known finding %s: witness %s" % (kf["key"], "reproduces" if (new or kf["key"] in sw.failures) else "does NOT reproduce"))


def program_from_description(pd):
    if pd.get("kind") == "derived":
        base = program_from_description(pd["base"])
        pre = pd["pre_transformation"]
        _, classes = translate.all_transformations()
        cls = {c.__name__: c for c in classes}[pre["class"]]
        tgt = decode_target(pre["target"])
        return Derived(base, cls, pre["ctor"], tgt, pre["extra"], eval(pre["options"], {"__builtins__": {}}, {}))
    if pd.get("path"):
        p = pd["path"]
        # witnesses name files of the tree under test relative to its test_files directory
        if "/test_files/" in p:
            p = str(corpus.test_files() / p.split("/test_files/")[1])
        return corpus.Program(pd["name"], pd["kind"], path=p, api=pd.get("api"), dm=pd.get("distributed_memory", True))
    return corpus.Program(pd["name"], pd["kind"], source=pd["source"])


# ----------------------------------------------------------------------------- main
def run(ctx):
    ctx.cov["rule"] = (
        "case = (program, transformation class + constructor variant, target node or node list, second argument, "
        "options dict); programs: 5 fixed Fortran templates, seeded vlib.fortgen loop programs, LFRic/GOcean invokes "
        "and algorithm layers from test_files, and (thorough) trees derived by one accepted transformation; targets: "
        "quick = one representative per (transformation, node stratum) with options=None, then the full option grid "
        "on every representative that was accepted or rejected for a non-modal reason, thorough = up to 5 seeded targets per stratum of "
        "the fixed templates; non-trivial = apply raised TransformationError (the antecedent of C26)")
    ctx.cov["trusted_base"] = core.BASE_TRUST + [
        "props/C26/translate.py (static ast translator) and its tables MUTATORS / PURE_REVIEWED / NONTRANS_SITES: the "
        "classification of mutating primitives is trusted, not verified (an audit heuristic runs on every translation)",
        "effect skeletons abstract apply(): only TransformationError and calls of mutating primitives are modelled; "
        "exceptions other than TransformationError are out of the property's scope",
        "dynamic comparison uses node_str()/comments of every node, str() of every symbol of every scope (+tags, "
        "argument lists, visibilities) and FortranWriter text where a writer exists (not for LFRic PSy-layer trees)"]
    ctx.assumptions = [
        "no TransformationError is raised outside the transformation modules (checked syntactically by the translator)",
        "a mutation of a freshly created (detached) object is not a mutation of the tree (it must be attached first "
        "by a call that IS classified as a mutation)"]
    os.makedirs(ctx.scratch, exist_ok=True)
    cwd = os.getcwd()

    # ---- 1. static translation
    info, terr = None, None
    try:
        text, info = translate.translate(core.REPO)
        core.write_if_changed(core.COQ / "C26" / "Gen.v", text)
    except translate.TranslateError as err:
        terr = str(err)
        ctx.log("translator failed closed: " + terr)
    skinfo = info["classes"] if info else {}
    if info:
        ctx.notes["static"] = {"transformations": len(skinfo), "safe": sum(1 for c in skinfo.values() if c["safe"]),
                               "unsafe": sorted(n for n, c in skinfo.items() if not c["safe"]),
                               "abstract_skipped": info["abstract"], "shared_function_skeletons": info["n_defs"],
                               "recursion_abstracted_as_loop": info["notes"]["recursion"]}
        ctx.log("static: %d skeletons, %d safe, %d unsafe" % (len(skinfo), ctx.notes["static"]["safe"],
                                                               len(ctx.notes["static"]["unsafe"])))

    # ---- 2. proofs
    ok, rep = (False, {"errors": ["translator failed: " + terr]}) if terr else ctx.prove()
    ctx.log("proof ok=%s discharged=%d/%d" % (ok, ctx.cov["discharged"], ctx.cov["obligations"]))

    # ---- 3. static comparison with the baseline
    basef = HERE / "static_unsafe_baseline.json"
    baseline = json.loads(basef.read_text()) if basef.exists() else {}
    new_pairs = {}
    for n, c in skinfo.items():
        known = {tuple(p) for p in baseline.get(n, [])}
        np_ = [p for p in c["pairs"] if tuple(p) not in known]
        if np_:
            new_pairs[n] = np_
    gone = sorted(n for n in baseline if n in skinfo and skinfo[n]["safe"])
    ctx.notes["static_new_unsafe_pairs"] = {n: p[:5] for n, p in new_pairs.items()}
    ctx.notes["baseline_entries_now_safe"] = gone

    # ---- 4. dynamic search
    _, classes = translate.all_transformations()
    classes = [c for c in classes if not inspect.isabstract(c)]
    sw = Sweep(ctx, classes, skinfo)
    os.chdir(ctx.scratch)
    try:
        from psyclone.configuration import Config
        Config.get().kernel_output_dir = str(ctx.scratch)
        replay_known(ctx, sw, classes)
        progs = corpus.programs(ctx)
        fixed = {n for n, _ in corpus.GENERIC}
        for prog in progs:
            n0 = sw.n_attempts
            sw.run_program(prog, full=(ctx.thorough and prog.name in fixed))
            ctx.log("program %-45s attempts=%d failures so far=%d" % (prog.name, sw.n_attempts - n0, len(sw.failures)))
        # trees derived by one accepted transformation (histories)
        rng = ctx.rng("derived")
        nder = ctx.pick(1, 3)
        for prog in [p for p in progs if p.kind == "generic"]:
            acc = sw.accepted.get(prog.name, [])
            seen, picks = set(), []
            for a in sorted(acc, key=lambda a: (a[0].__name__, a[1], repr(a[2]), repr(a[4]))):
                if a[0].__name__ not in seen:
                    seen.add(a[0].__name__)
                    picks.append(a)
            if len(picks) > nder:
                picks = [picks[i] for i in sorted(rng.sample(range(len(picks)), nder))]
            if prog.name not in fixed:
                continue
            for a in picks if ctx.thorough else []:
                dp = Derived(prog, *a)
                n0 = sw.n_attempts
                try:
                    sw.run_program(dp, full=False)
                except RuntimeError as err:
                    ctx.hist("derived_not_built", str(err)[:60])
                    continue
                ctx.log("program %-45s attempts=%d failures so far=%d" % (dp.name[:45], sw.n_attempts - n0, len(sw.failures)))
        # focused search for transformations with NEW statically unsafe pairs
        if new_pairs:
            ctx.log("new statically unsafe pairs for %s: focused search" % sorted(new_pairs))
            found_before = {k.split("/")[0] for k in sw.failures}
            # all programs, then trees derived from the fixed templates by every distinct accepted
            # transformation recorded so far (directive regions, tiled loops, ...)
            cand = list(progs)
            for prog in [p for p in progs if p.name in fixed]:
                seen = set()
                for a in sorted(sw.accepted.get(prog.name, []), key=lambda a: (a[0].__name__, a[1], repr(a[2]), repr(a[4]))):
                    if a[0].__name__ not in seen and len(seen) < 25:
                        seen.add(a[0].__name__)
                        cand.append(Derived(prog, *a))
            for prog in cand:
                todo = set(new_pairs) - {k.split("/")[0] for k in sw.failures}
                if not todo:
                    break
                try:
                    sw.run_program(prog, full=True, only=todo, grid_full=True)
                except RuntimeError as err:
                    ctx.hist("derived_not_built", str(err)[:60])
    finally:
        os.chdir(cwd)
    if os.environ.get("C26_WRITE_RELEVANCE") == "1":
        # maintenance mode (never set by ./check): refresh the quick tier's hint file
        rel = sorted(hint_key(k) for k, v in sw.rel.items() if v != "shallow")
        (HERE / "corpus").mkdir(exist_ok=True)
        (HERE / "corpus" / "relevance.json").write_text(json.dumps(rel, indent=0) + "\n")
        ctx.log("relevance hint written: %d entries" % len(rel))
    ctx.notes["attempts"] = sw.n_attempts
    ctx.notes["harness"] = sw.st
    for k, r in list(sw.failures.items())[:3]:
        ctx.sample({"failing_case": k, "transformation": r["transformation"], "options": r["options"],
                    "target": r["target"], "program": r["program"]["name"], "error": r["error"][:120]})
    ctx.sample({"example_case": {"program": "rich", "transformation": "LoopSwapTrans()", "target": ["node", [0, 0, 5]],
                                 "options": None}, "meaning": "apply; on TransformationError compare views"})

    # ---- 5. observations vs skeleton table, evaluated in Coq
    incons = []
    if ok and info:
        cases, meta = [], []
        for n, ob in sorted(sw.obs.items()):
            if n not in skinfo:
                continue
            for raised, changed in sorted(ob):
                cases.append("(%s, (%s, %s))" % (core.coq_str(n), str(raised).lower(), str(changed).lower()))
                meta.append((n, raised, changed))
        header = ("From Coq Require Import String.\nFrom PV Require Import C26.Skeleton C26.Proofs C26.Gen.\n"
                  "Definition isnil {A} (l : list A) := match l with nil => true | _ => false end.\n"
                  "Definition consistent (c : string * (bool * bool)) : bool :=\n"
                  "  match lookup_sk all_skeletons (fst c) with None => false | Some s =>\n"
                  "    let '(raised, changed) := snd c in\n"
                  "    if raised then (if changed then negb (safe s) else negb (isnil (raises s)))\n"
                  "    else (if changed then negb (isnil (muts s)) else true) end.")
        bad = ctx.coq_eval_failing(header, "string * (bool * bool)", "consistent", cases, shard=400) if cases else []
        incons = [meta[i] for i in bad]
        ctx.cov["disagreements_checked"] = len(incons)
        ctx.notes["observation_classes_checked_in_coq"] = len(cases)
    ctx.log("attempts=%d rejected(TE)=%d failures(keys)=%d skeleton/observation inconsistencies=%d"
            % (sw.n_attempts, ctx.cov["distinct_nontrivial"], len(sw.failures), len(incons)))

    # ---- 6. verdict
    reported_input = False
    final = sw.folded()
    for key, r in sorted(final.items()):
        what = "%s%s.apply(..., %s) raises TransformationError after changing the %s" % (
            r["transformation"], r["constructor"], r["options"], "/".join(r["views_changed"]))
        if ctx.finding(key, what, r):
            reported_input = True
    failing_classes = {k.split("/")[0] for k in sw.failures}
    ctx.notes["failure_keys"] = sorted(final)
    for n, raised, changed in incons:
        if raised and changed and n in failing_classes:
            # the concrete input is reported above; additionally the static classification is wrong
            ctx.violation({"property": "C26", "broken": "static skeleton of %s is `safe` but the implementation changed "
                           "the tree before raising TransformationError: the primitive classification "
                           "(props/C26/translate.py MUTATORS) is incomplete" % n,
                           "witness_keys": sorted(k for k in sw.failures if k.startswith(n + "/"))}, no_input=True)
        else:
            ctx.violation({"property": "C26", "broken": "observation (%s raised=%s changed=%s) contradicts the generated "
                           "skeleton (no raise site / no mutation site): translator or primitive table incomplete"
                           % (n, raised, changed)}, no_input=True)
    for n, pairs in sorted(new_pairs.items()):
        if n in failing_classes:
            continue      # concrete input already reported by ctx.finding above
        ctx.violation({"property": "C26", "transformation": n,
                       "broken": "generated fact unsafe_%s: apply() of %s can raise TransformationError after a mutation "
                                 "(static effect skeleton); pair(s) not on props/C26/static_unsafe_baseline.json" % (n, n),
                       "new_mutation_then_raise_pairs": pairs[:20],
                       "searched": "focused dynamic search over all programs/targets/options found no failing input"},
                      no_input=True)
    if (terr or not ok) and not reported_input:
        ctx.violation({"property": "C26", "broken": "translator failed closed" if terr else "proof obligations of Properties/C26.v",
                       "detail": terr, "proof_report": None if terr else rep}, no_input=True)
