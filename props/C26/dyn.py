"""C26 dynamic side: run every transformation on every node of a program with an option grid and, on
TransformationError, compare the written code and a canonical view of all symbol tables before and
after the attempt (the property itself, evaluated on the implementation)."""
import contextlib
import inspect
import io
import os
import re
import signal
import sys


class ApplyTimeout(Exception):
    pass


def _alarm(signum, frame):
    raise ApplyTimeout()


# ----------------------------------------------------------------------------- snapshots
def symtab_view(root):
    """canonical, order-preserving view of every symbol table below root (all scopes)."""
    from psyclone.psyir.nodes import ScopingNode
    out = []
    scopes = [root] if isinstance(root, ScopingNode) else []
    scopes += [n for n in root.walk(ScopingNode) if n is not root]
    for k, sc in enumerate(scopes):
        tab = sc.symbol_table
        ent = ["scope %d %s" % (k, type(sc).__name__)]
        for sym in tab.symbols:
            try:
                s = str(sym)
            except Exception as err:     # pylint: disable=broad-except
                s = "%s <%s unprintable: %s>" % (sym.name, type(sym).__name__, type(err).__name__)
            ent.append("  %s | %s | %s" % (type(sym).__name__, s, sym.visibility.name))
        try:
            tags = sorted((t, s.name) for t, s in tab.get_tags().items())
        except Exception:                # pylint: disable=broad-except
            tags = []
        ent.append("  tags %r" % (tags,))
        try:
            ent.append("  args %r" % ([a.name for a in tab.argument_list],))
        except Exception:                # pylint: disable=broad-except
            ent.append("  args ?")
        ent.append("  default_visibility %s" % tab.default_visibility.name)
        out.append("\n".join(ent))
    return "\n".join(out)


def tree_view(root):
    """cheap structural view of the tree: class, node_str, comments, per node in walk order
    (with depth).  A change of the written code that does not change this view is not expected;
    the writer text is compared as well whenever it is available."""
    from psyclone.psyir.nodes import Directive
    out = []

    def rec(n, d):
        try:
            s = n.node_str(colour=False)
        except Exception:                # pylint: disable=broad-except
            s = type(n).__name__
        if isinstance(n, Directive):
            # clause lists etc. that node_str() does not show
            try:
                s += " {" + n.begin_string() + "}"
            except Exception:            # pylint: disable=broad-except
                pass
        c = getattr(n, "preceding_comment", "") or ""
        ic = getattr(n, "inline_comment", "") or ""
        out.append("%d %s%s%s" % (d, s, (" !<" + c) if c else "", (" !>" + ic) if ic else ""))
        for ch in n.children:
            rec(ch, d + 1)
    rec(root, 0)
    return "\n".join(out)


def writer_text(root, writer=None):
    """FortranWriter text of the whole tree or a marker when the writer refuses the tree."""
    from psyclone.psyir.backend.fortran import FortranWriter
    try:
        return (writer or FortranWriter())(root)
    except Exception as err:             # pylint: disable=broad-except
        return "<writer failed: %s>" % type(err).__name__


class Snap:
    __slots__ = ("tree", "syms", "text")

    def __init__(self, root, with_text=True):
        self.tree = tree_view(root)
        self.syms = symtab_view(root)
        self.text = writer_text(root) if with_text else None

    def diff(self, other):
        """list of the views that differ: 'text' / 'tree' / 'symtab'."""
        d = []
        if self.text is not None and other.text is not None and self.text != other.text:
            d.append("text")
        if self.tree != other.tree:
            d.append("tree")
        if self.syms != other.syms:
            d.append("symtab")
        return d


def first_diff(a, b, ctxlines=2):
    la, lb = a.split("\n"), b.split("\n")
    for i in range(max(len(la), len(lb))):
        x = la[i] if i < len(la) else "<end>"
        y = lb[i] if i < len(lb) else "<end>"
        if x != y:
            lo = max(0, i - ctxlines)
            return {"line": i + 1, "before": la[lo:i + ctxlines + 1], "after": lb[lo:i + ctxlines + 1]}
    return None


def change_kind(before, after):
    """reason code of a change: comment / symbols / tree (coarse, computed from the views)."""
    kinds = []
    if before.tree != after.tree:
        # only comments differ?
        strip = lambda s: re.sub(r" !<.*| !>.*", "", s)  # noqa: E731
        if strip(before.tree) == strip(after.tree):
            kinds.append("comment")
        else:
            kinds.append("tree")
    if before.syms != after.syms:
        kinds.append("symbols")
    if not kinds and before.text != after.text:
        kinds.append("text")
    return "+".join(kinds)


def warm_up(root):
    """PSy-layer trees materialise loop bounds and kernel-argument symbols lazily on the first
    READ access (e.g. any dependence query inside a validate()).  Run read-only queries first so
    that the baseline view is the materialised tree: only changes beyond what a read-only query
    causes are then attributed to the rejected transformation."""
    from psyclone.core import VariablesAccessInfo
    from psyclone.psyir.nodes import Loop
    from psyclone.psyir.tools import DependencyTools
    with contextlib.redirect_stdout(io.StringIO()):
        for _ in range(2):
            for lp in root.walk(Loop):
                for a in ("start_expr", "stop_expr", "step_expr"):
                    try:
                        getattr(lp, a)
                    except Exception:        # pylint: disable=broad-except
                        pass
            try:
                VariablesAccessInfo(root)
            except Exception:                # pylint: disable=broad-except
                pass
            for lp in root.walk(Loop):
                try:
                    DependencyTools().can_loop_be_parallelised(lp)
                except Exception:            # pylint: disable=broad-except
                    pass


# ----------------------------------------------------------------------------- paths
def path_of(node, root):
    p = []
    while node is not root:
        p.append(node.position)
        node = node.parent
        if node is None:
            raise ValueError("node not under root")
    return tuple(reversed(p))


def node_at(root, path):
    n = root
    for i in path:
        n = n.children[i]
    return n


# ----------------------------------------------------------------------------- option grid
_KEY_RES = [re.compile(r'options(?:\.get\(|\[)\s*[\'"](\w+)[\'"]'),
            re.compile(r'[\'"](\w+)[\'"] (?:not )?in (?:my_|local_)?options')]


def option_keys(cls):
    keys = set()
    for k in cls.__mro__:
        if not k.__module__.startswith("psyclone"):
            continue
        try:
            src = inspect.getsource(k)
        except (OSError, TypeError):
            continue
        for rx in _KEY_RES:
            keys |= set(rx.findall(src))
    return sorted(keys)


OPTION_VALUES = {
    "verbose": [True], "allow_string": [True], "force": [True], "reprod": [True, False],
    "collapse": [2, 5, "x"], "sequential": [True], "chunksize": [4, 2, 3, 5, 8, 16, 64, 0, "x"], "tilesize": [4, 2, 3, 5, 8, 16, 64, -1, "x"],
    "nogroup": [True], "nowait": [True], "independent": [False], "gang": [True], "vector": [True],
    "default_present": [True, 3], "disable_loop_check": [True], "allow_accroutine": [True],
    "prefix": ["extract", "bad prefix!"], "region_name": [("m", "r"), "notatuple"],
    "create_driver": [False], "depth": [1, 0, "x"], "position": ["before", "after", "nowhere"],
    "fail_on_no_taskloop": [True, False], "same_space": [True], "cellshape": ["quadrilateral", "tri"],
    "element_order": [0, -1], "number_of_layers": [20, 0], "quadrature": [True, "x"],
    "enable_profiling": [True], "out_of_order": [True], "queue_number": [2], "end_barrier": [False],
    "metadata_name": ["nonexistent_meta"], "kernels": [[]], "post_var_postfix": ["_p"],
    "read_write_info": [None],
}


def option_grid(cls, rng=None, extra_unknown=True):
    """list of option dictionaries (None first)."""
    grid = [None]
    keys = option_keys(cls)
    for k in keys:
        for v in OPTION_VALUES.get(k, [True, 0, "x"]):
            grid.append({k: v})
    if len(keys) > 1:
        grid.append({k: OPTION_VALUES.get(k, [True])[0] for k in keys if k not in ("create_driver", "read_write_info")})
    if extra_unknown:
        grid.append({"not_an_option": 1})
    return grid


# value classes tried for EVERY option name a transformation reads (names derived from the sources
# by option_keys): set-but-falsy values, small/large/negative integers and wrong types
GENERIC_VALUES = [None, False, 0, "", [], True, 1, 2, 3, 10 ** 6, -1, "x", [1], {"a": 1}, 1.5]


def generic_grid(cls):
    """single-key dictionaries {key: value class} that are not already part of option_grid(cls)."""
    have = {repr(g) for g in option_grid(cls)}
    out = []
    for k in option_keys(cls):
        for v in GENERIC_VALUES:
            d = {k: v}
            if repr(d) not in have:
                out.append(d)
    return out


# ----------------------------------------------------------------------------- instances
def instances(cls):
    """list of (label, instance) for a transformation class (several constructor variants)."""
    out = []
    name = cls.__name__
    try:
        if name == "RaisePSyIR2GOceanKernTrans":
            out.append(("('compute_cu')", cls("compute_cu")))
            out.append(("('nope')", cls("nope")))
        elif name == "AssignmentTrans":
            out.append(("([])", cls([])))
        elif name in ("OMPLoopTrans", "GOceanOMPLoopTrans", "Dynamo0p3OMPLoopTrans"):
            out.append(("()", cls()))
            out.append(("(dynamic)", cls(omp_schedule="dynamic")))
            if name == "OMPLoopTrans":
                out.append(("(paralleldo)", cls(omp_directive="paralleldo")))
                out.append(("(teamsdistributeparalleldo)", cls(omp_directive="teamsdistributeparalleldo")))
        else:
            out.append(("()", cls()))
    except Exception as err:             # pylint: disable=broad-except
        out.append(("<ctor failed: %s>" % type(err).__name__, None))
    return out


def apply_arity(cls):
    """names of the positional parameters of apply before `options`."""
    ps = [p for p in inspect.signature(cls.apply).parameters.values()][1:]
    return [p.name for p in ps if p.name != "options" and p.kind in (p.POSITIONAL_ONLY, p.POSITIONAL_OR_KEYWORD)]


# ----------------------------------------------------------------------------- targets
def targets(root, max_nodes=None, rng=None):
    """list of ('node', path) / ('list', [paths]) targets of a tree."""
    from psyclone.psyir.nodes import Node, Schedule
    nodes = root.walk(Node)
    if max_nodes and len(nodes) > max_nodes and rng is not None:
        keep = set(rng.sample(range(len(nodes)), max_nodes))
        nodes = [n for i, n in enumerate(nodes) if i in keep]
    out = [("node", path_of(n, root)) for n in nodes]
    for s in root.walk(Schedule):
        ch = s.children
        if len(ch) >= 1:
            out.append(("list", [path_of(c, root) for c in ch]))
        if len(ch) >= 2:
            out.append(("list", [path_of(c, root) for c in ch[:2]]))
            out.append(("list", [path_of(c, root) for c in ch[-1:]]))
            out.append(("list", [path_of(ch[0], root), path_of(ch[-1], root)]))   # non-contiguous when len>2
    return out


def resolve_target(root, tgt):
    kind, p = tgt
    if kind == "node":
        return node_at(root, p)
    return [node_at(root, q) for q in p]


# ----------------------------------------------------------------------------- one attempt
class Outcome:
    __slots__ = ("kind", "msg", "exc")

    def __init__(self, kind, msg="", exc=None):
        self.kind, self.msg, self.exc = kind, msg, exc


def attempt(inst, args, options, timeout=10):
    """run inst.apply(*args, options) ; kind in accepted / te / other:<Exc> / timeout."""
    from psyclone.psyir.transformations import TransformationError
    old = signal.signal(signal.SIGALRM, _alarm)
    signal.setitimer(signal.ITIMER_REAL, timeout)
    try:
        with contextlib.redirect_stdout(io.StringIO()):
            inst.apply(*args, options)
        return Outcome("accepted")
    except TransformationError as err:
        try:
            msg = str(err.value)[:300]
        except Exception:                # pylint: disable=broad-except
            msg = "<unprintable>"
        return Outcome("te", msg)
    except ApplyTimeout:
        return Outcome("timeout")
    except RecursionError:
        return Outcome("other:RecursionError")
    except Exception as err:             # pylint: disable=broad-except
        return Outcome("other:" + type(err).__name__, str(err)[:200])
    finally:
        signal.setitimer(signal.ITIMER_REAL, 0)
        signal.signal(signal.SIGALRM, old)
