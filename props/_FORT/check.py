"""Self-validation of the shared MiniFortran glue (not a property; run with ./check _FORT):
 (1) vlib.minifort.interp  ==  Coq Fort.Sem.exec (vm_compute) on generated programs (trace, ctl, final store);
 (2) to_fortran -> PSyclone FortranReader -> from_psyir gives back the same program (serialiser round trip);
 (3) gfortran -fcheck=all run of the program prints the interpreter's final values (thorough, or FORT_GFORTRAN=1)."""
import os

from vlib import core, minifort as mf, fortgen


def norm_e(e):
    k = e[0]
    if k == "un":
        x = norm_e(e[2])
        if e[1] == "Neg" and x[0] == "lit":
            return ("lit", -x[1])
        return ("un", e[1], x)
    if k == "bin":
        return ("bin", e[1], norm_e(e[2]), norm_e(e[3]))
    if k in ("idx", "intr"):
        return (k, e[1], [norm_e(x) for x in e[2]])
    return e


def norm_s(ss):
    out = []
    for s in ss:
        k = s[0]
        if k == "assign":
            out.append(("assign", s[1], [norm_e(x) for x in s[2]], norm_e(s[3])))
        elif k == "if":
            out.append(("if", norm_e(s[1]), norm_s(s[2]), norm_s(s[3])))
        elif k == "do":
            out.append(("do", s[1], norm_e(s[2]), norm_e(s[3]), norm_e(s[4]), norm_s(s[5])))
        else:
            out.append(s)
    return out


def run(ctx):
    from psyclone.psyir.frontend.fortran import FortranReader
    from psyclone.psyir.nodes import Routine
    rng = ctx.rng("fort")
    n = ctx.pick(150, 1200)
    progs, texts = [], []
    for i in range(n):
        g = fortgen.Gen(rng)
        p = g.program()
        vals, bnds = g.store()
        progs.append((p, vals, bnds, g.decls()))
    bad, ncases = mf.cross_validate(ctx, [(p, v, b) for p, v, b, _ in progs])
    ctx.log("interp vs Coq exec: %d cases, %d differ" % (ncases, len(bad)))
    for i in bad[:3]:
        ctx.violation({"glue": "interp != Coq exec", "program": progs[i][0], "vals": sorted(progs[i][1].items())}, no_input=True)
    rt_bad = 0
    reader = FortranReader()
    for p, vals, bnds, decls in progs[:ctx.pick(60, 400)]:
        txt = mf.to_fortran("sub", p, decls)
        psy = reader.psyir_from_source(txt)
        back = mf.from_psyir(psy.walk(Routine)[0])
        if norm_s(back) != norm_s(p):
            rt_bad += 1
            if rt_bad <= 2:
                ctx.violation({"glue": "serialiser round trip", "text": txt, "back": back, "orig": p}, no_input=True)
        ctx.count(txt)
    ctx.log("serialiser round trips differing: %d" % rt_bad)
    if ctx.thorough or os.environ.get("FORT_GFORTRAN"):
        d = ctx.scratch / "gf"
        d.mkdir(exist_ok=True)
        gbad = 0
        todo = progs[:ctx.pick(40, 300)]
        for i, (p, vals, bnds, decls) in enumerate(todo):
            r = mf.interp(p, vals, bnds)
            if r[0] != "ok":
                continue
            (d / ("p%d.f90" % i)).write_text(fortgen.fortran_program("p%d" % i, p, decls, vals))
        core.sh("ls p*.f90 | xargs -P 16 -I{} sh -c 'gfortran -fcheck=all -O0 -o {}.x {} 2>{}.err'", cwd=d, timeout=900)
        for i, (p, vals, bnds, decls) in enumerate(todo):
            r = mf.interp(p, vals, bnds)
            if r[0] != "ok":
                continue
            rc, out = core.sh([str(d / ("p%d.f90.x" % i))], timeout=20)
            try:
                got = [int(x) for x in out.split()]
            except ValueError:
                got = out[-300:]
            exp = fortgen.expected_stdout(decls, r[1])
            if rc != 0 or got != exp:
                gbad += 1
                if gbad <= 2:
                    ctx.violation({"glue": "gfortran differs from interp", "rc": rc, "got": got, "exp": exp,
                                   "text": (d / ("p%d.f90" % i)).read_text()}, no_input=True)
        ctx.log("gfortran runs differing: %d of %d" % (gbad, len(todo)))
        ctx.notes["gfortran_programs"] = len(todo)
    ctx.cov["rule"] = "random MiniFortran programs (vlib/fortgen.py); glue self-validation"
    ctx.cov["obligations"] = 1
    ctx.cov["discharged"] = 1
    ctx.cov["checker_cmd"] = "coqc vm_compute of Fort.Sem.exec on generated cases"
    ctx.sample({"program": mf.to_fortran("sub", progs[0][0], progs[0][3])})
