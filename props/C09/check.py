"""C09 — OpenMP-parallelised loops compute the serial result on any schedule.

Model: coq/C09/Model.v (access lists, infer_sharing_attributes, ParallelLoopTrans.validate, thread-level
iteration-granularity semantics omp_exec, sufficient condition safe).  Theorems: coq/Properties/C09.v.

Tie = correspondence.  Generated loops -> Fortran text -> PSyclone reader -> real OMPParallelLoopTrans /
OMPLoopTrans(paralleldo) without force -> clause lists read back from the written `!$omp parallel do`
line and from infer_sharing_attributes -> compared with the model (vm_compute): (1) infer on every loop
(forced application, and on parallel regions `pre-statements; !$omp do loop`), (2) the verdict,
(3) safe_with(impl clauses) to bucket every accepted loop as covered-by-theorem / gap.
The property itself is evaluated on every accepted loop: the ORIGINAL loop body is executed by an
interpreter under realisable schedules (every partition of the iterations over threads that the
enumeration reaches, every interleaving for <= 5 iterations, sampled beyond) with private copies
poisoned, firstprivate copies initialised at region entry, and all shared variables compared with the
serial run over a grid of stores.  Thorough tier: the OpenMP program written by FortranWriter is
compiled with gfortran -fopenmp and run with OMP_NUM_THREADS 1..8 x static/dynamic/guided.
Loops with array-section assignments (c(lo1:hi1, i+-d) = c(lo2:hi2, i+-e) + ...) are harness-only: MiniFortran /
the Coq model have no sections, so they skip the model comparisons and are evaluated by the search (desugared with
Fortran array-assignment semantics: all right-hand-side elements into temporaries, then the stores) and gfortran."""
import itertools
import json
import os
import re

from vlib import core, minifort as mf

HERE = os.path.dirname(os.path.abspath(__file__))

LOOPVAR = "i"
INNER = ["j", "k"]
RO_SCALARS = ["n", "m"]
TMP_SCALARS = ["s", "t", "u", "last"]
ARR1 = ["a", "b", "c"]
ARR2 = ["d", "e"]
LB, UB = -6, 16
# read-only scalars whose names collide with names the dependence analysis / transformations invent:
# the distance symbol d_<loopvar>, d<k>_<loopvar> of _get_dependency_distance, and names PSyclone creates
COLLIDE = ["d_i", "d1_i", "d_j", "d_ji", "d1_ji", "idx", "loop_start", "tmp", "th_idx", "nthreads"]
ALT_LOOPVARS = ["ji", "jj"]            # NEMO-style loop variables (so that d_ji is the distance symbol)
DECLS = ([(v, "integer", []) for v in [LOOPVAR] + INNER + ALT_LOOPVARS + RO_SCALARS + TMP_SCALARS + COLLIDE] +
         [(a, "integer", [(LB, UB)]) for a in ARR1] + [(a, "integer", [(LB, UB), (LB, UB)]) for a in ARR2])
BNDS = {a: [(LB, UB)] for a in ARR1}
BNDS.update({a: [(LB, UB), (LB, UB)] for a in ARR2})


# ---------------------------------------------------------------------------------- generator
def lit(c):
    return ("lit", c)


def var(v):
    return ("var", v)


def off(v, c):
    if c == 0:
        return var(v)
    return ("bin", "Add" if c > 0 else "Sub", var(v), lit(abs(c)))


# ---- array sections (harness-only extension: not in coq/Fort/Syntax.v).  A subscript may be
# ("rng", lo, hi, n): the section lo:hi of constant extent n (lo, hi literals or loopvar +- c).
def rng(lo, n):
    """section of n elements starting at expression lo"""
    if lo[0] == "lit":
        return ("rng", lo, lit(lo[1] + n - 1), n)
    base, c = (lo[2][1], lo[3][1] * (1 if lo[1] == "Add" else -1)) if lo[0] == "bin" else (lo[1], 0)
    return ("rng", lo, off(base, c + n - 1), n)


def _map_tree(x, f):
    """rebuild a tuple/list tree bottom-up, applying f to every tuple"""
    if isinstance(x, list):
        return [_map_tree(q, f) for q in x]
    if isinstance(x, tuple):
        return f(tuple(_map_tree(q, f) for q in x))
    return x


# EXPONENT (harness-only, like sections): ("intr", "IExponent", [e]) is written exponent(real(e)) and evaluates to
# floor(log2|e|)+1 (0 for e = 0) = |e|.bit_length().  vlib.minifort's evaluator is extended in this process only.
_mf_ev = mf.ev


def _ev_with_exponent(st, e, reads):
    if e[0] == "intr" and e[1] == "IExponent":
        return abs(_ev_with_exponent(st, e[2][0], reads)).bit_length()
    return _mf_ev(st, e, reads)


mf.ev = _ev_with_exponent


def has_sections(x):
    """harness-only syntax: an array section or EXPONENT"""
    if isinstance(x, (list, tuple)):
        if isinstance(x, tuple) and x and (x[0] == "rng" or (x[0] == "intr" and x[1] == "IExponent")):
            return True
        return any(has_sections(q) for q in x)
    return False


def has_exponent(x):
    if isinstance(x, (list, tuple)):
        if isinstance(x, tuple) and x and x[0] == "intr" and x[1] == "IExponent":
            return True
        return any(has_exponent(q) for q in x)
    return False


def text_form(stmts):
    """sections printed as lo:hi (a pseudo variable named 'lo:hi' for vlib.minifort.to_fortran)"""
    def f(t):
        if t and t[0] == "rng":
            return ("var", "%s:%s" % (mf.expr_to_fortran(t[1]), mf.expr_to_fortran(t[2])))
        if t and t[0] == "intr" and t[1] == "IExponent":
            return ("var", "exponent(real(%s))" % mf.expr_to_fortran(t[2][0]))
        return t
    return _map_tree(stmts, f)


def _elem(x, k):
    """element k of every section inside x"""
    def f(t):
        if t and t[0] == "rng":
            lo = t[1]
            if lo[0] == "lit":
                return lit(lo[1] + k)
            return lo if k == 0 else ("bin", "Add", lo, lit(k))
        return t
    return _map_tree(x, f)


def _extent(x):
    if isinstance(x, (list, tuple)):
        if isinstance(x, tuple) and x and x[0] == "rng":
            return x[3]
        for q in x:
            n = _extent(q)
            if n:
                return n
    return 0


def desugar(stmts, temps):
    """Fortran array-assignment semantics with scalar statements: every element of the right-hand side
    is evaluated into a temporary (zt<k>, recorded in `temps`), then the elements are stored."""
    out = []
    for st in stmts:
        k = st[0]
        if k == "assign" and _extent(st):
            n = _extent(st)
            for q in range(n):
                tv = "zt%d" % q
                if tv not in temps:
                    temps.append(tv)
                out.append(("assign", tv, [], _elem(st[3], q)))
            for q in range(n):
                out.append(("assign", st[1], _elem(st[2], q), var("zt%d" % q)))
        elif k == "if":
            out.append(("if", st[1], desugar(st[2], temps), desugar(st[3], temps)))
        elif k == "do":
            out.append(("do", st[1], st[2], st[3], st[4], desugar(st[5], temps)))
        else:
            out.append(st)
    return out


def section_arrays(x, acc=None):
    """names of the arrays accessed through a section"""
    acc = set() if acc is None else acc
    if isinstance(x, tuple) and x and x[0] in ("idx", "assign") and any(isinstance(q, tuple) and q and q[0] == "rng" for q in x[2]):
        acc.add(x[1])
    if isinstance(x, (list, tuple)):
        for q in x:
            section_arrays(q, acc)
    return acc


class LoopGen:
    """Loops over i with scalars written before read / read before written / conditionally written /
    written once, arrays with independent and dependent subscripts, inner loops (also guarded or
    zero-trip), index scalars."""

    def __init__(self, rng):
        self.r = rng
        self.sections = True
        self.lv = LOOPVAR

    def sub1(self, env, role):
        """one subscript; role 'w' (written array) prefers i-based subscripts"""
        r = self.r
        c = r.random()
        if c < (0.72 if role == "w" else 0.5):
            return off(self.lv, r.choice([0, 0, 0, 0, 1, -1, 2]))
        if c < 0.82 and env["inner"]:
            return off(r.choice(env["inner"]), r.choice([0, 0, 1]))
        if c < 0.88:
            return lit(r.randint(1, 4))
        if c < 0.91:
            return off(r.choice(RO_SCALARS), r.choice([0, 1]))
        if c < 0.95:
            # loopvar +- a run-time offset whose name collides with an invented name (d_i, d1_i, idx, ...)
            nmz = r.choice(["d_" + self.lv, "d_" + self.lv, "d1_" + self.lv] + COLLIDE)
            return ("bin", r.choice(["Add", "Add", "Sub"]), var(self.lv), var(nmz))
        if c < 0.97 and env["tmps"]:
            return var(r.choice(env["tmps"]))        # index scalar (values kept small by the stores)
        c2 = r.random()
        if c2 < 0.25 and env["tmps"]:
            return ("bin", "Add", var(self.lv), var(r.choice(env["tmps"])))      # i + (loop-variant scalar)
        if c2 < 0.4:
            return ("bin", "Div", var(self.lv), lit(2))                           # i / 2
        return ("bin", "Mul", lit(2), var(self.lv)) if c2 < 0.7 else \
            ("bin", "Add", var(self.lv), var(r.choice(RO_SCALARS)))

    def ref(self, env, role, arrays=None):
        r = self.r
        a = r.choice(arrays or (ARR1 + ARR1 + ARR2))
        if a in ARR1:
            return ("idx", a, [self.sub1(env, role)])
        s1 = self.sub1(env, role)
        s2 = off(r.choice(env["inner"]), 0) if env["inner"] and r.random() < 0.6 else self.sub1(env, "r")
        return ("idx", a, [s1, s2] if r.random() < 0.75 else [s2, s1])

    def expr(self, env, depth=0):
        r = self.r
        c = r.random()
        if depth >= 2 or c < 0.45:
            c2 = r.random()
            if c2 < 0.2:
                return lit(r.randint(-2, 4))
            if c2 < 0.55:
                pool = TMP_SCALARS[:3] + RO_SCALARS + [self.lv] + env["inner"] + [r.choice(COLLIDE)]
                if env["tmps"] and r.random() < 0.6:
                    pool = env["tmps"]    # a temporary written earlier in the body
                elif r.random() < 0.04:
                    pool = INNER          # an inner loop variable read outside its loop
                return var(r.choice(pool))
            return self.ref(env, "r", arrays=["a", "a", "e", "a", "e", "b", "c", "d"] if r.random() < 0.85 else None)
        if c < 0.9:
            return ("bin", r.choice(["Add", "Sub", "Mul", "Add"]), self.expr(env, depth + 1), self.expr(env, depth + 1))
        if c < 0.94:
            return ("intr", r.choice(["IMin", "IMax", "ISign"]), [self.expr(env, depth + 1), self.expr(env, depth + 1)])
        if c < 0.96:
            return ("intr", "IMod", [self.expr(env, depth + 1), lit(r.choice([2, 3]))])
        if c < 0.975 and self.sections:
            return ("intr", "IExponent", [self.expr(env, depth + 1)])       # harness-only
        return ("intr", "IAbs", [self.expr(env, depth + 1)])

    def cond(self, env):
        r = self.r
        return ("bin", r.choice(["Lt", "Gt", "Ge", "Eq", "Ne"]), self.expr(env, 1),
                lit(r.randint(-1, 2)) if r.random() < 0.6 else self.expr(env, 1))

    def section_ref(self, env, a, lo, n, other):
        """a(lo:lo+n-1 [, other]) with the section in a random dimension of a 2-D array"""
        if a in ARR1:
            return ("idx", a, [rng(lo, n)])
        return ("idx", a, [rng(lo, n), other] if self.r.random() < 0.7 else [other, rng(lo, n)])

    def section_assign(self, env):
        """c(lo1:hi1, i+-d) = c(lo2:hi2, i+-e) + ... : identical / overlapping / disjoint literal sections,
        sections in the loop-variable dimension, 1-D and 2-D"""
        r = self.r
        n = r.choice([2, 3, 3])
        in_loop_dim = r.random() < 0.15
        lo = off(self.lv, r.choice([0, 1, -1])) if in_loop_dim else lit(r.randint(1, 4))
        tgt = r.choice(["d", "d", "d", "e", "b", "c"])
        other = self.sub1(env, "w")
        lhs = self.section_ref(env, tgt, lo, n, other)

        def leaf():
            c = r.random()
            if c < 0.2:
                return lit(r.randint(1, 3))
            if c < 0.3:
                return var(r.choice(env["tmps"] or RO_SCALARS))
            a = tgt if r.random() < 0.55 else r.choice(["a", "e", "d", "e"])
            if in_loop_dim:
                lo2 = off(self.lv, r.choice([0, 0, 1, -1]))
            else:
                lo2 = lit(max(1, lo[1] + r.choice([0, 0, 1, -1, n, -n, 2])))
            oth2 = other if r.random() < 0.4 else off(self.lv, r.choice([0, 0, -1, 1]))
            if a in ARR2 and tgt in ARR2 and r.random() < 0.8:      # same layout as the target
                pos = [q[0] == "rng" for q in lhs[2]].index(True)
                return ("idx", a, [rng(lo2, n), oth2] if pos == 0 else [oth2, rng(lo2, n)])
            return self.section_ref(env, a, lo2, n, oth2)
        rhs = leaf() if r.random() < 0.4 else ("bin", r.choice(["Add", "Add", "Sub", "Mul"]), leaf(), leaf())
        return ("assign", lhs[1], lhs[2], rhs)

    def assign(self, env):
        r = self.r
        if self.sections and r.random() < 0.11:
            return self.section_assign(env)
        c = r.random()
        if c < 0.55:
            t = self.ref(env, "w", arrays=["b", "b", "c", "d", "d"])
            return ("assign", t[1], t[2], self.expr(env))
        v = r.choice(TMP_SCALARS[:3] if r.random() < 0.85 else TMP_SCALARS)
        if v not in env["tmps"]:
            env["tmps"].append(v)
        return ("assign", v, [], self.expr(env))

    def stmt(self, env, depth):
        r = self.r
        c = r.random()
        if c < 0.62 or depth >= 2:
            return self.assign(env)
        if c < 0.82:
            th = self.block(env, depth + 1, r.randint(1, 2))
            el = self.block(env, depth + 1, r.randint(1, 2)) if r.random() < 0.3 else []
            return ("if", self.cond(env), th, el)
        free = [v for v in INNER if v not in env["inner"]]
        if not free:
            return self.assign(env)
        v = free[0]
        hi = r.choice([lit(2), lit(3), var("m"), lit(3)])
        env2 = dict(env, inner=env["inner"] + [v])
        body = self.block(env2, depth + 1, r.randint(1, 2))
        return ("do", v, lit(1), hi, lit(1), body)

    def block(self, env, depth, n):
        return [self.stmt(env, depth) for _ in range(n)]

    def loop(self, sections=True):
        r = self.r
        self.sections = sections
        lo, hi, st = r.choice([(lit(1), lit(4), lit(1)), (lit(1), lit(3), lit(1)), (lit(1), var("n"), lit(1)),
                               (lit(2), lit(5), lit(1)), (lit(1), lit(5), lit(2)), (lit(4), lit(1), lit(-1)),
                               (lit(1), lit(5), lit(1)), (lit(1), var("n"), lit(1)), (lit(1), lit(6), lit(1))])
        if r.random() < 0.08:
            hi = var(r.choice(["nthreads", "idx", "loop_start"]))       # colliding name as a loop bound
            lo, st = lit(1), lit(1)
        self.lv = LOOPVAR if r.random() < 0.85 else r.choice(ALT_LOOPVARS)
        env = {"inner": [], "tmps": []}
        body = self.block(env, 0, r.choice([1, 2, 2, 3, 3, 4]))
        return ("do", self.lv, lo, hi, st, body)

    def pre(self):
        """statements in front of the loop inside a parallel region (region form, infer only)"""
        r = self.r
        out = []
        for _ in range(r.choice([0, 1, 1, 2])):
            v = r.choice(TMP_SCALARS[:3])
            e = r.choice([lit(3), var(r.choice(TMP_SCALARS[:3] + RO_SCALARS)), ("idx", "a", [lit(2)])])
            out.append(("assign", v, [], e))
        return out


# targeted shapes (run first on every seed; the first entries are the witnesses of the known findings)
def _do(body, lo=1, hi=4):
    return ("do", "i", lit(lo), lit(hi) if isinstance(hi, int) else hi, lit(1), body)


A_I = ("idx", "a", [var("i")])
SHAPES = [
    ("written-once", _do([("assign", "last", [], A_I)])),
    ("cond-firstprivate", _do([("if", ("bin", "Gt", A_I, lit(0)), [("assign", "t", [], A_I)], []),
                               ("assign", "b", [var("i")], var("t"))])),
    ("inner-loop-write", _do([("do", "j", lit(1), var("m"), lit(1), [("assign", "t", [], ("idx", "a", [var("j")]))]),
                              ("assign", "b", [var("i")], var("t"))])),
    ("guarded-inner-loop-write", _do([("if", ("bin", "Gt", A_I, lit(0)),
                                       [("do", "j", lit(1), lit(2), lit(1), [("assign", "t", [], ("idx", "a", [var("j")]))])], []),
                                      ("assign", "b", [var("i")], var("t"))])),
    ("inner-loopvar-read-first", _do([("assign", "b", [var("i")], var("j")),
                                      ("do", "j", lit(1), lit(3), lit(1), [("assign", "d", [var("i"), var("j")], lit(1))])])),
    ("inner-loopvar-after-guard", _do([("if", ("bin", "Gt", A_I, lit(0)),
                                        [("do", "j", lit(1), lit(2), lit(1), [("assign", "d", [var("i"), var("j")], lit(1))])], []),
                                       ("assign", "b", [var("i")], var("j"))])),
    ("cond-written-once", _do([("if", ("bin", "Gt", A_I, lit(0)), [("assign", "last", [], var("i"))], [])])),
    ("private-tmp", _do([("assign", "t", [], A_I), ("assign", "b", [var("i")], ("bin", "Add", var("t"), lit(1)))])),
    ("if-else-firstprivate", _do([("if", ("bin", "Gt", A_I, lit(0)), [("assign", "t", [], var("i"))], [("assign", "t", [], lit(2))]),
                                  ("assign", "b", [var("i")], var("t"))])),
    ("reduction", _do([("assign", "s", [], ("bin", "Add", var("s"), A_I))])),
    ("read-then-write", _do([("assign", "b", [var("i")], var("t")), ("assign", "t", [], A_I)])),
    ("stencil", _do([("assign", "a", [var("i")], ("idx", "a", [off("i", -1)]))], lo=2, hi=5)),
    ("nested-2d", _do([("do", "j", lit(1), lit(3), lit(1),
                        [("assign", "t", [], ("idx", "e", [var("i"), var("j")])),
                         ("assign", "d", [var("i"), var("j")], ("bin", "Mul", var("t"), lit(2)))])])),
    ("variable-trip", _do([("assign", "t", [], ("bin", "Add", A_I, var("n"))), ("assign", "c", [off("i", 1)], var("t"))], hi=var("n"))),
    ("const-subscript-write", _do([("assign", "b", [lit(3)], A_I)])),
    ("index-scalar", _do([("assign", "t", [], A_I), ("assign", "b", [("bin", "Add", var("i"), var("t"))], var("i"))])),
    ("div-subscript", _do([("assign", "b", [("bin", "Div", var("i"), lit(2))], var("i"))])),
    # run-time offsets named like the analysis' fresh distance symbol d_<loopvar> / d<k>_<loopvar>
    ("distance-symbol-alias", _do([("assign", "a", [var("i")], ("idx", "a", [("bin", "Add", var("i"), var("d_i"))]))], lo=2, hi=5)),
    ("distance-symbol-alias-d1", _do([("assign", "a", [var("i")], ("bin", "Add", ("idx", "a", [("bin", "Add", var("i"), var("d1_i"))]), var("d_i")))], lo=2, hi=5)),
    ("distance-symbol-alias-minus", _do([("assign", "a", [var("i")], ("idx", "a", [("bin", "Sub", var("i"), var("d_i"))]))], lo=2, hi=5)),
    ("distance-symbol-alias-ji", ("do", "ji", lit(2), lit(5), lit(1),
                                  [("assign", "b", [var("ji")], ("bin", "Add", ("idx", "b", [("bin", "Add", var("ji"), var("d_ji"))]), lit(1)))])),
    ("distance-symbol-write-side", _do([("assign", "b", [("bin", "Add", var("i"), var("d_i"))], ("idx", "a", [var("i")]))])),
    # the carried read / the only read of a temporary sits in the argument of an elemental intrinsic
    ("exponent-carried", _do([("assign", "b", [var("i")], ("bin", "Add", A_I, ("intr", "IExponent", [("idx", "b", [off("i", -1)])])))], lo=2, hi=5)),
    ("exponent-only-read-of-temp", _do([("assign", "t", [], A_I), ("assign", "b", [var("i")], ("intr", "IExponent", [var("t")]))])),
    ("abs-carried", _do([("assign", "b", [var("i")], ("bin", "Add", A_I, ("intr", "IAbs", [("idx", "b", [off("i", -1)])])))], lo=2, hi=5)),
    ("sign-mod-only-read-of-temp", _do([("assign", "t", [], A_I),
                                        ("assign", "b", [var("i")], ("intr", "ISign", [("intr", "IMod", [var("t"), lit(3)]), var("t")]))])),
    # array sections (harness-only): carried through overlapping / identical / disjoint sections, same column,
    # backward overlap inside one iteration (needs evaluate-all-then-store), section in the loop dimension
    ("section-overlap-carried", _do([("assign", "d", [rng(lit(2), 3), var("i")],
                                      ("bin", "Add", ("idx", "d", [rng(lit(3), 3), off("i", -1)]), lit(1)))], lo=2, hi=5)),
    ("section-identical-carried", _do([("assign", "d", [rng(lit(2), 3), var("i")],
                                        ("bin", "Add", ("idx", "d", [rng(lit(2), 3), off("i", -1)]), lit(1)))], lo=2, hi=5)),
    ("section-disjoint-carried", _do([("assign", "d", [rng(lit(1), 2), var("i")], ("idx", "d", [rng(lit(4), 2), off("i", -1)]))], lo=2, hi=5)),
    ("section-same-column-backward", _do([("assign", "d", [rng(lit(3), 3), var("i")],
                                           ("bin", "Mul", ("idx", "d", [rng(lit(2), 3), var("i")]), lit(2)))])),
    ("section-row", _do([("assign", "d", [var("i"), rng(lit(2), 3)], ("idx", "e", [off("i", 1), rng(lit(1), 3)]))])),
    ("section-loop-dimension", _do([("assign", "b", [rng(var("i"), 2)], ("idx", "a", [rng(var("i"), 2)]))])),
    ("section-1d-overlap-other-array", _do([("assign", "t", [], A_I),
                                             ("assign", "d", [rng(lit(1), 3), var("i")],
                                              ("bin", "Add", ("idx", "a", [rng(lit(2), 3)]), var("t")))])),
]


# ---------------------------------------------------------------------------------- implementation
class Impl:
    def __init__(self):
        from psyclone.psyir.frontend.fortran import FortranReader
        from psyclone.psyir.backend.fortran import FortranWriter
        self.reader = FortranReader()
        self.writer = FortranWriter()

    def parse(self, stmts):
        from psyclone.psyir.nodes import Routine
        txt = mf.to_fortran("sub", text_form(stmts), DECLS)
        psy = self.reader.psyir_from_source(txt)
        return psy, psy.walk(Routine)[0], txt

    @staticmethod
    def names(symbols):
        return sorted(s.name.lower() for s in symbols)

    def run_loop(self, loop, variant):
        """-> dict(seen=tuple as PSyclone read it, accepted, why, clauses=(private, fprivate) from the written
        directive line, infer=(p, f, ns) of the accepted directive, forced=(p, f, ns) under force=True, text)"""
        from psyclone.psyir.nodes import Loop, OMPParallelDoDirective
        from psyclone.psyir.transformations import TransformationError
        from psyclone.transformations import OMPParallelLoopTrans
        from psyclone.psyir.transformations import OMPLoopTrans
        from psyclone.errors import GenerationError
        from psyclone.psyir.backend.visitor import VisitorError

        def trans():
            return OMPParallelLoopTrans() if variant == 0 else OMPLoopTrans(omp_directive="paralleldo")
        out = {"variant": "OMPParallelLoopTrans" if variant == 0 else "OMPLoopTrans(paralleldo)"}
        psy, routine, txt = self.parse([loop])
        out["source"] = txt
        node = routine.walk(Loop)[0]
        out["src"] = loop
        out["temps"] = []
        if has_sections(loop):
            # array sections are outside coq/Fort/Syntax.v: no model comparison; the search runs the desugared body
            out["seen"] = None
            out["sem"] = desugar([loop], out["temps"])[0]
            out["section_arrays"] = sorted(section_arrays(loop))
        else:
            out["seen"] = mf.stmt_from_psyir(node)
            out["sem"] = out["seen"]
            out["section_arrays"] = []
        try:
            trans().apply(node)
            out["accepted"] = True
        except TransformationError as e:
            out["accepted"] = False
            msg = str(e.value) if hasattr(e, "value") else str(e)
            m = re.search(r"(read first|only written once|write-write race|are dependent|CodeBlock|Return)", msg)
            out["why"] = m.group(1) if m else msg.replace("\n", " ")[:80]
        except Exception as e:      # pylint: disable=broad-except
            # validate crashed (e.g. TypeError in SymbolicMaths.never_equal when a section meets a scalar
            # subscript): the loop is not accepted, the property says nothing; counted in the histogram
            out["accepted"] = False
            out["why"] = "internal error " + type(e).__name__
        if out["accepted"]:
            d = routine.walk(OMPParallelDoDirective)[0]
            p, f, ns = d.infer_sharing_attributes()
            out["infer"] = (self.names(p), self.names(f), self.names(ns))
            try:
                text = self.writer(psy)
                out["text"] = text
                line = [ln for ln in text.split("\n") if "!$omp parallel do" in ln][0]
                mp = re.search(r"(?<!first)private\(([^)]*)\)", line)
                mfp = re.search(r"firstprivate\(([^)]*)\)", line)
                out["clauses"] = (sorted(x.strip().lower() for x in mp.group(1).split(",")) if mp else [],
                                  sorted(x.strip().lower() for x in mfp.group(1).split(",")) if mfp else [])
                out["directive_line"] = line.strip()
            except (GenerationError, VisitorError) as e:
                # accepted, but no OpenMP program can be written (symbols needing synchronisation)
                out["clauses"] = None
                out["why"] = "accepted but code generation fails: " + str(e).replace("\n", " ")[-160:]
        # forced application on a fresh tree: infer_sharing_attributes on loops validate refuses
        out["forced"] = None
        if out["accepted"]:
            return out
        psy2, routine2, _ = self.parse([loop])
        node2 = routine2.walk(Loop)[0]
        try:
            trans().apply(node2, {"force": True})
            d2 = routine2.walk(OMPParallelDoDirective)[0]
            p, f, ns = d2.infer_sharing_attributes()
            out["forced"] = (self.names(p), self.names(f), self.names(ns))
        except Exception as e:      # pylint: disable=broad-except
            out["forced"] = None
        return out

    def run_region(self, pre, loop):
        """parallel region  pre; !$omp do loop : -> (region body as read back, (p, f, ns)) or None"""
        from psyclone.psyir.nodes import Loop, OMPParallelDirective
        from psyclone.psyir.transformations import TransformationError, OMPLoopTrans
        from psyclone.transformations import OMPParallelTrans
        psy, routine, txt = self.parse(pre + [loop])
        node = routine.walk(Loop)[0]
        try:
            OMPLoopTrans().apply(node, {"force": True})
            OMPParallelTrans().apply(routine.children[:])
        except (TransformationError, NotImplementedError):
            return None
        d = routine.walk(OMPParallelDirective)[0]
        p, f, ns = d.infer_sharing_attributes()
        return mf.stmts_from_psyir(d.dir_body.children), (self.names(p), self.names(f), self.names(ns)), txt


# ---------------------------------------------------------------------------------- semantics (search)
def scalar_names(loop):
    return sorted(v for v in mf.all_names([loop]) if v not in BNDS)


def iter_count(loop, st):
    lo = mf.ev(st, loop[2], [])
    hi = mf.ev(st, loop[3], [])
    stp = mf.ev(st, loop[4], [])
    if stp == 0:
        raise mf.FaultExc("zerostep")
    return lo, stp, max(0, mf._quot(hi - lo + stp, stp))


def omp_run(loop, vals, private, fprivate, sched, junk):
    """mirror of Model.omp_exec: sched = [(thread, iteration index)]; returns the final common store or None"""
    x, body = loop[1], loop[5]
    s = mf.Store(vals, BNDS)
    lo, stp, n = iter_count(loop, s)
    P = [x] + [p for p in private if p != x] + list(fprivate)
    T = {}
    for tid, k in sched:
        if tid not in T:
            T[tid] = {p: (vals.get((p, ()), 0) if p in fprivate else junk) for p in P}
        for p in P:
            s.vals[(p, ())] = T[tid][p]
        s.vals[(x, ())] = lo + k * stp
        ctl = mf.run(body, s, [], [100000])
        if ctl in ("X", "R"):
            return None
        for p in P:
            T[tid][p] = s.vals.get((p, ()), 0)
    return s, set(P)


def shared_diff(s_ser, s_omp, P):
    """locations of non-privatised names on which the two final stores differ"""
    out = []
    for loc in sorted(set(s_ser.vals) | set(s_omp.vals)):
        if loc[0] in P:
            continue
        if s_ser.get(loc) != s_omp.get(loc):
            out.append((loc, s_ser.get(loc), s_omp.get(loc)))
    return out


def merges(lists):
    """all interleavings of the given sequences (each keeps its own order)"""
    lists = [l for l in lists if l]
    if not lists:
        yield []
        return
    for idx, l in enumerate(lists):
        rest = lists[:idx] + [l[1:]] + lists[idx + 1:]
        for m in merges(rest):
            yield [l[0]] + m


def schedules(n, rng, cap):
    """realisable executions: a partition of 0..n-1 over threads, each thread running its iterations in
    increasing order, threads interleaved arbitrarily at iteration granularity.  Thread counts 1..min(n,8)."""
    out = []
    if n == 0:
        return [[]]
    assigns = []
    for T in range(1, min(n, 8) + 1):
        size = -(-n // T)
        assigns.append([min(k // size, T - 1) for k in range(n)])          # static blocks
        assigns.append([k % T for k in range(n)])                            # static,1 / cyclic
    assigns.append(list(range(n)))                                           # one iteration per thread
    for _ in range(3):
        T = rng.randint(1, min(n, 8))
        assigns.append([rng.randrange(T) for _ in range(n)])                 # dynamic / guided outcomes
    seen = set()
    for asg in assigns:
        key = tuple(asg)
        if key in seen:
            continue
        seen.add(key)
        per = {}
        for k, t in enumerate(asg):
            per.setdefault(t, []).append((t, k))
        seqs = list(per.values())
        if n <= 5:
            allm = list(itertools.islice(merges(seqs), 200))
        else:
            allm = []
            for _ in range(6):
                pools = [list(q) for q in seqs]
                m = []
                while any(pools):
                    q = rng.choice([q for q in pools if q])
                    m.append(q.pop(0))
                allm.append(m)
        out += allm
    # dedupe, cap (keep a deterministic spread)
    uniq, seen = [], set()
    for s in out:
        key = tuple(s)
        if key not in seen:
            seen.add(key)
            uniq.append(s)
    if len(uniq) > cap:
        step = len(uniq) / float(cap)
        uniq = [uniq[int(i * step)] for i in range(cap)]
    return uniq


def make_stores(rng, count):
    stores = []
    for idx in range(count):
        vals = {}
        mode = idx % 4
        for v in [LOOPVAR] + INNER + TMP_SCALARS:
            vals[(v, ())] = rng.randint(-2, 3) if mode else 0
        for v in ALT_LOOPVARS:
            vals[(v, ())] = 0
        for v in COLLIDE:
            vals[(v, ())] = rng.choice([1, -1, 2, 1, -2, 0])
        vals[("nthreads", ())] = [4, 3, 5, 2][idx % 4]
        vals[("idx", ())] = [2, 4, 1, 3][idx % 4]
        vals[("loop_start", ())] = [3, 1, 4, 2][idx % 4]
        vals[("n", ())] = [3, 4, 0, 5, 1, 2][idx % 6]
        vals[("m", ())] = [2, 0, 3, 1][idx % 4]
        for a in ARR1:
            for k in range(LB, UB + 1):
                vals[(a, (k,))] = rng.randint(-3, 3) if mode != 1 else (1 if k % 2 else -1)
        for a in ARR2:
            for k in range(LB, UB + 1):
                for l2 in range(LB, UB + 1):
                    vals[(a, (k, l2))] = rng.randint(-3, 3)
        stores.append(vals)
    return stores


def per_iteration_footprints(loop, vals):
    """serial run, one iteration at a time: [(exposed reads, writes)] per iteration (sets of locations)"""
    x, body = loop[1], loop[5]
    s = mf.Store(vals, BNDS)
    lo, stp, n = iter_count(loop, s)
    fps = []
    for k in range(n):
        s.vals[(x, ())] = lo + k * stp
        tr = []
        mf.run(body, s, tr, [100000])
        written, exposed = set(), set()
        for ev, loc in tr:
            if ev == "R" and loc not in written:
                exposed.add(loc)
            elif ev == "W":
                written.add(loc)
        exposed.discard((x, ()))
        fps.append((exposed, written))
    return fps


def count_scalar_accesses(loop, v):
    """number of accesses reference_accesses records for scalar v in the loop (incl. loop-variable WRITE+READ)"""
    n = 0

    def e_(e):
        nonlocal n
        k = e[0]
        if k == "var":
            n += e[1] == v
        elif k == "idx":
            for q in e[2]:
                e_(q)
        elif k == "un":
            e_(e[2])
        elif k == "bin":
            e_(e[2])
            e_(e[3])
        elif k == "intr":
            for q in (e[2][1:] if e[1] in ("ILbound", "IUbound", "ISize") else e[2]):
                e_(q)

    def s_(ss):
        nonlocal n
        for st in ss:
            k = st[0]
            if k == "assign":
                e_(st[3])
                for q in st[2]:
                    e_(q)
                n += (st[1] == v and not st[2])
            elif k == "if":
                e_(st[1])
                s_(st[2])
                s_(st[3])
            elif k == "do":
                n += 2 * (st[1] == v)
                for q in st[2:5]:
                    e_(q)
                s_(st[5])
    s_([loop])
    return n


def loop_vars_of(loop):
    out = []

    def s_(ss):
        for st in ss:
            if st[0] == "do":
                out.append(st[1])
                s_(st[5])
            elif st[0] == "if":
                s_(st[2])
                s_(st[3])
    s_([loop])
    return out


def first_write_in_inner_loop(loop, v):
    """is the first (pre-order) write of scalar v inside a loop nested in the parallel loop?"""
    def s_(ss, depth):
        for st in ss:
            if st[0] == "assign" and st[1] == v and not st[2]:
                return depth > 0
            if st[0] == "if":
                r = s_(st[2], depth)
                if r is None:
                    r = s_(st[3], depth)
                if r is not None:
                    return r
            if st[0] == "do":
                r = s_(st[5], depth + 1)
                if r is not None:
                    return r
        return None
    return bool(s_(loop[5], 0))


def array_shape(loop, a, privatised):
    """why the subscripts of array a defeat the dependence test: classification of its subscripts"""
    subs = []

    def e_(e):
        k = e[0]
        if k == "idx":
            if e[1] == a:
                subs.extend(e[2])
            for q in e[2]:
                e_(q)
        elif k == "un":
            e_(e[2])
        elif k == "bin":
            e_(e[2])
            e_(e[3])
        elif k == "intr":
            for q in e[2]:
                e_(q)

    def s_(ss):
        for st in ss:
            if st[0] == "assign":
                if st[1] == a:
                    subs.extend(st[2])
                for q in st[2]:
                    e_(q)
                e_(st[3])
            elif st[0] == "if":
                e_(st[1])
                s_(st[2])
                s_(st[3])
            elif st[0] == "do":
                for q in st[2:5]:
                    e_(q)
                s_(st[5])
    s_([loop])
    names = set()
    for q in subs:
        mf.expr_names(q, names)
    if names & set(privatised):
        return "subscript-uses-privatised-scalar"
    if any(q[0] == "bin" and q[1] == "Div" for q in subs):
        return "integer-division-subscript"
    if any(q[0] == "idx" or (q[0] == "bin" and q[1] in ("Mul", "Pow")) or q[0] == "intr" for q in subs):
        return "nonaffine-subscript"
    return "affine-subscripts"


def diagnose(loop, vals, private, fprivate, sect_arrays=()):
    """which variables carry values between iterations (or expose poisoned copies) -> finding keys"""
    x = loop[1]
    fps = per_iteration_footprints(loop, vals)
    inner = set(loop_vars_of(loop)) - {x}
    keys = {}
    P = set(private) | set(fprivate) | {x}
    for k1, (e1, w1) in enumerate(fps):
        for loc in e1:
            v = loc[0]
            if v in private and v != x:
                if v in inner:
                    keys.setdefault("infer_sharing/inner-loop-variable-private-read-after-skipped-loop", v)
                elif first_write_in_inner_loop(loop, v):
                    keys.setdefault("infer_sharing/write-in-inner-loop-private", v)
                else:
                    keys.setdefault("infer_sharing/private-read-before-write", v)
            if v in fprivate and any(loc in w2 for k2, (_, w2) in enumerate(fps) if k2 != k1):
                if v in inner:
                    keys.setdefault("dep_tools/inner-loop-variable-skipped-read-first", v)
                else:
                    keys.setdefault("infer_sharing/conditional-write-firstprivate", v)
        for k2, (e2, w2) in enumerate(fps):
            if k2 <= k1:
                continue
            for loc in (w1 & (e2 | w2)) | (e1 & w2):
                v = loc[0]
                if v in P:
                    continue
                if not loc[1]:
                    if count_scalar_accesses(loop, v) == 1:
                        keys.setdefault("parallel_loop/written-once-scalar-shared", v)
                    else:
                        keys.setdefault("parallel_loop/shared-scalar-carried", v)
                else:
                    keys.setdefault("dep_tools/array-dependence-missed/" +
                                    ("array-section" if v in sect_arrays else array_shape(loop, v, P - {x})), v)
    return keys


# ---------------------------------------------------------------------------------- Coq case printers
def names_for(stmts, extra=()):
    nm = mf.Names().collect(stmts)
    for v in extra:
        nm.get(v)
    return nm


def nlist(names, nm):
    return core.coq_list("%d%%nat" % nm.get(v) for v in names)


HEADER = "From Coq Require Import ZArith. From PV Require Import Fort.Syntax Fort.Sem C09.Model.\nOpen Scope Z_scope."
JOBS = """
Definition xv_case := (stmt * clauses * list (nat * nat) * store * option (list (loc * Z)))%type.
Definition junk_store : store := mkStore (fun _ => 4242) (fun _ => []).
Definition xv_check (c : xv_case) : bool :=
  match c with
  | (loop, cl, sched, s, exp) =>
      match omp_exec 4000 cl loop (fun _ => junk_store) sched s, exp with
      | Some s', Some fin => forallb (fun lv => Z.eqb (val s' (fst lv)) (snd lv)) fin
      | None, None => true
      | _, _ => false
      end
  end.
Inductive job := JInfer (c : infer_case) | JVerdict (c : verdict_case) | JEqual (c : verdict_case)
               | JKnown (c : verdict_case) | JSafe (c : safe_case) | JXv (c : xv_case).
Definition run_job (j : job) : bool :=
  match j with
  | JInfer c => infer_agrees c | JVerdict c => verdict_agrees c | JEqual c => verdict_equal c
  | JKnown c => verdict_known c | JSafe c => safe_holds c | JXv c => xv_check c
  end."""


# ---------------------------------------------------------------------------------- main
def run(ctx):
    ctx.cov["rule"] = (
        "loops `do i` over integer scalars/arrays: body of 1-4 statements from {array assignment (subscripts i, i+-c, "
        "const, n, inner var, index scalar, 2*i, i+n, i+tmp, i/2, i+-<name colliding with an invented name: d_i d1_i d_ji idx "
        "loop_start tmp th_idx nthreads>; loops over i / ji / jj; 1-D and 2-D; array-section assignments lo:hi with "
        "identical / overlapping / disjoint literal sections or sections in the loop dimension, harness-only), scalar assignment, IF/ELSE, inner DO (literal or "
        "variable trip count)}; bounds literal / n, steps 1, 2, -1; 33 targeted shapes first; each loop goes through "
        "OMPParallelLoopTrans or OMPLoopTrans(paralleldo) without force. non-trivial = accepted and code generated; "
        "distinct = canonical loop text.  Search: stores x realisable schedules (all interleavings for <=5 iterations).")
    ctx.cov["trusted_base"] = core.BASE_TRUST + [
        "coq/C09/Model.v is hand-written; infer/accept are tied to infer_sharing_attributes / ParallelLoopTrans.validate "
        "by this correspondence run; the array part of accept only for subscripts c | v | v+-c",
        "coq/Fort/Sem.v (MiniFortran semantics, validated against gfortran by ./check _FORT) and coq/Fort/Facts.v",
        "omp_exec is MY formalisation of `!$omp parallel do` at iteration granularity: sub-iteration interleavings "
        "and the OpenMP memory model are NOT exhibited (partial); the gfortran -fopenmp runs of the thorough tier are "
        "supporting evidence only",
        "vlib/minifort.py interpreter and the omp_run mirror of Model.omp_exec in props/C09/check.py (cross-checked "
        "against Coq omp_exec on a sample every run)",
        "gfortran 12.2 / libgomp (thorough tier)"]
    ctx.assumptions = [
        "iterations are atomic (iteration-granularity serialisations, as the property's quantifier states)",
        "values after the region of privatised scalars (private AND firstprivate, incl. the loop variable) are excluded",
        "theorem omp_sound_partial assumes the serial run completes normally (no fault / fuel exhaustion)"]
    # regenerate coq/C12/GenTables.v (is_inquiry flag of every intrinsic of the tree under test) for C09_inquiry_flags_sound
    import importlib.util
    spec = importlib.util.spec_from_file_location("props_C12_translate", core.VERIF / "props" / "C12" / "translate.py")
    tmod = importlib.util.module_from_spec(spec)
    spec.loader.exec_module(tmod)
    ctx.notes["intrinsics_translated"] = len(tmod.generate())
    ok, rep = ctx.prove()
    ctx.log("proof ok=%s discharged=%d/%d %s" % (ok, ctx.cov["discharged"], ctx.cov["obligations"], rep.get("errors")))
    impl = Impl()
    rng = ctx.rng("gen")
    gen = LoopGen(rng)
    loops = [(tag, lp) for tag, lp in SHAPES]
    for _ in range(ctx.pick(170, 1100)):
        loops.append(("gen", gen.loop()))
    results = []
    for idx, (tag, lp) in enumerate(loops):
        res = impl.run_loop(lp, idx % 2 if tag == "gen" else 0)
        res["tag"] = tag
        results.append(res)
    # ---- region form (infer only)
    regions = []
    for _ in range(ctx.pick(30, 200)):
        got = impl.run_region(gen.pre(), gen.loop(sections=False))
        if got:
            regions.append(got)
    ctx.log("ran implementation on %d loops + %d regions" % (len(results), len(regions)))

    # ---- model evaluation: one sharded coqc run over tagged jobs
    jobs, tags = [], []

    def add(kind, term, ref):
        jobs.append("(%s %s)" % (kind, term))
        tags.append((kind, ref))
    infer_src = []
    for ri, res in enumerate(results):
        ctx.hist("loop_kind", "with array sections / EXPONENT (harness-only)" if res["seen"] is None else "scalar subscripts (model + harness)")
        if res["seen"] is None:
            continue
        nm = names_for([res["seen"]])
        body = mf.stmts_to_coq([res["seen"]], nm)
        if res["accepted"]:
            p, f, ns = res["infer"]
            infer_src.append(("accepted", res["source"], res["infer"]))
            add("JInfer", "(%s, (%s, %s, %s))" % (body, nlist(p, nm), nlist(f, nm), nlist(ns, nm)), len(infer_src) - 1)
        elif res.get("forced") is not None:
            p, f, ns = res["forced"]
            infer_src.append(("forced", res["source"], res["forced"]))
            add("JInfer", "(%s, (%s, %s, %s))" % (body, nlist(p, nm), nlist(f, nm), nlist(ns, nm)), len(infer_src) - 1)
            ctx.hist("forced_clauses", "p%d f%d s%d" % (len(p), len(f), len(ns)))
        vc = "(%s, %s)" % (mf.stmt_to_coq(res["seen"], nm), "true" if res["accepted"] else "false")
        add("JVerdict", vc, ri)
        if ctx.thorough:          # statistics only: how often the model knows / equals the verdict
            add("JEqual", vc, ri)
            add("JKnown", vc, ri)
    for body, (p, f, ns), txt in regions:
        nm = names_for(body)
        infer_src.append(("region", txt, (p, f, ns)))
        add("JInfer", "(%s, (%s, %s, %s))" % (mf.stmts_to_coq(body, nm), nlist(p, nm), nlist(f, nm), nlist(ns, nm)), len(infer_src) - 1)
        ctx.hist("region_clauses", "p%d f%d s%d" % (len(p), len(f), len(ns)))
    acc_idx = [i for i, r in enumerate(results) if r["accepted"] and r.get("clauses") is not None]
    section_pos = {pos for pos, i in enumerate(acc_idx) if results[i]["seen"] is None}
    section_modelled = set()
    for pos, i in enumerate(acc_idx):
        res = results[i]
        if res["seen"] is None:
            # desugared section loop (coq/C09/Sections.v): safe_with on the element statements with the
            # temporaries as additional private scalars (C09_omp_sound_sections); EXPONENT stays harness-only
            if not has_exponent(res["sem"]):
                priv = list(res["clauses"][0]) + res["temps"]
                nm = names_for([res["sem"]], priv + res["clauses"][1])
                add("JSafe", "(%s, (%s, %s))" % (mf.stmt_to_coq(res["sem"], nm), nlist(priv, nm), nlist(res["clauses"][1], nm)), pos)
                section_modelled.add(pos)
            continue
        nm = names_for([res["seen"]], res["clauses"][0] + res["clauses"][1])
        add("JSafe", "(%s, (%s, %s))" % (mf.stmt_to_coq(res["seen"], nm), nlist(res["clauses"][0], nm), nlist(res["clauses"][1], nm)), pos)
    stores = make_stores(ctx.rng("stores"), ctx.pick(6, 10))
    xv_n = add_xv_jobs(ctx, [results[i] for i in acc_idx if results[i]["seen"] is not None], stores, add)
    failing = ctx.coq_eval_failing(HEADER + JOBS, "job", "run_job", jobs, shard=ctx.pick(1 + len(jobs) // 2, 500))
    bad_infer, bad_verdict, neq_verdict, unknown_verdict, unsafe, xv_bad = [], [], [], [], set(), []
    for k in failing:
        kind, ref = tags[k]
        {"JInfer": bad_infer, "JVerdict": bad_verdict, "JEqual": neq_verdict, "JKnown": unknown_verdict,
         "JXv": xv_bad}.get(kind, []).append(ref)
        if kind == "JSafe":
            unsafe.add(ref)
    unsafe |= (section_pos - section_modelled)      # EXPONENT loops are never covered by the theorem
    n_infer = sum(1 for t in tags if t[0] == "JInfer")
    ctx.log("infer cases=%d differ=%d | verdict cases=%d impl-accepts-model-rejects=%d differ=%d outside-class=%d | "
            "accepted=%d gap=%d | omp_run vs Coq omp_exec: %d cases %d differ"
            % (n_infer, len(bad_infer), sum(1 for t in tags if t[0] == "JVerdict"), len(bad_verdict), len(neq_verdict),
               len(unknown_verdict), len(acc_idx), len(unsafe), xv_n, len(xv_bad)))
    if ctx.thorough:
        ctx.notes["verdict_model_outside_class"] = len(unknown_verdict)
        ctx.notes["verdict_impl_stricter_than_model"] = len(set(neq_verdict) - set(bad_verdict))
    ctx.notes["infer_cases"] = n_infer
    ctx.notes["omp_run_vs_coq_omp_exec"] = {"cases": xv_n, "differ": len(xv_bad)}

    # ---- the property itself on every accepted loop
    srng = ctx.rng("sched")
    failures = []           # (index, keys, replay)
    clause_text_mismatch = []
    n_exec = 0
    for pos, i in enumerate(acc_idx):
        res = results[i]
        loop = res["sem"]
        private, fprivate = res["clauses"]
        private = list(private) + res["temps"]      # compiler temporaries of desugared section assignments
        if (sorted(res["clauses"][0]), sorted(fprivate)) != (sorted(res["infer"][0]), sorted(res["infer"][1])):
            clause_text_mismatch.append(i)
        ctx.count(res["source"], True)
        ctx.hist("accepted_clauses", "private%d firstprivate%d" % (len(res["clauses"][0]) - 1, len(fprivate)))
        ctx.hist("bucket", ("sections/EXPONENT (search only)" if pos not in section_modelled else
                            "gap (desugared sections)" if pos in unsafe else "safe (desugared sections)")
                 if pos in section_pos else "gap" if pos in unsafe else "safe")
        found = None
        for si, vals in enumerate(stores):
            ser = mf.interp([loop], vals, BNDS)
            if ser[0] != "ok":
                continue
            s0 = mf.Store(vals, BNDS)
            _, _, n = iter_count(loop, s0)
            for sched in schedules(n, srng, ctx.pick(40, 90)):
                for junk in (7919, -5003):
                    n_exec += 1
                    got = omp_run(loop, vals, private, fprivate, sched, junk)
                    if got is None:
                        continue
                    s_omp, P = got
                    diff = shared_diff(ser[1], s_omp, P)
                    if diff:
                        found = (si, sched, junk, diff[:4])
                        break
                if found:
                    break
            if found:
                break
        if found:
            si, sched, junk, diff = found
            keys = diagnose(loop, stores[si], private, fprivate, res["section_arrays"])
            failures.append((i, pos, keys, {
                "source": res["source"], "transformation": res["variant"], "directive": res.get("directive_line"),
                "store": {"%s%s" % (k[0], list(k[1]) if k[1] else ""): v for k, v in sorted(stores[si].items())
                          if k[0] in mf.all_names([loop]) and not (k[1] and any(not (-1 <= q <= 8) for q in k[1]))},
                "schedule_thread_iteration": sched, "private_junk": junk,
                "differences_loc_serial_omp": [[str(d[0]), d[1], d[2]] for d in diff],
                "replay": "apply %s to the loop of `source` (no options), write with FortranWriter; run the loop body "
                          "iteration by iteration in `schedule` order with the clause semantics (props/C09/check.py omp_run) "
                          "or compile the written program with gfortran -fopenmp" % res["variant"]}))
    for r in results:
        ctx.hist("verdict", ("accepted" if r.get("clauses") is not None else "accepted, no code generated")
                 if r["accepted"] else "rejected: " + str(r.get("why")))
        ctx.count(r["source"], False) if not r["accepted"] else None
    ctx.cov["evaluations"] += n_exec
    ctx.notes["omp_executions"] = n_exec
    ctx.log("accepted loops=%d, omp executions=%d, loops with a concrete failure=%d" % (len(acc_idx), n_exec, len(failures)))
    for i in acc_idx[:3] + acc_idx[-2:]:
        ctx.sample({"source": results[i]["source"], "directive": results[i].get("directive_line")})

    # ---- thorough: compiled OpenMP runs
    gf_bad = []
    if ctx.thorough or os.environ.get("C09_GFORTRAN"):
        failing_idx = {f[0] for f in failures}
        gf_bad = gfortran_runs(ctx, impl, [results[i] for i in acc_idx if i not in failing_idx], stores)

    # ---------------------------------------------------------------- verdicts
    reported = False
    for i, pos, keys, replay in failures:
        if pos not in unsafe:
            ctx.violation(dict(replay, broken="a loop inside the safe class of theorem omp_sound_partial fails on the "
                                              "implementation's clauses: model/semantics glue or theorem tie broken"))
            reported = True
            continue
        if not keys:
            ctx.violation(dict(replay, key="unclassified"))
            reported = True
            continue
        for key, v in sorted(keys.items()):
            what = "%s: variable '%s'" % (key, v)
            if ctx.finding(key, what, dict(replay, variable=v)):
                reported = True
            ctx.hist("failing_loops_by_key", key)
    for j, r, why in gf_bad[:3]:
        ctx.violation(dict(r, broken="compiled OpenMP run differs from the serial result although the "
                                     "iteration-granularity search found no failure", detail=why))
        reported = True
    problems = []
    if bad_infer:
        k = bad_infer[0]
        shown = ctx.coq_eval_show(HEADER, ["infer3 (fst %s)" % [j for j, t in zip(jobs, tags) if t == ("JInfer", k)][0][len("(JInfer "):-1]])
        problems.append({"broken": "correspondence Model.infer3 = OMPParallelDirective.infer_sharing_attributes",
                         "n_differing": len(bad_infer), "first_differing_case": {"kind": infer_src[k][0], "source": infer_src[k][1],
                                                                                  "impl_private_fprivate_sync": infer_src[k][2],
                                                                                  "model (names numbered in sorted order)": shown}})
    if bad_verdict:
        k = bad_verdict[0]
        problems.append({"broken": "implementation accepts a loop that Model.accept (ParallelLoopTrans.validate) rejects",
                         "n_differing": len(bad_verdict), "first_differing_case": {"source": results[k]["source"]}})
    if clause_text_mismatch:
        k = clause_text_mismatch[0]
        problems.append({"broken": "clauses on the written directive differ from infer_sharing_attributes",
                         "first_differing_case": {"source": results[k]["source"], "written": results[k]["clauses"],
                                                  "infer": results[k]["infer"]}})
    if xv_bad:
        problems.append({"broken": "props/C09/check.py omp_run differs from Coq Model.omp_exec", "n_differing": len(xv_bad)})
    if not ok:
        problems.append({"broken": "proof obligations of Properties/C09.v", "proof_report": rep})
    ctx.cov["disagreements_checked"] = len(bad_infer) + len(bad_verdict)
    if problems and not reported:
        ctx.violation({"property": "C09", "problems": problems}, no_input=True)
    elif problems:
        ctx.violation({"property": "C09", "problems": problems,
                       "note": "concrete failing inputs are reported separately"}, no_input=True)


def add_xv_jobs(ctx, accepted, stores, add):
    """Python omp_run == Coq omp_exec (vm_compute) on a sample: final values of every non-privatised location.
    The store is restricted to the locations the run touches (others are 0 on both sides)."""
    rng = ctx.rng("xv")
    n_cases = 0
    for res in accepted[:ctx.pick(20, 150)]:
        loop = res["seen"]
        private, fprivate = res["clauses"]
        full = stores[rng.randrange(len(stores))]
        ser = mf.interp([loop], full, BNDS)
        if ser[0] != "ok":
            continue
        touched = {ev[1] for ev in ser[2] if ev[0] in ("R", "W")}
        names = mf.all_names([loop])
        vals = {k: v for k, v in full.items() if k in touched or (not k[1] and k[0] in names)}
        _, _, n = iter_count(loop, mf.Store(vals, BNDS))
        sch = schedules(n, rng, 30)
        sched = sch[rng.randrange(len(sch))]
        got = omp_run(loop, vals, private, fprivate, sched, 4242)
        nm = names_for([loop], list(private) + list(fprivate))
        if got is None:
            exp = "None"
        else:
            s_omp, P = got
            fin = "; ".join("((%d%%nat, [%s]), (%d))" % (nm.get(k[0]), "; ".join("(%d)" % q for q in k[1]), z)
                            for k, z in sorted(s_omp.vals.items()) if k[0] not in P)
            exp = "(Some [%s])" % fin
        pf = "(mkClauses %s %s)" % (nlist([p for p in private if p != loop[1]], nm), nlist(fprivate, nm))
        sc = core.coq_list("(%d%%nat, %d%%nat)" % (t, k) for t, k in sched)
        add("JXv", "(%s, %s, %s, %s, %s)" % (mf.stmt_to_coq(loop, nm), pf, sc, mf.store_to_coq(vals, BNDS, nm), exp), n_cases)
        n_cases += 1
    return n_cases


def gfortran_runs(ctx, impl, accepted, stores):
    """supporting evidence: compile the program PSyclone writes and run it under thread counts / schedules"""
    from psyclone.psyir.nodes import Loop
    from psyclone.transformations import OMPParallelLoopTrans
    d = ctx.scratch / "gf"
    d.mkdir(exist_ok=True)
    jobs = []
    skipped_oob = 0
    for j, res in enumerate(accepted[:ctx.pick(12, 50)]):
        loop = res["sem"]
        vals = stores[j % len(stores)]
        ser = mf.interp([loop], vals, BNDS)
        if ser[0] != "ok":
            continue
        if any(ev[0] in ("R", "W") and any(not (LB <= q <= UB) for q in ev[1][1]) for ev in ser[2]):
            skipped_oob += 1     # an index scalar leaves the declared bounds: undefined for the compiled program
            continue
        psy, routine, _ = impl.parse([res["src"]])
        OMPParallelLoopTrans(omp_schedule="runtime").apply(routine.walk(Loop)[0])
        text = impl.writer(psy)
        body = [ln for ln in text.split("\n")]
        start = [k for k, ln in enumerate(body) if "!$omp parallel do" in ln][0]
        end = [k for k, ln in enumerate(body) if "!$omp end parallel do" in ln][0]
        omp_lines = body[start:end + 1]
        prog = ["program p%d" % j, "  implicit none"]
        for v, ty, bs in DECLS:
            prog.append("  %s%s :: %s" % (ty, ", dimension(%s)" % ", ".join("%d:%d" % b for b in bs) if bs else "", v))
        prog.append("  integer :: q1, q2")
        used = mf.all_names([loop]) | set(res["section_arrays"])
        for v, ty, bs in DECLS:
            if not bs:
                prog.append("  %s = %d" % (v, vals.get((v, ()), 0)))
            elif len(bs) == 1:
                prog.append("  %s = (/ %s /)" % (v, ", ".join(str(vals.get((v, (k,)), 0)) for k in range(LB, UB + 1))))
            else:
                prog.append("  %s = 0" % v)
                if v in used:
                    for k in range(LB, UB + 1):
                        prog.append("  %s(%d,:) = (/ %s /)" % (v, k, ", ".join(str(vals.get((v, (k, l2)), 0)) for l2 in range(LB, UB + 1))))
        prog += omp_lines
        private, fprivate = res["clauses"]
        P = set(private) | set(fprivate)
        shown = [(v, bs) for v, ty, bs in DECLS if v not in P and v in used]
        for v, bs in shown:
            prog.append("  print *, %s" % v)
        prog.append("end program p%d" % j)
        (d / ("p%d.f90" % j)).write_text("\n".join(prog) + "\n")
        exp = []
        for v, bs in shown:
            if not bs:
                exp.append(ser[1].get((v, ())))
            elif len(bs) == 1:
                exp += [ser[1].get((v, (k,))) for k in range(LB, UB + 1)]
            else:
                for l2 in range(LB, UB + 1):
                    for k in range(LB, UB + 1):
                        exp.append(ser[1].get((v, (k, l2))))
        jobs.append((j, res, exp))
    core.sh("ls p*.f90 | xargs -P 16 -I{} sh -c 'gfortran -fopenmp -O1 -o {}.x {} 2>{}.err'", cwd=d, timeout=900)
    bad, nruns, inconclusive = [], 0, 0
    for j, res, exp in jobs:
        exe = d / ("p%d.f90.x" % j)
        if not exe.exists():
            err = (d / ("p%d.f90.err" % j)).read_text() if (d / ("p%d.f90.err" % j)).exists() else ""
            if "Error" in err:       # the written OpenMP program does not compile: a concrete failure
                bad.append((j, {"source": res["source"], "program": (d / ("p%d.f90" % j)).read_text()}, "gfortran rejects the program: " + err[-400:]))
            else:                    # compiler killed / timed out under load: inconclusive, never a failure
                inconclusive += 1
            continue
        for nt in range(1, 9):
            for sk in ("static", "dynamic", "guided"):
                env = dict(os.environ, OMP_NUM_THREADS=str(nt), OMP_SCHEDULE=sk)
                rc, out = core.sh([str(exe)], timeout=120, env=env)
                if rc == 124:        # timed out (machine load): inconclusive, never a failure
                    inconclusive += 1
                    continue
                nruns += 1
                try:
                    got = [int(q) for q in out.split()]
                except ValueError:
                    got = None
                if rc != 0 or got != exp:
                    bad.append((j, {"source": res["source"], "program": (d / ("p%d.f90" % j)).read_text(),
                                    "OMP_NUM_THREADS": nt, "OMP_SCHEDULE": sk}, "rc=%d output differs" % rc))
                    break
            else:
                continue
            break
    ctx.log("gfortran -fopenmp: %d programs, %d runs, %d differ" % (len(jobs), nruns, len(bad)))
    ctx.notes["gfortran_openmp"] = {"programs": len(jobs), "runs": nruns, "differ": len(bad), "inconclusive_timeouts": inconclusive, "skipped_out_of_bounds": skipped_oob,
                                    "threads": "1..8", "schedules": "static, dynamic, guided"}
    return bad
