"""C14 — the PSyIR tree stays well-formed under any sequence of edits.

Tie: T + C.  props/C14/translate.py regenerates coq/C14/Gen.v from the tree under test (index
arithmetic / statement variants of ChildrenList and Node, the _validate_child rules); the theorems
of coq/Properties/C14.v are re-checked; then random and targeted edit histories are run on real
PSyIR nodes and, step by step, compared with the model instantiated with the translated parameters
(vm_compute inside coqc).  Independently the invariant (parent/children links consistent, each
node listed once, each child valid at its position by the frozen reference table) and "a failed
operation leaves the tree unchanged" are evaluated directly on the real tree after every step:
that is the search for a concrete failing input."""
import importlib.util
import json
import sys
from pathlib import Path

from vlib import core

HERE = Path(__file__).resolve().parent
FUEL = 64

R_NAMES = {0: "safe", 1: "ChildrenList.pop/index-arithmetic", 2: "ChildrenList.__delitem__/index-arithmetic",
           3: "ChildrenList.insert/negative-index", 4: "ChildrenList.insert/index-beyond-end",
           5: "ChildrenList.__setitem__/index-arithmetic", 6: "ChildrenList.extend/duplicate-item",
           7: "ChildrenList.remove/equal-but-not-identical", 8: "Node.children-setter/fails-after-popping",
           9: "ChildrenList._check_is_orphan/ancestor-accepted", 10: "update_signal/recursion-depth",
           11: "ChildrenList.__iadd__/not-overridden", 12: "ChildrenList.__imul__/not-overridden"}
# which parameter text makes a finding key specific to the code as written
R_TEXT = {1: "ie_pop", 2: "ie_del", 3: "ie_insert", 4: "ie_insert", 5: "ie_set"}


def load_translator():
    spec = importlib.util.spec_from_file_location("props_C14_translate", HERE / "translate.py")
    mod = importlib.util.module_from_spec(spec)
    spec.loader.exec_module(mod)
    return mod


# ---------------------------------------------------------------- reference validity (mirror of Model.valid_ref;
# every use is cross-checked against the Coq definition through o_inv)
STATEMENT = {"Loop", "IfBlock", "WhileLoop", "Assignment", "Call", "Return", "OMPParallelDirective",
             "OMPSingleDirective"}
DATANODE = {"Call", "BinaryOperation", "UnaryOperation", "ArrayReference", "Reference", "Literal"}
REFERENCE = {"ArrayReference", "Reference"}


def valid_ref(ck, pos, xk):
    if ck == "Schedule":
        return xk in STATEMENT
    if ck == "Loop":
        return (pos in (0, 1, 2) and xk in DATANODE) or (pos == 3 and xk == "Schedule")
    if ck == "IfBlock":
        return (pos == 0 and xk in DATANODE) or (pos in (1, 2) and xk == "Schedule")
    if ck == "WhileLoop":
        return (pos == 0 and xk in DATANODE) or (pos == 1 and xk == "Schedule")
    if ck == "Assignment":
        return pos < 2 and xk in DATANODE
    if ck == "Call":
        return xk in REFERENCE if pos == 0 else xk in DATANODE
    if ck == "BinaryOperation":
        return pos in (0, 1) and xk in DATANODE
    if ck == "UnaryOperation":
        return pos == 0 and xk in DATANODE
    if ck == "Range":
        return pos < 3 and xk in DATANODE
    if ck == "ArrayReference":
        return xk in DATANODE or xk == "Range"
    if ck == "OMPParallelDirective":
        return (pos, xk) in ((0, "Schedule"), (1, "OMPDefaultClause"), (2, "OMPPrivateClause"),
                             (3, "OMPFirstprivateClause")) or (pos >= 4 and xk == "OMPReductionClause")
    if ck == "OMPSingleDirective":
        return (pos, xk) in ((0, "Schedule"), (1, "OMPNowaitClause"))
    if ck in ("OMPPrivateClause", "OMPFirstprivateClause"):
        return xk in REFERENCE
    return False


# ---------------------------------------------------------------- real nodes
class Pool:
    """a set of real PSyIR nodes with model ids"""

    def __init__(self):
        from psyclone.psyir import nodes as N
        from psyclone.psyir.symbols import DataSymbol, INTEGER_TYPE, ArrayType
        self.N = N
        self.nodes, self.kinds, self.attrs = [], [], []
        self.ids = {}
        self._int = INTEGER_TYPE
        self._syms = [DataSymbol(n, INTEGER_TYPE) for n in ("x", "y")]
        self._arrs = [DataSymbol(n, ArrayType(INTEGER_TYPE, [10])) for n in ("a", "b")]
        self._lvars = [DataSymbol(n, INTEGER_TYPE) for n in ("i", "j")]

    def _reg(self, node, kind, attr):
        self.ids[id(node)] = len(self.nodes)
        self.nodes.append(node)
        self.kinds.append(kind)
        self.attrs.append(attr)
        return len(self.nodes) - 1

    def new(self, kind, attr=0):
        N = self.N
        attr = attr % 2
        hasattr_kinds = {"Loop", "BinaryOperation", "UnaryOperation", "ArrayReference", "Reference", "Literal"}
        if kind not in hasattr_kinds:
            attr = 0
        if kind == "Loop":
            n = N.Loop(variable=self._lvars[attr])
        elif kind == "BinaryOperation":
            n = N.BinaryOperation([N.BinaryOperation.Operator.ADD, N.BinaryOperation.Operator.MUL][attr])
        elif kind == "UnaryOperation":
            n = N.UnaryOperation([N.UnaryOperation.Operator.MINUS, N.UnaryOperation.Operator.PLUS][attr])
        elif kind == "ArrayReference":
            n = N.ArrayReference(self._arrs[attr])
        elif kind == "Reference":
            n = N.Reference(self._syms[attr])
        elif kind == "Literal":
            n = N.Literal(["1", "2"][attr], self._int)
        else:
            n = getattr(N, kind)()
        i = self._reg(n, kind, attr)
        for ch in n.children:            # region directives are born with a Schedule
            self._reg(ch, type(ch).__name__, 0)
        return i

    def snapshot(self):
        """(parent id | None, [child ids]) per node, by object identity"""
        snap = []
        for n in self.nodes:
            p = n.parent
            snap.append((None if p is None else self.ids[id(p)], [self.ids[id(c)] for c in list.__iter__(n.children)]))
        return snap


def inv_direct(pool, snap):
    """the property's invariant evaluated on the real tree's snapshot; returns None or a reason"""
    for c, (p, kids) in enumerate(snap):
        for pos, x in enumerate(kids):
            if snap[x][0] != c:
                return "node %d is listed by %d but its parent is %s" % (x, c, snap[x][0])
            if not valid_ref(pool.kinds[c], pos, pool.kinds[x]):
                return "%s (node %d) is child %d of %s (node %d)" % (pool.kinds[x], x, pos, pool.kinds[c], c)
        if len(set(kids)) != len(kids):
            return "node %d lists a child twice: %s" % (c, kids)
        if p is not None and snap[p][1].count(c) != 1:
            return "parent %d of node %d lists it %d times" % (p, c, snap[p][1].count(c))
    return None


ERR = {"GenerationError": 1, "IndexError": 2, "ValueError": 3, "NotImplementedError": 4, "RecursionError": 5,
       "TypeError": 6}


def apply_real(pool, op):
    """run one operation on the real nodes; returns the error code (0 = no exception)"""
    nd = pool.nodes
    name = op[0]
    try:
        if name == "append":
            nd[op[1]].children.append(nd[op[2]])
        elif name == "insert":
            nd[op[1]].children.insert(op[2], nd[op[3]])
        elif name == "setitem":
            nd[op[1]].children[op[2]] = nd[op[3]]
        elif name == "delitem":
            del nd[op[1]].children[op[2]]
        elif name == "remove":
            nd[op[1]].children.remove(nd[op[2]])
        elif name == "pop":
            nd[op[1]].children.pop(op[2])
        elif name == "poplast":
            nd[op[1]].children.pop()
        elif name == "extend":
            nd[op[1]].children.extend([nd[i] for i in op[2]])
        elif name == "clear":
            nd[op[1]].children.clear()
        elif name == "reverse":
            nd[op[1]].children.reverse()
        elif name == "sort":
            nd[op[1]].children.sort()
        elif name == "addchild":
            if op[3] is None:
                nd[op[1]].addchild(nd[op[2]])
            else:
                nd[op[1]].addchild(nd[op[2]], index=op[3])
        elif name == "detach":
            nd[op[1]].detach()
        elif name == "replace_with":
            nd[op[1]].replace_with(nd[op[2]])
        elif name == "pop_all":
            nd[op[1]].pop_all_children()
        elif name == "set_children":
            nd[op[1]].children = [nd[i] for i in op[2]]
        elif name == "iadd":
            alias = nd[op[1]].children
            alias += [nd[i] for i in op[2]]
        elif name == "imul":
            alias = nd[op[1]].children
            alias *= op[2]
        elif name == "getslice":
            nd[op[1]].children[op[2]:op[3]:op[4]]
        elif name == "setslice":
            nd[op[1]].children[op[2]:op[3]] = [nd[i] for i in op[4]]
        elif name == "delslice":
            del nd[op[1]].children[op[2]:op[3]]
        else:
            raise AssertionError(name)
        return 0
    except RecursionError:
        return 5
    except Exception as e:            # classified; anything unknown is code 9 and never matches the model
        for cls in type(e).__mro__:
            if cls.__name__ in ERR:
                return ERR[cls.__name__]
        return 9


# ---------------------------------------------------------------- mirror of Model.reason (verified by Coq per step)
def py_norm(ln, i):
    j = i + ln if i < 0 else i
    return j if 0 <= j < ln else None


def py_clamp(ln, i):
    j = i + ln if i < 0 else i
    return max(0, min(j, ln))


class Mirror:
    def __init__(self, pool, snap, P, ieval):
        self.pool, self.P, self.ieval = pool, P, ieval
        self.par = [p for p, _ in snap]
        self.kids = [list(k) for _, k in snap]

    def climbs(self, c):
        f = FUEL
        while True:
            if f == 0:
                return True
            f -= 1
            if self.par[c] is None:
                return False
            c = self.par[c]

    def on_chain(self, c, x):
        f = FUEL
        while True:
            if f == 0:
                return None
            f -= 1
            if c == x:
                return True
            if self.par[c] is None:
                return False
            c = self.par[c]

    def node_eq(self, a, b, fuel):
        if fuel == 0:
            return None
        if self.pool.kinds[a] != self.pool.kinds[b]:
            return False
        if len(self.kids[a]) != len(self.kids[b]):
            return False
        for x, y in zip(self.kids[a], self.kids[b]):
            r = self.node_eq(x, y, fuel - 1)
            if r is None:
                return None
            if not r:
                return False
        return self.pool.attrs[a] == self.pool.attrs[b]

    def find_eq(self, c, x):
        for j, y in enumerate(self.kids[c]):
            if y == x:
                return j
            r = self.node_eq(y, x, FUEL)
            if r is None:
                return "exhaust"
            if r:
                return j
        return None

    def depth(self, c):
        return 10 if self.climbs(c) else 0

    def link(self, c, x):
        r = self.on_chain(c, x)
        if r is False:
            return 0
        if self.P["f_cycle_check"]:
            return 0
        return 9 if r is True else 10

    @staticmethod
    def first(rs):
        for r in rs:
            if r != 0:
                return r
        return 0

    def unlink_ok(self, which, ln, i):
        k = py_norm(ln, i)
        return k is None or self.ieval(self.P[which], ln, i) == k or k + 1 == ln

    def pop_all_reason(self, n):
        ok = all(l <= self.ieval(self.P["ie_pop"], l, -1) + 1 for l in range(1, n + 1))
        return 0 if ok else 1

    def extend_reason(self, c, xs):
        dup = 0 if (self.P["f_extend_dup"] or len(set(xs)) == len(xs)) else 6
        return self.first([dup, self.depth(c)] + [self.link(c, x) for x in xs])

    def reason(self, op):
        name = op[0]
        P = self.P
        if name == "append" or (name == "addchild" and op[3] is None):
            return self.link(op[1], op[2])
        if name in ("insert", "addchild"):
            c, i, x = (op[1], op[2], op[3]) if name == "insert" else (op[1], op[3], op[2])
            ln = len(self.kids[c])
            ok = self.ieval(P["ie_insert"], ln, i) == py_clamp(ln, i)
            return self.first([0 if ok else (3 if i < 0 else 4), self.link(c, x)])
        if name == "setitem":
            c, i, x = op[1], op[2], op[3]
            ln = len(self.kids[c])
            k = py_norm(ln, i)
            ok = k is None or self.ieval(P["ie_set"], ln, i) == k
            return self.first([0 if ok else 5, self.link(c, x)])
        if name == "delitem":
            c, i = op[1], op[2]
            return self.first([0 if self.unlink_ok("ie_del", len(self.kids[c]), i) else 2, self.depth(c)])
        if name == "pop":
            c, i = op[1], op[2]
            return self.first([0 if self.unlink_ok("ie_pop", len(self.kids[c]), i) else 1, self.depth(c)])
        if name in ("poplast", "clear", "reverse"):
            return self.depth(op[1])
        if name == "pop_all":
            return self.first([self.pop_all_reason(len(self.kids[op[1]])), self.depth(op[1])])
        if name == "remove":
            c, x = op[1], op[2]
            j = self.find_eq(c, x)
            r = 0
            if isinstance(j, int) and not P["f_remove_unlink"] and self.kids[c][j] != x:
                r = 7
            return self.first([r, self.depth(c)])
        if name == "extend":
            return self.extend_reason(op[1], op[2])
        if name == "sort":
            return 0
        if name == "detach":
            p = self.par[op[1]]
            if p is None or op[1] not in self.kids[p]:
                return 0
            return self.reason(("pop", p, self.kids[p].index(op[1])))
        if name == "replace_with":
            p = self.par[op[1]]
            if p is None or op[1] not in self.kids[p]:
                return 0
            return self.reason(("setitem", p, self.kids[p].index(op[1]), op[2]))
        if name == "iadd":
            if P.get("f_iadd"):
                return self.extend_reason(op[1], op[2])
            return 11 if op[2] else 0
        if name == "imul":
            if P.get("f_imul"):
                return 0
            return 0 if (op[2] == 1 or not self.kids[op[1]]) else 12
        if name in ("getslice", "setslice", "delslice"):
            return 0
        if name == "set_children":
            return None          # needs the outcome: computed by the caller (set_children_reason)
        raise AssertionError(name)

    def set_children_reason(self, op, failed):
        c, xs = op[1], op[2]
        pa = self.pop_all_reason(len(self.kids[c]))
        d = self.depth(c)
        setter = 0 if (self.P["f_setter_atomic"] or not failed) else 8
        saved = list(self.par)
        for y in self.kids[c]:
            self.par[y] = None
        old_kids = self.kids[c]
        self.kids[c] = []
        e = self.extend_reason(c, xs)
        self.par, self.kids[c] = saved, old_kids
        return self.first([pa, d, setter, e])


# ---------------------------------------------------------------- printing cases for Coq
def coq_opt(p):
    return "None" if p is None else "(Some %d)" % p


def coq_nats(l):
    return "[" + "; ".join(str(x) for x in l) + "]"


def coq_op(op):
    n = op[0]
    z = core.coq_z
    if n == "append":
        return "OAppend %d %d" % (op[1], op[2])
    if n == "insert":
        return "OInsert %d %s %d" % (op[1], z(op[2]), op[3])
    if n == "setitem":
        return "OSetItem %d %s %d" % (op[1], z(op[2]), op[3])
    if n == "delitem":
        return "ODelItem %d %s" % (op[1], z(op[2]))
    if n == "remove":
        return "ORemove %d %d" % (op[1], op[2])
    if n == "pop":
        return "OPop %d %s" % (op[1], z(op[2]))
    if n == "poplast":
        return "OPopLast %d" % op[1]
    if n == "extend":
        return "OExtend %d %s" % (op[1], coq_nats(op[2]))
    if n == "clear":
        return "OClear %d" % op[1]
    if n == "reverse":
        return "OReverse %d" % op[1]
    if n == "sort":
        return "OSort %d" % op[1]
    if n == "addchild":
        return "OAddChild %d %d %s" % (op[1], op[2], "None" if op[3] is None else "(Some %s)" % z(op[3]))
    if n == "detach":
        return "ODetach %d" % op[1]
    if n == "replace_with":
        return "OReplaceWith %d %d" % (op[1], op[2])
    if n == "pop_all":
        return "OPopAll %d" % op[1]
    if n == "set_children":
        return "OSetChildren %d %s" % (op[1], coq_nats(op[2]))
    raise AssertionError(n)


def coq_op2(op):
    n = op[0]
    if n == "iadd":
        return "OIAdd %d %s" % (op[1], coq_nats(op[2]))
    if n == "imul":
        return "OIMul %d %s" % (op[1], core.coq_z(op[2]))
    if n == "getslice":
        return "OGetSlice %d" % op[1]
    if n == "setslice":
        return "OSetSlice %d %s" % (op[1], coq_nats(op[4]))
    if n == "delslice":
        return "ODelSlice %d" % op[1]
    return "OBase (%s)" % coq_op(op)


def coq_table(entries):
    return "[" + "; ".join("(%d, (%s, %s))" % (i, coq_opt(p), coq_nats(k)) for i, (p, k) in entries) + "]"


def coq_case(rec):
    kinds = "[" + "; ".join("(%d, (K%s, %d))" % (i, k, a) for i, (k, a) in enumerate(rec["kinds"])) + "]"
    steps = "[" + ";\n   ".join(
        "mkObs2 (%s) %d %s %s %d" % (coq_op2(s["op"]), s["err"], coq_table(s["diff"]),
                                    "true" if s["inv"] is None else "false", s["reason"])
        for s in rec["steps"]) + "]"
    return "mkCase2 %s\n  %s\n  %s" % (kinds, coq_table(list(enumerate(rec["init"]))), steps)


# ---------------------------------------------------------------- running one history
def run_history(pool, ops_iter, P, ieval, max_steps):
    """ops_iter(pool, snap, k) -> op or None.  Executes on the real nodes, evaluates the property directly.
    Stops after the first step at which the property fails on the real tree (the tree is then
    outside the property's domain) or RecursionError is raised."""
    init = pool.snapshot()
    rec = {"kinds": list(zip(pool.kinds, pool.attrs)), "init": init, "steps": [], "fail": None}
    if inv_direct(pool, init) is not None:
        raise RuntimeError("initial forest does not satisfy the invariant: " + str(inv_direct(pool, init)))
    snap = init
    for k in range(max_steps):
        op = ops_iter(pool, snap, k)
        if op is None:
            break
        mir = Mirror(pool, snap, P, ieval)
        rsn = mir.reason(op)
        err = apply_real(pool, op)
        after = pool.snapshot()
        if rsn is None:
            rsn = mir.set_children_reason(op, err != 0)
        diff = [(i, after[i]) for i in range(len(after)) if after[i] != snap[i]]
        why = inv_direct(pool, after)
        step = {"op": op, "err": err, "diff": diff, "inv": why, "reason": rsn,
                "changed_on_error": bool(err != 0 and diff)}
        rec["steps"].append(step)
        if why is not None or step["changed_on_error"]:
            rec["fail"] = {"step": k, "op": op, "error_code": err, "invariant": why,
                           "changed_on_error": step["changed_on_error"], "reason": rsn,
                           "before": snap, "after": after}
            break
        if err in (5, 9):
            break
        snap = after
    return rec


# ---------------------------------------------------------------- generators
KIND_WEIGHTS = [("Schedule", 5), ("Loop", 4), ("IfBlock", 3), ("WhileLoop", 1), ("Assignment", 5), ("Call", 4),
                ("Return", 2), ("BinaryOperation", 3), ("UnaryOperation", 1), ("Range", 1), ("ArrayReference", 2),
                ("Reference", 7), ("Literal", 7), ("OMPParallelDirective", 2), ("OMPSingleDirective", 1),
                ("OMPDefaultClause", 1), ("OMPPrivateClause", 1), ("OMPFirstprivateClause", 1),
                ("OMPReductionClause", 1), ("OMPNowaitClause", 1)]
OPS_W = [("append", 8), ("insert", 12), ("setitem", 8), ("delitem", 6), ("remove", 6), ("pop", 10), ("poplast", 3),
         ("extend", 6), ("clear", 1), ("reverse", 3), ("sort", 1), ("addchild", 6), ("detach", 5),
         ("replace_with", 6), ("pop_all", 1), ("set_children", 5), ("iadd", 2), ("imul", 1), ("getslice", 1),
         ("setslice", 2), ("delslice", 2)]


def wchoice(rng, pairs):
    tot = sum(w for _, w in pairs)
    r = rng.random() * tot
    for v, w in pairs:
        r -= w
        if r < 0:
            return v
    return pairs[-1][0]


def make_pool(rng, n_nodes):
    pool = Pool()
    while len(pool.nodes) < n_nodes:
        pool.new(wchoice(rng, KIND_WEIGHTS), rng.randrange(2))
    return pool


def real_valid(pool, c, pos, x):
    return bool(type(pool.nodes[c])._validate_child(pos, pool.nodes[x]))


def builder(rng, n_build):
    """mostly-valid construction: put an orphan where the container's own rule accepts it"""
    def gen(pool, snap, k):
        if k >= n_build:
            return None
        n = len(snap)
        for _ in range(30):
            c = rng.randrange(n)
            ln = len(snap[c][1])
            anc, a = set(), c
            while a is not None and a not in anc:
                anc.add(a)
                a = snap[a][0]
            cand = [x for x in range(n) if snap[x][0] is None and x not in anc and real_valid(pool, c, ln, x)]
            if not cand:
                continue
            x = rng.choice(cand)
            r = rng.random()
            if r < 0.6:
                return ("append", c, x)
            if r < 0.8:
                return ("addchild", c, x, None)
            if r < 0.9:
                return ("extend", c, [x])
            return ("insert", c, ln, x)
        return ("sort", rng.randrange(n))
    return gen


def random_op(rng, pool, snap, focus=None):
    n = len(snap)
    name = wchoice(rng, OPS_W)
    with_kids = [c for c in range(n) if snap[c][1]]
    orphans = [x for x in range(n) if snap[x][0] is None]

    def container():
        if focus is not None and rng.random() < 0.5:
            return focus
        if with_kids and rng.random() < 0.75:
            return rng.choice(with_kids)
        return rng.randrange(n)

    def index(ln):
        r = rng.random()
        if r < 0.1:
            return rng.choice([-ln - 2, -ln - 1, ln, ln + 1, ln + 2])
        return rng.randint(-ln, max(ln - 1, 0)) if r < 0.8 else rng.randint(-ln - 2, ln + 2)

    def item(c, pos):
        """mostly an orphan that the container accepts at the intended position (rarely one of the
        container's ancestors: that is the cycle defect, which ends the history)"""
        anc, a = set(), c
        while a is not None and a not in anc:
            anc.add(a)
            a = snap[a][0]
        avoid = anc if rng.random() < 0.96 else set()
        r = rng.random()
        if r < 0.6 and pos is not None:
            cand = [x for x in orphans if x not in avoid and real_valid(pool, c, pos, x)]
            if cand:
                return rng.choice(cand)
        if r < 0.88:
            cand = [x for x in orphans if x not in avoid]
            if cand:
                return rng.choice(cand)
        return rng.randrange(n)

    c = container()
    ln = len(snap[c][1])
    if name == "append":
        return ("append", c, item(c, ln))
    if name == "insert":
        i = index(ln)
        return ("insert", c, i, item(c, py_clamp(ln, i)))
    if name == "addchild":
        if rng.random() < 0.3:
            return ("addchild", c, item(c, ln), None)
        i = index(ln)
        return ("addchild", c, item(c, py_clamp(ln, i)), i)
    if name == "setitem":
        i = index(ln)
        return ("setitem", c, i, item(c, py_norm(ln, i)))
    if name == "delitem":
        return ("delitem", c, index(ln))
    if name == "pop":
        return ("pop", c, index(ln))
    if name in ("poplast", "clear", "reverse", "sort", "pop_all"):
        return (name, c)
    if name == "remove":
        if snap[c][1] and rng.random() < 0.8:
            return ("remove", c, rng.choice(snap[c][1]))
        return ("remove", c, rng.randrange(n))
    if name == "extend":
        k = rng.choice([0, 1, 1, 2, 2, 3])
        xs = [item(c, ln + j) for j in range(k)]
        if len(xs) >= 2 and rng.random() < 0.05:
            xs[-1] = xs[0]
        return ("extend", c, xs)
    if name == "detach":
        non_orphans = [x for x in range(n) if snap[x][0] is not None]
        return ("detach", rng.choice(non_orphans) if non_orphans and rng.random() < 0.85 else rng.randrange(n))
    if name == "replace_with":
        non_orphans = [x for x in range(n) if snap[x][0] is not None]
        if non_orphans and rng.random() < 0.85:
            x = rng.choice(non_orphans)
            p = snap[x][0]
            return ("replace_with", x, item(p, snap[p][1].index(x) if x in snap[p][1] else None))
        return ("replace_with", rng.randrange(n), rng.randrange(n))
    if name == "iadd":
        # a non-empty `+=` is the (history-ending) open finding: mostly the harmless empty list
        return ("iadd", c, [] if rng.random() < 0.7 else [item(c, ln)])
    if name == "imul":
        return ("imul", c, 1 if rng.random() < 0.7 else rng.choice([0, 2, -1, 3]))
    if name in ("getslice", "delslice"):
        a, b = index(ln), index(ln)
        return (name, c, a, b, rng.choice([None, 1, 2, -1])) if name == "getslice" else (name, c, a, b)
    if name == "setslice":
        return ("setslice", c, index(ln), index(ln), [item(c, ln) for _ in range(rng.choice([0, 1, 2]))])
    if name == "set_children":
        cur = list(snap[c][1])
        r = rng.random()
        if r < 0.3:
            rng.shuffle(cur)
            xs = cur
        elif r < 0.6:
            xs = cur + [item(c, len(cur))]
        elif r < 0.8:
            xs = cur[:-1] if cur else []
        else:
            xs = [item(c, j) for j in range(rng.choice([0, 1, 2, 3]))]
        if len(xs) >= 2 and rng.random() < 0.08:
            xs[-1] = xs[0]
        # a failing assignment is the (history-ending) setter defect: keep it rare
        will_fail = any(not real_valid(pool, c, j, x) or (snap[x][0] is not None and snap[x][0] != c)
                        for j, x in enumerate(xs))
        if will_fail and rng.random() < 0.8:
            xs = list(snap[c][1])
        return ("set_children", c, xs)
    raise AssertionError(name)


def random_history(rng, n_build, n_random, prefix=(), focus=None):
    b = builder(rng, n_build)
    npre = len(prefix)

    def gen(pool, snap, k):
        if k < npre:
            return prefix[k]
        if k < npre + n_build:
            return b(pool, snap, k - npre)
        if k >= npre + n_build + n_random:
            return None
        return random_op(rng, pool, snap, focus)
    return gen


# position-sensitive containers, fully built by a scripted prefix; (kinds, prefix operations)
TEMPLATES = [
    ([("Loop", 0), ("Literal", 0), ("Literal", 1), ("Reference", 0), ("Schedule", 0)], [("extend", 0, [1, 2, 3, 4])]),
    ([("Call", 0), ("Reference", 0), ("Literal", 0), ("Reference", 1), ("Literal", 1)], [("extend", 0, [1, 2, 3])]),
    ([("IfBlock", 0), ("Literal", 0), ("Schedule", 0), ("Schedule", 0)], [("extend", 0, [1, 2, 3])]),
    ([("Assignment", 0), ("Reference", 0), ("Literal", 0)], [("append", 0, 1), ("addchild", 0, 2, None)]),
    ([("BinaryOperation", 0), ("Reference", 0), ("Literal", 0)], [("set_children", 0, [1, 2])]),
    ([("WhileLoop", 0), ("Literal", 0), ("Schedule", 0)], [("extend", 0, [1, 2])]),
    ([("Range", 0), ("Literal", 0), ("Literal", 1), ("Literal", 0)], [("extend", 0, [1, 2, 3])]),
    ([("OMPParallelDirective", 0), ("OMPDefaultClause", 0), ("OMPPrivateClause", 0), ("OMPFirstprivateClause", 0),
      ("OMPReductionClause", 0), ("OMPReductionClause", 0)], [("extend", 0, [2, 3, 4, 5]), ("append", 0, 6)]),
    ([("OMPSingleDirective", 0), ("OMPNowaitClause", 0)], [("append", 0, 2)]),
    ([("Schedule", 0), ("Return", 0), ("Return", 0), ("Assignment", 0), ("Assignment", 0)], [("extend", 0, [1, 3, 2, 4])]),
    ([("ArrayReference", 0), ("Literal", 0), ("Range", 0), ("Literal", 0)], [("extend", 0, [1, 2, 3])]),
]


def make_template_pool(rng, extra):
    kinds, prefix = rng.choice(TEMPLATES)
    pool = pool_from(kinds)
    for _ in range(extra):
        pool.new(wchoice(rng, KIND_WEIGHTS), rng.randrange(2))
    return pool, prefix


def scripted(ops):
    def gen(pool, snap, k):
        return ops[k] if k < len(ops) else None
    return gen


# targeted shapes: (name, kinds of the pool in creation order [(kind, attr)], operations)
def targeted():
    L, R = ("Literal", 0), ("Reference", 0)
    loop4 = [("Loop", 0), L, L, L, ("Schedule", 0)]                    # ids 0..4
    build_loop = [("extend", 0, [1, 2, 3, 4])]
    out = []
    out.append(("pop-negative-index", loop4, build_loop + [("pop", 0, -2)]))
    out.append(("delitem-negative-index", loop4, build_loop + [("delitem", 0, -2)]))
    out.append(("pop-positive-refused", loop4, build_loop + [("pop", 0, 2), ("pop", 0, 3), ("pop", 0, -1)]))
    out.append(("extend-duplicate", [("Schedule", 0), ("Return", 0)], [("extend", 0, [1, 1])]))
    out.append(("setitem-negative-index", [("Call", 0), R, L, L, L],
                [("extend", 0, [1, 2, 3]), ("setitem", 0, -3, 4)]))
    out.append(("insert-beyond-end", [("Loop", 0), ("Schedule", 0)], [("insert", 0, 3, 1)]))
    out.append(("insert-negative-index", [("Call", 0), R, L, L], [("extend", 0, [1, 2]), ("insert", 0, -2, 3)]))
    out.append(("addchild-negative-index", [("Call", 0), R, L, L], [("extend", 0, [1, 2]), ("addchild", 0, 3, -2)]))
    out.append(("remove-equal-node", [("Schedule", 0), ("Return", 0), ("Return", 0)],
                [("extend", 0, [1, 2]), ("remove", 0, 2)]))
    out.append(("setter-fails-after-pop", [("Schedule", 0), ("Return", 0), L],
                [("append", 0, 1), ("set_children", 0, [2])]))
    out.append(("append-ancestor", [("IfBlock", 0), L, ("Schedule", 0)],
                [("extend", 0, [1, 2]), ("append", 2, 0)]))
    out.append(("append-self", [("ArrayReference", 0)], [("append", 0, 0)]))
    out.append(("replace-routine-of-argless-call", [("Call", 0), R, R], [("append", 0, 1), ("replace_with", 1, 2)]))
    out.append(("iadd-alias", [("Schedule", 0), ("Return", 0)], [("iadd", 0, [1])]))
    out.append(("imul-alias", [("Schedule", 0), ("Return", 0)], [("append", 0, 1), ("imul", 0, 2)]))
    out.append(("imul-zero", [("Schedule", 0), ("Return", 0)], [("append", 0, 1), ("imul", 0, 0)]))
    out.append(("slices-refused", [("Schedule", 0), ("Return", 0), ("Return", 0), ("Return", 0)],
                [("extend", 0, [1, 2]), ("setslice", 0, 0, 1, [3]), ("delslice", 0, 0, 2), ("getslice", 0, None, None, 2),
                 ("iadd", 0, []), ("imul", 0, 1)]))
    out.append(("setter-permutes", [("Schedule", 0), ("Return", 0), ("Assignment", 0)],
                [("extend", 0, [1, 2]), ("set_children", 0, [2, 1]), ("reverse", 0), ("clear", 0)]))
    out.append(("ifblock-reverse", [("IfBlock", 0), L, ("Schedule", 0), ("Schedule", 0)],
                [("extend", 0, [1, 2, 3]), ("reverse", 0), ("pop", 0, 1), ("pop", 0, -1), ("detach", 2)]))
    out.append(("directive", [("OMPParallelDirective", 0), ("OMPDefaultClause", 0), ("OMPPrivateClause", 0),
                              ("OMPFirstprivateClause", 0), ("OMPReductionClause", 0), ("OMPReductionClause", 0)],
                [("extend", 0, [2, 3, 4, 5]), ("append", 0, 6), ("pop", 0, 4), ("pop", 0, -3), ("insert", 0, -1, 5)]))
    return out


def pool_from(kinds):
    pool = Pool()
    for k, a in kinds:
        pool.new(k, a)
    return pool


# ---------------------------------------------------------------- the check
def finding_key(rsn, text):
    key = R_NAMES.get(rsn, "unclassified/%d" % rsn)
    if rsn in R_TEXT:
        key += "@" + text[R_TEXT[rsn]].replace(" ", "")
    return key


def run(ctx):
    ctx.cov["rule"] = (
        "edit histories on forests of real PSyIR nodes of 20 kinds (loops, if-blocks, while-loops, assignments, "
        "calls, schedules, operations, ranges, references, literals, OpenMP directives and clauses): a "
        "mostly-valid construction prefix (<= 14 ops) followed by <= 12 (quick) / <= 40 (thorough) random "
        "operations among append/insert/__setitem__/__delitem__/remove/pop/extend/clear/reverse/sort/addchild/"
        "detach/replace_with/pop_all_children/children-setter with indices in [-len-2, len+2], plus targeted "
        "shapes; a history stops at the first step where the property fails on the real tree. "
        "non-trivial = at least one random-phase operation succeeded and changed the tree; distinct = distinct "
        "(node kinds, operations) history")
    ctx.cov["trusted_base"] = core.BASE_TRUST + [
        "props/C14/translate.py (AST templates of node.py; static translation of _validate_child cross-checked "
        "on a grid against the methods) is trusted glue",
        "coq/C14/Model.v is hand-written around the translated parameters; its fidelity (Python list index "
        "semantics, order of checks, exception kinds, structural __eq__) rests on this correspondence run",
        "the frozen reference table Model.valid_ref is the specification of 'valid at its position'"]
    ctx.assumptions = [
        "nodes are created without a constructor parent (Node(parent=...) is outside the model)",
        "fuel 64 stands for the interpreter's recursion limit (update_signal and __eq__ are recursive)",
        "only int indices (slices are refused by the implementation and are exercised separately)"]
    # --- translator
    tr = load_translator()
    try:
        T = tr.translate(core.REPO)
    except Exception as e:                                      # fail closed
        ctx.log("translator failed: %s" % str(e)[:300])
        T = None
        terr = "%s: %s" % (type(e).__name__, e)
    P = T["params"] if T else None
    ctx.notes["translated_parameters"] = (dict({k: v for k, v in P.items() if isinstance(v, bool)}, **T["text"])
                                          if T else None)
    ok, rep = (False, {"errors": ["translator failed"]})
    if T:
        ctx.notes["validate_child_grid_points_cross_checked"] = T["grid_checked"]
        ok, rep = ctx.prove()
        ctx.log("proof ok=%s discharged=%d/%d" % (ok, ctx.cov["discharged"], ctx.cov["obligations"]))
    header = "From Coq Require Import ZArith.\nFrom PV Require Import C14.Model C14.Model2 C14.Gen."
    if T and ok:
        shown = ctx.coq_eval_show(header, ["params_eqb P_src P_found", "P_okb P_src", "P2_okb P2_src"])
        ctx.notes["full_theorem_applies_incl_inplace_operators"] = shown[2].split(":")[0].strip().lstrip("= ").strip()
        ctx.notes["source_is_as_found"] = shown[0].split(":")[0].strip().lstrip("= ").strip()
        ctx.notes["full_theorem_applies_to_source"] = shown[1].split(":")[0].strip().lstrip("= ").strip()
        ctx.log("P_src = P_found: %s ; P_okb P_src: %s" % (ctx.notes["source_is_as_found"],
                                                         ctx.notes["full_theorem_applies_to_source"]))
    # when the translator cannot read the source, fall back to the as-found parameters so that the
    # search for a concrete failing input still runs
    if P is None:
        P = {"ie_insert": ("if", "CGe", ("idx",), ("const", 0), ("idx",), ("sub", ("len",), ("idx",))),
             "ie_set": ("idx",), "f_iadd": False, "f_imul": False, "f_extend_dup": False, "f_remove_unlink": False, "f_setter_atomic": False,
             "f_cycle_check": False}
        P["ie_pop"] = P["ie_del"] = P["ie_insert"]
        found = "index if index >= 0 else len(self) - index"
        text = {"ie_insert": found, "ie_pop": found, "ie_del": found, "ie_set": "index"}
    else:
        text = T["text"]
    ieval = tr.iexpr_eval

    # --- histories
    recs = []
    for name, kinds, ops in targeted():
        pool = pool_from(kinds)
        rec = run_history(pool, scripted(ops), P, ieval, len(ops))
        rec["name"] = name
        recs.append(rec)
    rng = ctx.rng("hist")
    n_hist = ctx.pick(450, 4000)
    n_random = ctx.pick(12, 40)
    for h in range(n_hist):
        n_rand = rng.randint(max(1, n_random // 3), n_random)
        if h % 2 == 0:
            pool = make_pool(rng, rng.randint(5, 14))
            n_build, prefix, focus = rng.randint(0, 14), (), None
        else:
            pool, prefix = make_template_pool(rng, rng.randint(1, 7))
            n_build, focus = rng.randint(0, 6), 0
        rec = run_history(pool, random_history(rng, n_build, n_rand, prefix, focus), P, ieval,
                          len(prefix) + n_build + n_rand)
        rec["name"] = "%s-%d" % ("random" if h % 2 == 0 else "template", h)
        rec["n_build"] = len(prefix) + n_build
        recs.append(rec)
    # --- statistics
    for rec in recs:
        nb = rec.get("n_build", 0)
        rand_steps = rec["steps"][nb:]
        nontriv = any(s["err"] == 0 and s["diff"] for s in rand_steps)
        ctx.count((rec["kinds"], [s["op"] for s in rec["steps"]]), nontriv)
        ctx.hist("history_length", len(rec["steps"]))
        ctx.hist("pool_size", len(rec["kinds"]))
        for s in rand_steps:
            ctx.hist("op", s["op"][0])
            ctx.hist("outcome", {0: "ok", 1: "GenerationError", 2: "IndexError", 3: "ValueError",
                                 4: "NotImplementedError", 5: "RecursionError", 6: "TypeError"}.get(s["err"], "other"))
            ctx.hist("reason", R_NAMES.get(s["reason"], s["reason"]))
            if s["op"][0] in ("insert", "setitem", "delitem", "pop") or (s["op"][0] == "addchild" and s["op"][3] is not None):
                i = s["op"][2] if s["op"][0] != "addchild" else s["op"][3]
                ctx.hist("index_sign", "negative" if i < 0 else "non-negative")
        ctx.hist("property_on_real_tree", "fails" if rec["fail"] else "holds")
    for rec in recs[:2] + recs[len(targeted()):len(targeted()) + 2]:
        ctx.sample({"name": rec["name"], "kinds": [k for k, _ in rec["kinds"]],
                    "ops": [list(s["op"]) for s in rec["steps"]][:30],
                    "errors": [s["err"] for s in rec["steps"]][:30], "property_failed": bool(rec["fail"])})
    # --- model vs implementation
    failing = []
    if T and ok:
        cases = [coq_case(r) for r in recs]
        failing = ctx.coq_eval_failing(header, "case2", "case2_ok P2_src valid_child argn_src", cases, shard=120)
    ctx.cov["disagreements_checked"] = len(failing)
    nfail = sum(1 for r in recs if r["fail"])
    ctx.log("histories=%d steps=%d model/impl disagreements=%d property failures on the real tree=%d"
            % (len(recs), sum(len(r["steps"]) for r in recs), len(failing), nfail))
    ctx.notes["steps_compared"] = sum(len(r["steps"]) for r in recs)

    def replay_of(rec, extra):
        f = rec["fail"]
        d = {"property": "C14", "history": rec["name"], "node_kinds": [list(k) for k in rec["kinds"]],
             "initial_forest(parent,children)": rec["init"], "operations": [list(s["op"]) for s in rec["steps"]],
             "how_to_replay": "create one node per entry of node_kinds (region directives bring their own Schedule, "
                              "which takes the next id), then apply the operations in order: append/insert/... are "
                              "node.children.<op>, addchild/detach/replace_with/pop_all(pop_all_children)/"
                              "set_children(children setter) are Node methods; see props/C14/check.py apply_real"}
        if f:
            d.update({"failing_step": f["step"], "failing_operation": list(f["op"]),
                      "observed_error_code": f["error_code"],
                      "observed": {"forest_before": f["before"], "forest_after": f["after"]},
                      "expected": "invariant holds after the step and a raising operation changes nothing",
                      "why": f["invariant"] or "operation raised (code %d) but the tree changed" % f["error_code"]})
        d.update(extra)
        return d

    bad = set(failing)
    reported = 0
    model_ok = bool(T and ok)
    seen_keys = set()
    # (1) concrete property failures on the real tree
    for idx, rec in enumerate(recs):
        if not rec["fail"]:
            continue
        f = rec["fail"]
        key = finding_key(f["reason"], text)
        if model_ok and idx in bad:
            # the faithful model does not predict this failure: always a violation
            if reported < 3:
                ctx.violation(replay_of(rec, {"note": "property fails on the real tree and the model instantiated "
                                                      "with the translated parameters does not reproduce the step"}))
                reported += 1
            continue
        if f["reason"] == 0:
            if reported < 3:
                ctx.violation(replay_of(rec, {"note": "property fails on the real tree although the operation is inside "
                                                      "the proved-safe fragment" + ("" if model_ok else
                                                      " (classified with the as-found parameters: translator/proofs did not build)"),
                                              "broken": None if model_ok else (rep.get("errors") if T else terr)}))
                reported += 1
            continue
        # a failure of one of the classified defect classes (model-predicted when the model is available)
        ctx.hist("finding_hits", key)
        if key not in seen_keys:
            seen_keys.add(key)
            ctx.finding(key, "%s (history %s step %d)" % (f["invariant"] or "raised but changed the tree", rec["name"], f["step"]),
                        replay_of(rec, {}))
    # (2) proof / translation / correspondence broken without a concrete failing input
    if not any(not nf for _, nf in ctx.violations):
        if not T:
            ctx.violation({"property": "C14", "broken": "translator props/C14/translate.py no longer recognises the "
                           "anchored code", "error": terr, "searched": "%d histories, %d steps: no concrete failure "
                           "beyond the known findings" % (len(recs), ctx.notes["steps_compared"])}, no_input=True)
        elif not ok:
            ctx.violation({"property": "C14", "broken": "proof obligations of Properties/C14.v", "proof_report": rep},
                          no_input=True)
        elif failing:
            i = failing[0]
            shown = ctx.coq_eval_show(header, ["case2_first_bad P2_src valid_child argn_src (%s)" % coq_case(recs[i])])
            ctx.violation({"property": "C14", "broken": "correspondence Model.step = ChildrenList/Node operations",
                           "first_differing_case": replay_of(recs[i], {}), "first_bad_step(1-based)": shown,
                           "steps": [{"op": list(s["op"]), "err": s["err"], "diff": s["diff"], "reason": s["reason"]}
                                     for s in recs[i]["steps"]],
                           "n_differing": len(failing)}, no_input=True)
    extra_checks(ctx)


def replay(ctx, path):
    """./check C14 --replay replays/C14-xxxx.json : re-run the recorded history on the tree under test"""
    d = json.loads(Path(path).read_text())
    d = d.get("first_differing_case", d)
    pool = pool_from([tuple(k) for k in d["node_kinds"]][:1] and [])
    # region directives register their own Schedule: recreate nodes in order, skipping those entries
    kinds = [tuple(k) for k in d["node_kinds"]]
    while len(pool.nodes) < len(kinds):
        pool.new(*kinds[len(pool.nodes)])
    snap = pool.snapshot()
    print("initial forest:", snap)
    rc = 0
    for k, op in enumerate(d["operations"]):
        op = tuple(tuple(x) if False else x for x in op)
        err = apply_real(pool, tuple(op))
        after = pool.snapshot()
        why = inv_direct(pool, after)
        changed = err != 0 and after != snap
        print("step %d %s -> error code %d; forest %s%s%s" % (k, list(op), err, after,
              "; INVARIANT FAILS: " + why if why else "", "; RAISED BUT CHANGED THE TREE" if changed else ""))
        if why or changed:
            rc = 1
        snap = after
    return rc


def extra_checks(ctx):
    """operations outside the model that must be refused without changing the tree: slices"""
    from psyclone.psyir import nodes as N
    s = N.Schedule()
    a, b = N.Return(), N.Return()
    s.children.extend([a, b])
    before = [id(c) for c in s.children]
    outcomes = []
    for name, f in (("del children[0:1]", lambda: s.children.__delitem__(slice(0, 1))),
                    ("children[0:1] = [Return()]", lambda: s.children.__setitem__(slice(0, 1), [N.Return()]))):
        try:
            f()
            outcomes.append((name, "accepted"))
        except Exception as e:
            outcomes.append((name, type(e).__name__))
        ctx.count(("slice", name), False)
    after = [id(c) for c in s.children]
    ctx.notes["slice_operations"] = outcomes
    # in-place list operators are not overridden by ChildrenList (not modelled; replayed directly)
    import operator
    s2, r2 = N.Schedule(), N.Return()
    alias = s2.children
    try:
        operator.iadd(alias, [r2])
    except Exception:
        pass
    ctx.count(("inplace", "+="), False)
    if any(c.parent is not s2 for c in list.__iter__(s2.children)):
        ctx.finding("ChildrenList.__iadd__/not-overridden",
                    "children list `+=` bypasses validation and parent links",
                    {"property": "C14", "replay": "s = Schedule(); l = s.children; l += [Return()]  -> the Return is "
                     "listed by s but its parent is None"})
    s3, r3 = N.Schedule(), N.Return()
    s3.addchild(r3)
    alias = s3.children
    try:
        operator.imul(alias, 2)
    except Exception:
        pass
    ctx.count(("inplace", "*="), False)
    ids3 = [id(c) for c in list.__iter__(s3.children)]
    if len(set(ids3)) != len(ids3):
        ctx.finding("ChildrenList.__imul__/not-overridden",
                    "children list `*=` lists every child several times",
                    {"property": "C14", "replay": "s = Schedule(); s.addchild(Return()); l = s.children; l *= 2  -> the "
                     "Return is listed twice"})
    if before != after or any(c.parent is not s for c in s.children):
        ok_tree = all(c.parent is s for c in s.children) and len(set(after)) == len(after) and \
            all(isinstance(c, N.Statement) for c in s.children)
        if not ok_tree:
            ctx.violation({"property": "C14", "what": "slice operation on Schedule.children broke the tree",
                           "outcomes": outcomes})
