"""C14 translator: /repo's node.py + the _validate_child methods  ->  coq/C14/Gen.v   (fail-closed)

What is read from the working tree under test (core.REPO):
  * every ChildrenList method and the Node methods addchild / children setter / replace_with /
    pop_all_children / detach / position / update_signal are matched (Python `ast`, docstrings
    dropped) against templates.  The templates have HOLES for the index arithmetic
    (`positiveindex = <expr>`), which is translated compositionally into the deep-embedded
    `iexpr` of coq/C14/Model.v, and VARIANTS for the four statements whose presence differs
    between the as-found and the repaired code (duplicate check in extend, which node remove
    unlinks, restore in the children setter, ancestor walk in _check_is_orphan).  Anything else
    raises TranslateError: the check then reports the property as no longer shown.
  * the `_validate_child` static method of each of the 20 node classes of Model.kind is translated
    statically (if/return chains over `position` comparisons and isinstance(child, ...)) into the
    Gallina function `valid_child`, `isinstance` being resolved with the real class hierarchy; the
    result is cross-checked dynamically against Cls._validate_child(pos, instance) on a grid.
Usable as a script (writes Gen.v) and as a module (check.py calls translate())."""
import ast
import importlib
import inspect
import os
import sys
import textwrap
from pathlib import Path

HERE = Path(__file__).resolve().parent
VERIF = HERE.parent.parent
if str(VERIF) not in sys.path:
    sys.path.insert(0, str(VERIF))
from vlib import core  # noqa: E402

KINDS = ["Schedule", "Loop", "IfBlock", "WhileLoop", "Assignment", "Call", "Return",
         "BinaryOperation", "UnaryOperation", "Range", "ArrayReference", "Reference", "Literal",
         "OMPParallelDirective", "OMPSingleDirective", "OMPDefaultClause", "OMPPrivateClause",
         "OMPFirstprivateClause", "OMPReductionClause", "OMPNowaitClause"]


class TranslateError(Exception):
    pass


# ------------------------------------------------------------------ ast matching with holes
def _strip_doc(body):
    if body and isinstance(body[0], ast.Expr) and isinstance(body[0].value, ast.Constant) \
            and isinstance(body[0].value.value, str):
        return body[1:] or [ast.Pass()]
    return body


def _match(t, a, holes):
    """structural equality of template node t and actual node a; Name('HOLE_x') captures an
    expression, Name('ANY_') matches any expression."""
    if isinstance(t, ast.Name) and t.id.startswith("HOLE_"):
        if not isinstance(a, ast.expr):
            return False
        holes[t.id[5:]] = a
        return True
    if isinstance(t, ast.Name) and t.id == "ANY_":
        return isinstance(a, ast.expr)
    if type(t) is not type(a):
        return False
    if isinstance(t, ast.AST):
        for f in t._fields:
            if f in ("ctx", "type_comment", "kind"):
                continue
            tv, av = getattr(t, f, None), getattr(a, f, None)
            if f == "body" and isinstance(tv, list) and isinstance(t, (ast.FunctionDef, ast.ClassDef)):
                tv, av = _strip_doc(tv), _strip_doc(av)
            if f in ("decorator_list", "returns"):
                continue
            if not _match(tv, av, holes):
                return False
        return True
    if isinstance(t, list):
        return len(t) == len(a) and all(_match(x, y, holes) for x, y in zip(t, a))
    return t == a


def _func(src):
    return ast.parse(textwrap.dedent(src)).body[0]


def match_variants(name, actual, variants):
    """variants: list of (tag, template source).  Returns (tag, holes)."""
    for tag, src in variants:
        holes = {}
        if _match(_func(src), actual, holes):
            return tag, holes
    raise TranslateError("method %s does not match any known shape:\n%s" % (name, ast.unparse(actual)))


# ------------------------------------------------------------------ index expressions
CMPS = {ast.Lt: "CLt", ast.LtE: "CLe", ast.Gt: "CGt", ast.GtE: "CGe", ast.Eq: "CEq", ast.NotEq: "CNe"}


def iexpr(e):
    """Python expression over `index` and `len(self)` -> tuple AST"""
    if isinstance(e, ast.Name) and e.id == "index":
        return ("idx",)
    if isinstance(e, ast.Call) and isinstance(e.func, ast.Name) and e.func.id == "len" and len(e.args) == 1 \
            and isinstance(e.args[0], ast.Name) and e.args[0].id == "self" and not e.keywords:
        return ("len",)
    if isinstance(e, ast.Constant) and type(e.value) is int:
        return ("const", e.value)
    if isinstance(e, ast.UnaryOp) and isinstance(e.op, ast.USub) and isinstance(e.operand, ast.Constant) \
            and type(e.operand.value) is int:
        return ("const", -e.operand.value)
    if isinstance(e, ast.BinOp) and isinstance(e.op, (ast.Add, ast.Sub)):
        return ("add" if isinstance(e.op, ast.Add) else "sub", iexpr(e.left), iexpr(e.right))
    if isinstance(e, ast.Call) and isinstance(e.func, ast.Name) and e.func.id in ("min", "max") \
            and len(e.args) == 2 and not e.keywords:
        return (e.func.id, iexpr(e.args[0]), iexpr(e.args[1]))
    if isinstance(e, ast.IfExp) and isinstance(e.test, ast.Compare) and len(e.test.ops) == 1 \
            and type(e.test.ops[0]) in CMPS:
        return ("if", CMPS[type(e.test.ops[0])], iexpr(e.test.left), iexpr(e.test.comparators[0]),
                iexpr(e.body), iexpr(e.orelse))
    raise TranslateError("unsupported index expression: " + ast.unparse(e))


def iexpr_coq(t):
    k = t[0]
    if k == "idx":
        return "IIdx"
    if k == "len":
        return "ILen"
    if k == "const":
        return "(IConst (%d))" % t[1]
    if k in ("add", "sub", "min", "max"):
        return "(I%s %s %s)" % (k.capitalize(), iexpr_coq(t[1]), iexpr_coq(t[2]))
    if k == "if":
        return "(IIf %s %s %s %s %s)" % (t[1], iexpr_coq(t[2]), iexpr_coq(t[3]), iexpr_coq(t[4]), iexpr_coq(t[5]))
    raise TranslateError(str(t))


def iexpr_eval(t, ln, idx):
    k = t[0]
    if k == "idx":
        return idx
    if k == "len":
        return ln
    if k == "const":
        return t[1]
    if k == "add":
        return iexpr_eval(t[1], ln, idx) + iexpr_eval(t[2], ln, idx)
    if k == "sub":
        return iexpr_eval(t[1], ln, idx) - iexpr_eval(t[2], ln, idx)
    if k == "min":
        return min(iexpr_eval(t[1], ln, idx), iexpr_eval(t[2], ln, idx))
    if k == "max":
        return max(iexpr_eval(t[1], ln, idx), iexpr_eval(t[2], ln, idx))
    if k == "if":
        a, b = iexpr_eval(t[2], ln, idx), iexpr_eval(t[3], ln, idx)
        c = {"CLt": a < b, "CLe": a <= b, "CGt": a > b, "CGe": a >= b, "CEq": a == b, "CNe": a != b}[t[1]]
        return iexpr_eval(t[4], ln, idx) if c else iexpr_eval(t[5], ln, idx)
    raise TranslateError(str(t))


# ------------------------------------------------------------------ templates (node.py)
T_CHILDRENLIST = {
    "_set_parent_link": [("std", """
        def _set_parent_link(self, node):
            node._parent = self._node_reference
            node._has_constructor_parent = False
        """)],
    "_del_parent_link": [("std", """
        def _del_parent_link(node):
            node._parent = None
            node._has_constructor_parent = False
        """)],
    "append": [("std", """
        def append(self, item):
            self._validate_item(len(self), item)
            self._check_is_orphan(item)
            super().append(item)
            self._set_parent_link(item)
            self._node_reference.update_signal()
        """)],
    "__setitem__": [("found", """
        def __setitem__(self, index, item):
            self._validate_item(HOLE_ie, item)
            self._check_is_orphan(item)
            self._del_parent_link(self[index])
            super().__setitem__(index, item)
            self._set_parent_link(item)
            self._node_reference.update_signal()
        """), ("normalised", """
        def __setitem__(self, index, item):
            positiveindex = HOLE_ie
            self._validate_item(positiveindex, item)
            self._check_is_orphan(item)
            self._del_parent_link(self[index])
            super().__setitem__(index, item)
            self._set_parent_link(item)
            self._node_reference.update_signal()
        """)],
    "insert": [("std", """
        def insert(self, index, item):
            positiveindex = HOLE_ie
            self._validate_item(positiveindex, item)
            self._check_is_orphan(item)
            for position in range(positiveindex, len(self)):
                self._validate_item(position + 1, self[position])
            super().insert(index, item)
            self._set_parent_link(item)
            self._node_reference.update_signal()
        """)],
    "extend": [("found", """
        def extend(self, items):
            for index, item in enumerate(items):
                self._validate_item(len(self) + index, item)
                self._check_is_orphan(item)
            super().extend(items)
            for item in items:
                self._set_parent_link(item)
            self._node_reference.update_signal()
        """), ("dupcheck", """
        def extend(self, items):
            for index, item in enumerate(items):
                self._validate_item(len(self) + index, item)
                self._check_is_orphan(item)
                if any(item is other for other in items[:index]):
                    raise GenerationError(ANY_)
            super().extend(items)
            for item in items:
                self._set_parent_link(item)
            self._node_reference.update_signal()
        """)],
    "__delitem__": [("std", """
        def __delitem__(self, index):
            positiveindex = HOLE_ie
            for position in range(positiveindex + 1, len(self)):
                self._validate_item(position - 1, self[position])
            self._del_parent_link(self[index])
            super().__delitem__(index)
            self._node_reference.update_signal()
        """)],
    "remove": [("found", """
        def remove(self, item):
            for position in range(self.index(item) + 1, len(self)):
                self._validate_item(position - 1, self[position])
            self._del_parent_link(item)
            super().remove(item)
            self._node_reference.update_signal()
        """), ("unlink_removed", """
        def remove(self, item):
            index = self.index(item)
            for position in range(index + 1, len(self)):
                self._validate_item(position - 1, self[position])
            self._del_parent_link(self[index])
            super().remove(item)
            self._node_reference.update_signal()
        """)],
    "pop": [("std", """
        def pop(self, index=-1):
            positiveindex = HOLE_ie
            for position in range(positiveindex + 1, len(self)):
                self._validate_item(position - 1, self[position])
            self._del_parent_link(self[index])
            obj = super().pop(index)
            self._node_reference.update_signal()
            return obj
        """)],
    "reverse": [("std", """
        def reverse(self):
            for index, item in enumerate(self):
                self._validate_item(len(self) - index - 1, item)
            super().reverse()
            self._node_reference.update_signal()
        """)],
    "clear": [("std", """
        def clear(self):
            for item in self:
                self._del_parent_link(item)
            super().clear()
            self._node_reference.update_signal()
        """)],
    "sort": [("std", """
        def sort(self, reverse=False, key=None):
            raise NotImplementedError(ANY_)
        """)],
    "_check_is_orphan": [("found", """
        def _check_is_orphan(self, item):
            if item.parent and not item.has_constructor_parent:
                raise GenerationError(ANY_)
            if item.parent and item.has_constructor_parent:
                if item.parent is not self._node_reference:
                    raise GenerationError(ANY_)
        """), ("cyclecheck", """
        def _check_is_orphan(self, item):
            if item.parent and not item.has_constructor_parent:
                raise GenerationError(ANY_)
            if item.parent and item.has_constructor_parent:
                if item.parent is not self._node_reference:
                    raise GenerationError(ANY_)
            cursor = self._node_reference
            while cursor is not None:
                if cursor is item:
                    raise GenerationError(ANY_)
                cursor = cursor.parent
        """)],
}
T_OPTIONAL = {
    "__iadd__": [("extend", """
        def __iadd__(self, items):
            self.extend(items)
            return self
        """)],
    "__imul__": [("raises", """
        def __imul__(self, value):
            raise NotImplementedError(ANY_)
        """)],
}
T_NODE = {
    "addchild": [("std", """
        def addchild(self, child, index=None):
            if index is not None:
                self._children.insert(index, child)
            else:
                self._children.append(child)
        """)],
    "parent": [("std", """
        def parent(self):
            return self._parent
        """)],
    "position": [("std", """
        def position(self):
            if self.parent is None:
                return self.START_POSITION
            for index, child in enumerate(self.parent.children):
                if child is self:
                    return index
        """)],
    "pop_all_children": [("std", """
        def pop_all_children(self):
            free_children = []
            while self.children:
                free_children.insert(0, self.children.pop())
            return free_children
        """)],
    "detach": [("std", """
        def detach(self):
            if self.parent:
                index = self.position
                self.parent.children.pop(index)
            return self
        """)],
    "replace_with": [("std", """
        def replace_with(self, node, keep_name_in_context=True):
            if not isinstance(node, Node):
                raise TypeError(ANY_)
            if not isinstance(keep_name_in_context, bool):
                raise TypeError(ANY_)
            if not self.parent:
                raise GenerationError(ANY_)
            if node.parent is not None:
                raise GenerationError(ANY_)
            if keep_name_in_context and hasattr(self.parent, "argument_names") \\
                    and self.parent.argument_names[self.position - 1] is not None:
                name = self.parent.argument_names[self.position - 1]
                self.parent.replace_named_arg(name, node)
            else:
                self.parent.children[self.position] = node
        """)],
    "update_signal": [("std", """
        def update_signal(self):
            if self._disable_tree_update:
                return
            self._disable_tree_update = True
            self._update_node()
            self._disable_tree_update = False
            if self._parent:
                self._parent.update_signal()
        """)],
    "_update_node": [("std", """
        def _update_node(self):
            pass
        """)],
}
T_CHILDREN_PROP = [("getter", """
        def children(self):
            return self._children
        """), ("found", """
        def children(self, my_children):
            if isinstance(my_children, list):
                self.pop_all_children()
                self._children = ChildrenList(self, self._validate_child, self._children_valid_format)
                self._children.extend(my_children)
            else:
                raise TypeError(ANY_)
        """), ("atomic", """
        def children(self, my_children):
            if isinstance(my_children, list):
                old_children = self.pop_all_children()
                self._children = ChildrenList(self, self._validate_child, self._children_valid_format)
                try:
                    self._children.extend(my_children)
                except Exception:
                    self._children = ChildrenList(self, self._validate_child, self._children_valid_format)
                    self._children.extend(old_children)
                    raise
            else:
                raise TypeError(ANY_)
        """)]


def _check_validate_item(fn):
    """_validate_item: `if not self._validation_function(index, item): <build errmsg>; raise GenerationError`"""
    body = _strip_doc(fn.body)
    ok = len(body) == 1 and isinstance(body[0], ast.If) and not body[0].orelse and \
        ast.unparse(body[0].test) == "not self._validation_function(index, item)" and \
        [a.arg for a in fn.args.args] == ["self", "index", "item"]
    if ok:
        def only_msgs(stmts):
            for s in stmts:
                if isinstance(s, ast.Assign) and len(s.targets) == 1 and isinstance(s.targets[0], ast.Name):
                    continue
                if isinstance(s, ast.If) and only_msgs(s.body) and only_msgs(s.orelse):
                    continue
                return False
            return True
        inner = body[0].body
        ok = only_msgs(inner[:-1]) and isinstance(inner[-1], ast.Raise) and \
            ast.unparse(inner[-1].exc).startswith("GenerationError(")
    if not ok:
        raise TranslateError("ChildrenList._validate_item has an unknown shape:\n" + ast.unparse(fn))


def _node_init_ok(fn):
    """Node.__init__ must create the ChildrenList with the class's _validate_child."""
    src = ast.unparse(fn)
    need = ["self._children = ChildrenList(self, self._validate_child, self._children_valid_format)",
            "self._parent = parent", "self._has_constructor_parent = parent is not None"]
    for n in need:
        if n not in src:
            raise TranslateError("Node.__init__: expected statement not found: " + n)


def translate_node_py(repo):
    path = Path(repo) / "src/psyclone/psyir/nodes/node.py"
    tree = ast.parse(path.read_text())
    classes = {c.name: c for c in tree.body if isinstance(c, ast.ClassDef)}
    for need in ("ChildrenList", "Node"):
        if need not in classes:
            raise TranslateError("class %s not found in node.py" % need)
    cl = classes["ChildrenList"]
    if [ast.unparse(b) for b in cl.bases] != ["list"]:
        raise TranslateError("ChildrenList is not a direct subclass of list")
    methods = {f.name: f for f in cl.body if isinstance(f, ast.FunctionDef)}
    expected = set(T_CHILDRENLIST) | {"__init__", "_validate_item"}
    extra = set(methods) - expected - set(T_OPTIONAL)
    missing = expected - set(methods)
    if extra or missing:
        raise TranslateError("ChildrenList methods changed: unexpected %s, missing %s" % (sorted(extra), sorted(missing)))
    _check_validate_item(methods["_validate_item"])
    init = ast.unparse(methods["__init__"])
    for n in ("super().__init__()", "self._node_reference = node", "self._validation_function = validation_function"):
        if n not in init:
            raise TranslateError("ChildrenList.__init__: expected statement not found: " + n)
    tags, holes = {}, {}
    for name, variants in T_CHILDRENLIST.items():
        tags[name], holes[name] = match_variants("ChildrenList." + name, methods[name], variants)
    for name, variants in T_OPTIONAL.items():
        if name in methods:
            tags[name], _ = match_variants("ChildrenList." + name, methods[name], variants)
    nd = classes["Node"]
    nmethods = {}
    children_defs = []
    for f in nd.body:
        if isinstance(f, ast.FunctionDef):
            if f.name == "children":
                children_defs.append(f)
            else:
                nmethods.setdefault(f.name, f)
    for name, variants in T_NODE.items():
        if name not in nmethods:
            raise TranslateError("Node.%s not found" % name)
        tags["Node." + name], _ = match_variants("Node." + name, nmethods[name], variants)
    _node_init_ok(nmethods["__init__"])
    if len(children_defs) != 2:
        raise TranslateError("Node.children: expected a getter and a setter")
    ctags = [match_variants("Node.children", f, T_CHILDREN_PROP)[0] for f in children_defs]
    if ctags[0] != "getter" or ctags[1] not in ("found", "atomic"):
        raise TranslateError("Node.children getter/setter not recognised: %s" % ctags)
    # no other list-mutating dunder may be defined on Node that bypasses ChildrenList
    params = {
        "ie_insert": iexpr(holes["insert"]["ie"]),
        "ie_pop": iexpr(holes["pop"]["ie"]),
        "ie_del": iexpr(holes["__delitem__"]["ie"]),
        "ie_set": iexpr(holes["__setitem__"]["ie"]),
        "f_extend_dup": tags["extend"] == "dupcheck",
        "f_remove_unlink": tags["remove"] == "unlink_removed",
        "f_setter_atomic": ctags[1] == "atomic",
        "f_cycle_check": tags["_check_is_orphan"] == "cyclecheck",
        "f_iadd": tags.get("__iadd__") == "extend",
        "f_imul": tags.get("__imul__") == "raises",
        "e_setslice": "EGen" if tags["__setitem__"] == "found" else "EType",
    }
    text = {k: ast.unparse(holes[m]["ie"]) for k, m in
            (("ie_insert", "insert"), ("ie_pop", "pop"), ("ie_del", "__delitem__"), ("ie_set", "__setitem__"))}
    return params, text


# ------------------------------------------------------------------ _validate_child rules
def _import_nodes(repo):
    src = str(Path(repo) / "src")
    if src not in sys.path:
        sys.path.insert(0, src)
    os.environ.setdefault("PSYCLONE_CONFIG", str(Path(repo) / "config/psyclone.cfg"))
    mod = importlib.import_module("psyclone.psyir.nodes")
    got = Path(inspect.getfile(mod)).resolve()
    if not str(got).startswith(str(Path(repo).resolve())):
        raise TranslateError("psyclone imported from %s, not from the tree under test %s" % (got, repo))
    return mod


def rule_expr(e, ns):
    """boolean expression of a _validate_child body -> tuple AST"""
    if isinstance(e, ast.Constant) and isinstance(e.value, bool):
        return ("const", e.value)
    if isinstance(e, ast.BoolOp):
        return ("and" if isinstance(e.op, ast.And) else "or",) + tuple(rule_expr(v, ns) for v in e.values)
    if isinstance(e, ast.UnaryOp) and isinstance(e.op, ast.Not):
        return ("not", rule_expr(e.operand, ns))
    if isinstance(e, ast.Compare) and len(e.ops) == 1 and isinstance(e.left, ast.Name) and e.left.id == "position":
        op, rhs = e.ops[0], e.comparators[0]
        if type(op) in CMPS and isinstance(rhs, ast.Constant) and type(rhs.value) is int:
            return ("cmp", CMPS[type(op)], rhs.value)
        if isinstance(op, ast.In) and isinstance(rhs, (ast.Tuple, ast.List)) and \
                all(isinstance(x, ast.Constant) and type(x.value) is int for x in rhs.elts):
            return ("in", tuple(x.value for x in rhs.elts))
    if isinstance(e, ast.Call) and isinstance(e.func, ast.Name) and e.func.id == "isinstance" and len(e.args) == 2 \
            and isinstance(e.args[0], ast.Name) and e.args[0].id == "child" and not e.keywords:
        names = e.args[1].elts if isinstance(e.args[1], ast.Tuple) else [e.args[1]]
        classes = []
        for n in names:
            if not isinstance(n, ast.Name) or n.id not in ns or not inspect.isclass(ns[n.id]):
                raise TranslateError("isinstance against something that is not a known class: " + ast.unparse(e))
            classes.append(ns[n.id])
        return ("isinstance", tuple(classes))
    raise TranslateError("unsupported expression in _validate_child: " + ast.unparse(e))


def rule_body(stmts, ns):
    stmts = _strip_doc(stmts)
    if not stmts:
        raise TranslateError("_validate_child falls off its end")
    s = stmts[0]
    if isinstance(s, ast.Return) and s.value is not None:
        return rule_expr(s.value, ns)
    if isinstance(s, ast.If) and not s.orelse:
        return ("ite", rule_expr(s.test, ns), rule_body(s.body, ns), rule_body(stmts[1:], ns))
    raise TranslateError("unsupported statement in _validate_child: " + ast.unparse(s))


def rule_eval(r, pos, child):
    k = r[0]
    if k == "const":
        return r[1]
    if k == "and":
        return all(rule_eval(x, pos, child) for x in r[1:])
    if k == "or":
        return any(rule_eval(x, pos, child) for x in r[1:])
    if k == "not":
        return not rule_eval(r[1], pos, child)
    if k == "cmp":
        return {"CLt": pos < r[2], "CLe": pos <= r[2], "CGt": pos > r[2], "CGe": pos >= r[2],
                "CEq": pos == r[2], "CNe": pos != r[2]}[r[1]]
    if k == "in":
        return pos in r[1]
    if k == "isinstance":
        return isinstance(child, r[1])
    if k == "ite":
        return rule_eval(r[2], pos, child) if rule_eval(r[1], pos, child) else rule_eval(r[3], pos, child)
    raise TranslateError(str(r))


def rule_coq(r, kind_classes):
    k = r[0]
    if k == "const":
        return "true" if r[1] else "false"
    if k in ("and", "or"):
        return "(" + (" && " if k == "and" else " || ").join(rule_coq(x, kind_classes) for x in r[1:]) + ")"
    if k == "not":
        return "(negb %s)" % rule_coq(r[1], kind_classes)
    if k == "cmp":
        return "(cmp_eval %s pos (%d))" % (r[1], r[2])
    if k == "in":
        return "(" + " || ".join("(pos =? (%d))" % v for v in r[1]) + ")" if r[1] else "false"
    if k == "isinstance":
        ks = [n for n, c in kind_classes.items() if issubclass(c, r[1])]
        return "(kind_in xk [%s])" % "; ".join("K" + n for n in ks)
    if k == "ite":
        return "(if %s then %s else %s)" % tuple(rule_coq(x, kind_classes) for x in r[1:])
    raise TranslateError(str(r))


def make_instances(nodes):
    """one instance per kind (for the dynamic cross-check and for the harness)."""
    from psyclone.psyir.symbols import DataSymbol, INTEGER_TYPE, ArrayType
    sx = DataSymbol("x", INTEGER_TYPE)
    arr = DataSymbol("a", ArrayType(INTEGER_TYPE, [10]))
    return {
        "Schedule": nodes.Schedule(), "Loop": nodes.Loop(variable=DataSymbol("i", INTEGER_TYPE)),
        "IfBlock": nodes.IfBlock(), "WhileLoop": nodes.WhileLoop(), "Assignment": nodes.Assignment(),
        "Call": nodes.Call(), "Return": nodes.Return(),
        "BinaryOperation": nodes.BinaryOperation(nodes.BinaryOperation.Operator.ADD),
        "UnaryOperation": nodes.UnaryOperation(nodes.UnaryOperation.Operator.MINUS),
        "Range": nodes.Range(), "ArrayReference": nodes.ArrayReference(arr), "Reference": nodes.Reference(sx),
        "Literal": nodes.Literal("1", INTEGER_TYPE), "OMPParallelDirective": nodes.OMPParallelDirective(),
        "OMPSingleDirective": nodes.OMPSingleDirective(), "OMPDefaultClause": nodes.OMPDefaultClause(),
        "OMPPrivateClause": nodes.OMPPrivateClause(), "OMPFirstprivateClause": nodes.OMPFirstprivateClause(),
        "OMPReductionClause": nodes.OMPReductionClause(), "OMPNowaitClause": nodes.OMPNowaitClause(),
    }


def translate_rules(repo):
    nodes = _import_nodes(repo)
    kind_classes = {}
    for n in KINDS:
        if not hasattr(nodes, n):
            raise TranslateError("node class %s not found" % n)
        kind_classes[n] = getattr(nodes, n)
    rules = {}
    for n, cls in kind_classes.items():
        raw = inspect.getattr_static(cls, "_validate_child")
        if not isinstance(raw, staticmethod):
            raise TranslateError("%s._validate_child is not a staticmethod" % n)
        fn = raw.__func__
        owner_mod = importlib.import_module(fn.__module__)
        src = textwrap.dedent(inspect.getsource(fn))
        fdef = ast.parse(src).body[0]
        if [a.arg for a in fdef.args.args] != ["position", "child"]:
            raise TranslateError("%s._validate_child has unexpected arguments" % n)
        rules[n] = rule_body(fdef.body, vars(owner_mod))
    # dynamic cross-check of the static translation
    inst = make_instances(nodes)
    checked = 0
    for n, cls in kind_classes.items():
        for xn, x in inst.items():
            for pos in range(-3, 10):
                real = bool(cls._validate_child(pos, x))
                if real != bool(rule_eval(rules[n], pos, x)):
                    raise TranslateError("static translation of %s._validate_child disagrees with the method at "
                                         "position %d, child %s" % (n, pos, xn))
                checked += 1
    argn = [n for n, cls in kind_classes.items() if hasattr(inst[n], "argument_names")]
    return rules, kind_classes, argn, checked


def gen_v(params, rules, kind_classes, argn):
    lines = ["(* GENERATED by props/C14/translate.py from the PSyclone working tree — do not edit *)",
             "From Coq Require Import List ZArith Bool.", "Import ListNotations.",
             "From PV Require Import C14.Model C14.Model2.", "Local Open Scope Z_scope.", "",
             "Definition valid_child (ck : kind) (pos : Z) (xk : kind) : bool :=", "  match ck with"]
    for n in KINDS:
        lines.append("  | K%s => %s" % (n, rule_coq(rules[n], kind_classes)))
    lines += ["  end.", "",
              "Definition argn_src (k : kind) : bool := kind_in k [%s]." % "; ".join("K" + n for n in argn), "",
              "Definition P_src : params :=",
              "  mkParams %s\n           %s\n           %s\n           %s\n           %s %s %s %s." % (
                  iexpr_coq(params["ie_insert"]), iexpr_coq(params["ie_pop"]), iexpr_coq(params["ie_del"]),
                  iexpr_coq(params["ie_set"]),
                  *[("true" if params[k] else "false") for k in
                    ("f_extend_dup", "f_remove_unlink", "f_setter_atomic", "f_cycle_check")]), "",
              "Definition P2_src : params2 := mkParams2 P_src %s %s %s." % (
                  "true" if params["f_iadd"] else "false", "true" if params["f_imul"] else "false",
                  params["e_setslice"]), ""]
    return "\n".join(lines)


def translate(repo=None, write=True):
    repo = repo or core.REPO
    params, text = translate_node_py(repo)
    rules, kind_classes, argn, checked = translate_rules(repo)
    v = gen_v(params, rules, kind_classes, argn)
    if write:
        core.write_if_changed(core.COQ / "C14" / "Gen.v", v)
    return {"params": params, "text": text, "rules": rules, "kind_classes": kind_classes, "argn": argn,
            "grid_checked": checked, "gen_v": v}


if __name__ == "__main__":
    r = translate()
    print("C14 translator: P_src =", {k: (v if not isinstance(v, tuple) else r["text"][k]) for k, v in r["params"].items()},
          "rules for %d kinds, grid points cross-checked: %d" % (len(r["rules"]), r["grid_checked"]))
