"""C27 — ModuleManager.sort_modules.  Tie: correspondence (hand-written model, DESIGN 5/C27).

Model: coq/C27/Model.v (sort_modules on association lists).  Theorems: coq/Properties/C27.v.
The harness enumerates dependency maps, runs the real ModuleManager.sort_modules and the model
(vm_compute inside coqc) and requires list equality; independently it evaluates the property
itself (permutation, dependencies-first when acyclic) on the implementation's answer (the search
for a concrete failing input)."""
import contextlib
import io
import itertools

from vlib import core


def impl_sort(depmap, ignore=()):
    """Run the real sort_modules; `ignore` = module numbers put on the manager's ignore list (the
    list only silences the 'cannot find module' warning: it must not change the result)."""
    from psyclone.parse import ModuleManager
    mm = ModuleManager.get()
    d = {("m%d" % k): set("m%d" % x for x in ds) for k, ds in depmap}
    saved = set(mm._ignore_modules)
    try:
        for k in ignore:
            mm.add_ignore_module("m%d" % k)
        with contextlib.redirect_stdout(io.StringIO()):
            res = mm.sort_modules(d)
    finally:
        mm._ignore_modules.clear()
        mm._ignore_modules.update(saved)
    return [int(x[1:]) for x in res]


def is_acyclic(depmap):
    known = {k for k, _ in depmap}
    g = {k: [d for d in ds if d in known] for k, ds in depmap}
    state = {}

    def visit(n):
        if state.get(n) == 1:
            return False
        if state.get(n) == 2:
            return True
        state[n] = 1
        ok = all(visit(x) for x in g[n])
        state[n] = 2
        return ok
    return all(visit(k) for k in g)


def property_holds(depmap, res):
    keys = [k for k, _ in depmap]
    if sorted(res) != sorted(keys):
        return "not a permutation of the listed modules"
    if is_acyclic(depmap):
        pos = {k: i for i, k in enumerate(res)}
        for k, ds in depmap:
            for d in ds:
                if d in pos and pos[d] > pos[k]:
                    return "module %d precedes its dependency %d" % (k, d)
    return None


def all_maps(n, extra):
    """All maps on keys 0..n-1 in key order; each dependency set ranges over subsets of `extra(k)`."""
    choices = []
    for k in range(n):
        cand = extra(k)
        subs = []
        for r in range(len(cand) + 1):
            subs += [list(c) for c in itertools.combinations(cand, r)]
        choices.append(subs)
    for combo in itertools.product(*choices):
        yield [(k, combo[k]) for k in range(n)]


def coq_case(depmap, res):
    m = core.coq_list("(%d, %s)" % (k, core.coq_list(str(d) for d in ds)) for k, ds in depmap)
    return "(%s, %s)" % (m, core.coq_list(str(x) for x in res))


def run(ctx):
    ctx.cov["rule"] = ("dependency maps over n modules; every dependency set ranges over subsets of "
                       "{all modules incl. itself} + one unknown name (99); keys in shuffled insertion order for "
                       "the random part; non-trivial = map with at least one known dependency; distinct = canonical map")
    ctx.cov["trusted_base"] = core.BASE_TRUST + [
        "model coq/C27/Model.v is hand-written; tied to ModuleManager.sort_modules by this correspondence run",
        "Python dict insertion order and set semantics are modelled by association lists / duplicate-free lists"]
    ctx.assumptions = ["dict keys are unique (hypothesis NoDup (keys m) of the theorems)",
                       "acyclicity is stated through a topological rank function (acyclic_known)"]
    ok, rep = ctx.prove()
    ctx.log("proof ok=%s discharged=%d/%d" % (ok, ctx.cov["discharged"], ctx.cov["obligations"]))
    rng = ctx.rng("gen")
    cases = []
    # exhaustive part
    nmax = ctx.pick(3, 4)
    for n in range(0, nmax + 1):
        # n <= 3: dependency sets over all modules incl. itself + one unknown; n = 4: without self-dependency
        for m in all_maps(n, lambda k, n=n: [x for x in range(n) if n <= 3 or x != k] + [99]):
            cases.append(m)
    exhaustive_upto = nmax
    # sampled part: n = 4 (quick) / n = 5,6 (thorough), shuffled key order and key names
    for _ in range(ctx.pick(3000, 30000)):
        n = rng.choice(ctx.pick([4, 4, 5], [5, 5, 6, 7]))
        names = rng.sample(range(0, 12), n)
        m = []
        for k in names:
            ds = [d for d in names + [99, 98] if rng.random() < rng.choice([0.15, 0.3, 0.5])]
            rng.shuffle(ds)
            m.append((k, ds))
        cases.append(m)
    coq_cases, bad_prop = [], []
    irng = ctx.rng("ignore")
    for ci, m in enumerate(cases):
        # every third case runs with a non-empty ignore list drawn from the keys and the unknown names
        ign = ()
        if ci % 3 == 1:
            pool = [k for k, _ in m] + [99, 98]
            ign = tuple(x for x in pool if irng.random() < 0.4)
        ctx.hist("ignore_list_size", len(ign))
        res = impl_sort(m, ign)
        nontriv = any(d in {k for k, _ in m} for _, ds in m for d in ds)
        ctx.count(m, nontriv)
        ctx.hist("n_modules", len(m))
        ctx.hist("acyclic", is_acyclic(m))
        why = property_holds(m, res)
        if why:
            bad_prop.append((m, res, why + (" (ignore list: %s)" % list(ign) if ign else "")))
        coq_cases.append(coq_case(m, res))
    ctx.sample({"map": cases[-1], "impl_result": impl_sort(cases[-1])})
    ctx.sample({"map": cases[len(cases) // 2], "impl_result": impl_sort(cases[len(cases) // 2])})
    ctx.notes["exhaustive_upto_modules"] = exhaustive_upto
    header = "From PV Require Import C27.Model."
    failing = ctx.coq_eval_failing(header, "modmap * list nat", "agrees", coq_cases, shard=2500)
    ctx.cov["disagreements_checked"] = len(failing)
    ctx.log("cases=%d model/impl disagreements=%d property failures on impl=%d" % (len(cases), len(failing), len(bad_prop)))
    # --- verdict
    for m, res, why in bad_prop[:3]:
        ctx.violation({"property": "C27", "input_map": m, "impl_result": res, "why": why,
                       "replay": "ModuleManager.get().sort_modules({'m<k>': {'m<d>',...}}) with this map"})
    if not bad_prop and (failing or not ok):
        # proof or correspondence broken but the property itself was not seen to fail
        i = failing[0] if failing else None
        shown = ctx.coq_eval_show(header, ["sort_modules (fst %s)" % coq_cases[i]]) if failing else []
        ctx.violation({"property": "C27",
                       "broken": "correspondence C27.Model.sort_modules = ModuleManager.sort_modules" if failing
                       else "proof obligations of Properties/C27.v", "proof_report": rep if not ok else None,
                       "first_differing_case": {"map": cases[i], "impl": impl_sort(cases[i]), "model": shown} if failing else None,
                       "n_differing": len(failing)}, no_input=True)
