"""C16 -- SymbolTable keeps names unique and lookups scoped.  DESIGN 5/C16.

Model: coq/C16/Model.v (heap of symbol objects, tables, scope chain, `step`).  Theorems:
coq/Properties/C16.v.  Tie to /repo:
 * translator props/C16/translate.py -> coq/C16/GenTables.v (IntrinsicCall.Intrinsic names,
   psyir_root_name), rebuilt on every run;
 * correspondence: random and targeted operation histories over 1-4 nested scopes are executed on
   the real SymbolTable/ScopingNode objects; after every operation the result (value or
   exception class) and the complete state (all symbol objects, all tables: ordered _symbols,
   _tags, _argument_list) are compared with the model by vm_compute inside coqc;
 * independently of the model the property itself is evaluated on the real tables after every
   operation (failing-input search): unique normalised names, lookup returns innermost, fresh
   names are fresh, merge adds each non-skipped symbol once and renames only on clashes, a
   rejected operation changes nothing.
Concrete failures are classified (site/reason) and go through ctx.finding()."""
import json
from pathlib import Path

from vlib import core

HERE = Path(__file__).resolve().parent
HEADER = "From PV Require Import C16.GenTables C16.Model C16.Exec.\nRequire Import Coq.Strings.String.\nOpen Scope string_scope."

KINDS = ["KGeneric", "KData", "KContainer", "KRoutine", "KIntrinsic"]
NAMES = ["a", "A", "b", "B", "ab", "Ab", "x", "X", "sin", "SIN", "Cos", "m", "M", "mod1", "a_1", "A_1",
         "a_2", "b_1", "x_1", "psyir_tmp", "PSyIR_tmp", "psyir_tmp_1", "t1"]
TAGS = ["t1", "t2", "T1", "own", "a"]


# --------------------------------------------------------------------------- implementation side
class Impl:
    """The real objects: a chain of nested ScopingNodes (innermost first), detached tables and the
    list of symbol objects created so far (index = the model's sid)."""

    def __init__(self, nslots, cb_names=None):
        """cb_names: optional list (one entry per scope, innermost first) of names mentioned by a
        CodeBlock (a WRITE statement) placed directly in that scope's Schedule"""
        from psyclone.psyir.nodes import IfBlock, Literal, Schedule
        from psyclone.psyir.symbols import BOOLEAN_TYPE
        top = Schedule()
        nodes = [top]
        cur = top
        for _ in range(nslots - 1):
            ifb = IfBlock.create(Literal("true", BOOLEAN_TYPE), [])
            cur.addchild(ifb)
            cur = ifb.if_body
            nodes.append(cur)
        self.nodes = nodes[::-1]
        if cb_names:
            from fparser.two import Fortran2003
            from fparser.two.parser import ParserFactory
            from psyclone.psyir.nodes import CodeBlock
            ParserFactory().create(std="f2008")
            for node, names in zip(self.nodes, cb_names):
                if names:
                    stmt = Fortran2003.Write_Stmt("write(*,*) " + ", ".join(names))
                    node.addchild(CodeBlock([stmt], CodeBlock.Structure.STATEMENT), 0)
        self.det = []
        self.objs = []
        self.last_merge = None
        self.pending_pop = None
        self.raw_after = None

    # ---- addressing
    def table(self, tref):
        kind, i = tref
        if kind == "slot":
            return self.nodes[i].symbol_table if 0 <= i < len(self.nodes) else None
        return self.det[i] if 0 <= i < len(self.det) else None

    def chain(self, tref):
        """[table, enclosing tables...] computed from the node list (independent of
        parent_symbol_table): the walk stops at the first enclosing scope without a table."""
        kind, i = tref
        out = [self.table(tref)]
        if kind == "slot":
            for n in self.nodes[i + 1:]:
                if n.symbol_table is None:
                    break
                out.append(n.symbol_table)
        return out

    def sid(self, obj):
        for i, o in enumerate(self.objs):
            if o is obj:
                return i
        return 100000 + len(self.objs)     # a symbol object the harness does not know: never matches

    # ---- construction of symbol objects
    def construct(self, name, spec):
        from psyclone.psyir.symbols import (Symbol, DataSymbol, ContainerSymbol, RoutineSymbol,
                                            IntrinsicSymbol, INTEGER_TYPE)
        from psyclone.psyir.nodes import IntrinsicCall
        kind, wild, iface = spec
        if kind == "KContainer":
            return ContainerSymbol(name, wildcard_import=bool(wild))
        itf = self.interface(iface)
        if kind == "KGeneric":
            return Symbol(name, interface=itf)
        if kind == "KData":
            return DataSymbol(name, INTEGER_TYPE, interface=itf)
        if kind == "KRoutine":
            return RoutineSymbol(name, interface=itf)
        if is_genif(kind):
            from psyclone.psyir.symbols import GenericInterfaceSymbol
            return GenericInterfaceSymbol(name, [(self.objs[r], False) for r in kind[1]], interface=itf)
        return IntrinsicSymbol(name, IntrinsicCall.Intrinsic.SIN, interface=itf)

    def interface(self, iface):
        from psyclone.psyir.symbols import (AutomaticInterface, ArgumentInterface, ImportInterface,
                                            UnresolvedInterface, CommonBlockInterface, StaticInterface)
        k = iface[0]
        if k == "IAuto":
            return AutomaticInterface()
        if k == "IArg":
            return ArgumentInterface()
        if k == "IImport":
            return ImportInterface(self.objs[iface[1]], orig_name=(iface[2] or None))
        if k == "IUnres":
            return UnresolvedInterface()
        if k == "ICommon":
            return CommonBlockInterface()
        return StaticInterface()

    def new_symbol_kwargs(self, spec):
        from psyclone.psyir.symbols import (Symbol, DataSymbol, ContainerSymbol, RoutineSymbol,
                                            IntrinsicSymbol, INTEGER_TYPE)
        from psyclone.psyir.nodes import IntrinsicCall
        kind, wild, iface = spec
        if kind == "KContainer":
            return {"symbol_type": ContainerSymbol, "wildcard_import": bool(wild)}
        kw = {"interface": self.interface(iface)}
        if kind == "KGeneric":
            kw["symbol_type"] = Symbol
        elif kind == "KData":
            kw.update(symbol_type=DataSymbol, datatype=INTEGER_TYPE)
        elif kind == "KRoutine":
            kw["symbol_type"] = RoutineSymbol
        elif is_genif(kind):
            from psyclone.psyir.symbols import GenericInterfaceSymbol
            kw.update(symbol_type=GenericInterfaceSymbol, routines=[(self.objs[r], False) for r in kind[1]])
        else:
            kw.update(symbol_type=IntrinsicSymbol, intrinsic=IntrinsicCall.Intrinsic.SIN)
        return kw

    # ---- observation
    def sym_view(self, o):
        from psyclone.psyir.symbols import (Symbol, DataSymbol, ContainerSymbol, RoutineSymbol, IntrinsicSymbol,
                                            AutomaticInterface, ArgumentInterface, ImportInterface,
                                            UnresolvedInterface, CommonBlockInterface)
        from psyclone.psyir.symbols import GenericInterfaceSymbol
        t = type(o)
        kind = {Symbol: "KGeneric", DataSymbol: "KData", ContainerSymbol: "KContainer",
                RoutineSymbol: "KRoutine", IntrinsicSymbol: "KIntrinsic"}.get(t, "K?" + t.__name__)
        if t is GenericInterfaceSymbol:
            kind = ("KGenIface", tuple(self.sid(r.symbol) for r in o.routines))
        itf = o.interface
        if isinstance(itf, ImportInterface):
            iv = ("IImport", self.sid(itf.container_symbol), itf.orig_name or "")
        elif isinstance(itf, AutomaticInterface):
            iv = ("IAuto",)
        elif isinstance(itf, ArgumentInterface):
            iv = ("IArg",)
        elif isinstance(itf, UnresolvedInterface):
            iv = ("IUnres",)
        elif isinstance(itf, CommonBlockInterface):
            iv = ("ICommon",)
        else:
            iv = ("IOther",)
        wild = bool(o.wildcard_import) if isinstance(o, ContainerSymbol) else False
        return (o.name, kind, wild, iv)

    def table_view(self, t):
        if t is None:
            return None
        # pylint: disable=protected-access
        return ([(k, self.sid(s)) for k, s in t._symbols.items()],
                [(k, self.sid(s)) for k, s in t._tags.items()],
                [self.sid(s) for s in t._argument_list])

    def snapshot(self):
        return {"heap": [self.sym_view(o) for o in self.objs],
                "slots": [self.table_view(n.symbol_table) for n in self.nodes],
                "det": [self.table_view(t) for t in self.det]}

    # ---- one operation
    def apply(self, op, want_raw=False):
        """Returns the result in the model's vocabulary.  A merge that got past check_for_clashes
        consumes the other table (it now shares symbol objects with the receiving table): the
        harness drops it afterwards; `raw_after` is the state before that bookkeeping."""
        self.pending_pop = None
        self.raw_after = None
        try:
            res = self._apply(op)
        except Exception as e:      # pylint: disable=broad-except
            res = ("err", err_kind(e), "%s: %s" % (type(e).__name__, str(e).replace("\n", " ")[:160]))
        if self.pending_pop is not None:
            if want_raw:
                self.raw_after = self.snapshot()
            self.det.pop(self.pending_pop)
        return res

    def _apply(self, op):
        name = op[0]
        self.last_merge = None
        if name in ("new_table", "detach", "attach"):
            return self._apply_struct(op)
        tbl = self.table(op[1])
        if tbl is None:
            return ("err", "ENoTable", "")
        if name == "add":
            _, _, nm, spec, tag = op
            sym = self.construct(nm, spec)
            tbl.add(sym, tag)
            self.objs.append(sym)
            return ("sym", len(self.objs) - 1)
        if name == "new_symbol":
            _, _, root, tag, shadowing, spec, allow = op
            kw = self.new_symbol_kwargs(spec)
            sym = tbl.new_symbol(root, tag, shadowing, allow_renaming=allow, **kw)
            self.objs.append(sym)
            return ("sym", len(self.objs) - 1)
        if name == "find_or_create":
            _, _, nm, spec = op
            kw = self.new_symbol_kwargs(spec)
            sym = tbl.find_or_create(nm, **kw)
            return self._maybe_new(sym)
        if name == "find_or_create_tag":
            _, _, tag, root, shadowing, spec, allow = op
            kw = self.new_symbol_kwargs(spec)
            sym = tbl.find_or_create_tag(tag, root_name=(root or None), shadowing=shadowing,
                                         allow_renaming=allow, **kw)
            return self._maybe_new(sym)
        if name == "next_name":
            _, _, root, shadowing, other = op
            ot = None
            if other is not None:
                ot = self.table(other)
                if ot is None:
                    return ("err", "ENoTable", "")
            return ("name", tbl.next_available_name(root, shadowing, ot))
        if name == "lookup":
            return ("sym", self.sid(tbl.lookup(op[2])))
        if name == "lookup_tag":
            return ("sym", self.sid(tbl.lookup_with_tag(op[2])))
        if name == "rename":
            tbl.rename_symbol(self.objs[op[2]], op[3])
            return ("unit",)
        if name == "remove":
            tbl.remove(self.objs[op[2]])
            return ("unit",)
        if name == "swap":
            _, _, old, nm, spec = op
            new = self.construct(nm, spec)
            tbl.swap(self.objs[old], new)
            self.objs.append(new)
            return ("sym", len(self.objs) - 1)
        if name == "specify_args":
            tbl.specify_argument_list([self.objs[i] for i in op[2]])
            return ("unit",)
        if name == "merge":
            return self._merge(tbl, op)
        raise RuntimeError("unknown op " + name)

    def _maybe_new(self, sym):
        i = self.sid(sym)
        if i >= 100000:
            self.objs.append(sym)
            i = len(self.objs) - 1
        return ("sym", i)

    def _merge(self, tbl, op):
        _, tref, j, skip = op
        if not 0 <= j < len(self.det) or (tref == ("det", j)):
            return ("err", "ENoTable", "")
        other = self.det[j]
        info = {"pass": "start", "self_before": list(tbl.symbols), "other_before": list(other.symbols),
                "names_before": {id(s): s.name for s in tbl.symbols + other.symbols},
                "skip": [self.objs[i] for i in skip], "self": tbl, "other": other, "done": False}
        self.last_merge = info
        # record how far merge() gets by wrapping the three passes on this instance only
        wrapped = []

        def wrap(meth, label_in, label_out):
            orig = getattr(tbl, meth)

            def inner(*a, **k):
                info["pass"] = label_in
                r = orig(*a, **k)
                info["pass"] = label_out
                return r
            setattr(tbl, meth, inner)
            wrapped.append(meth)
        wrap("check_for_clashes", "check_for_clashes", "checked")
        wrap("_add_container_symbols_from_table", "container-pass", "containers-done")
        wrap("_add_symbols_from_table", "add-pass", "added")
        try:
            tbl.merge(other, symbols_to_skip=info["skip"])
            info["done"] = True
        finally:
            for meth in wrapped:
                delattr(tbl, meth)
            if info["pass"] not in ("start", "check_for_clashes") or info["done"]:
                # merge got past check_for_clashes: the other table now shares symbol objects with
                # the receiving table and is not used again (domain restriction, see NOTES.md)
                self.pending_pop = j
        return ("unit",)

    def _apply_struct(self, op):
        from psyclone.psyir.symbols import SymbolTable
        if op[0] == "new_table":
            self.det.append(SymbolTable())
            return ("unit",)
        if op[0] == "detach":
            i = op[1]
            if not 0 <= i < len(self.nodes) or self.nodes[i].symbol_table is None:
                return ("err", "ENoTable", "")
            self.det.append(self.nodes[i].symbol_table.detach())
            return ("unit",)
        _, j, i = op
        if not 0 <= j < len(self.det) or not 0 <= i < len(self.nodes):
            return ("err", "ENoTable", "")
        self.det[j].attach(self.nodes[i])
        self.det.pop(j)
        return ("unit",)


def err_kind(e):
    from psyclone.errors import InternalError
    from psyclone.psyir.symbols import SymbolError
    if isinstance(e, SymbolError):
        return "ESymbol"
    if isinstance(e, InternalError):
        return "EInternal"
    if isinstance(e, KeyError):
        return "EKey"
    if isinstance(e, NotImplementedError):
        return "ENotImpl"
    if isinstance(e, ValueError):
        return "EValue"
    if isinstance(e, TypeError):
        return "EType"
    return "EOther_" + type(e).__name__


# ------------------------------------------------------------- the property, evaluated directly
def table_problems(impl):
    """unique case-insensitive names, keys are the normalised names, tags point into the table.
    Returns (code, identity, text); identity does not depend on where the table currently hangs."""
    out = []
    tables = [("slot%d" % i, n.symbol_table) for i, n in enumerate(impl.nodes) if n.symbol_table is not None]
    tables += [("det%d" % j, t) for j, t in enumerate(impl.det)]
    for label, t in tables:
        # pylint: disable=protected-access
        lowered = [s.name.lower() for s in t._symbols.values()]
        if len(set(lowered)) != len(lowered):
            names = sorted(s.name for s in t._symbols.values())
            out.append(("duplicate-name", (id(t), tuple(names)),
                        "%s holds two symbols whose names differ at most in case: %s" % (label, names)))
        for k, s in t._symbols.items():
            if k != s.name.lower():
                out.append(("stale-key", (id(t), k, s.name), "%s: key %r holds symbol named %r" % (label, k, s.name)))
        for tag, s in t._tags.items():
            if not any(s is x for x in t._symbols.values()):
                out.append(("stale-tag", (id(t), tag, id(s)),
                            "%s: tag %r refers to symbol %r which is not in the table" % (label, tag, s.name)))
    return out


def expected_lookup(impl, tref, name):
    for t in impl.chain(tref):
        # pylint: disable=protected-access
        for s in t._symbols.values():
            if s.name.lower() == name.lower():
                return s
    return None


def expected_lookup_tag(impl, tref, tag):
    for t in impl.chain(tref):
        # pylint: disable=protected-access
        if tag in t._tags:
            return t._tags[tag]
    return None


def fresh_problem(chain, other, shadowing, name):
    tabs = (chain[:1] if shadowing else chain) + ([other] if other is not None else [])
    for t in tabs:
        # pylint: disable=protected-access
        for s in t._symbols.values():
            if s.name.lower() == name.lower():
                return "generated name %r clashes with existing symbol %r" % (name, s.name)
    return None


def same_entity(a, b):
    """the cases in which merge() identifies a symbol of the other table with one already present"""
    from psyclone.psyir.symbols import ContainerSymbol
    if isinstance(a, ContainerSymbol) and isinstance(b, ContainerSymbol):
        return True
    if a.is_import and b.is_import and a.interface == b.interface:
        return True
    return a.is_unresolved and b.is_unresolved


def merge_problems(info, keys_before):
    """after a successful merge: every non-skipped symbol of the other table exactly once (or
    identified with an equivalent symbol of the same name), nothing of the receiving table lost,
    renames only where two non-skipped symbols had the same name, new names fresh."""
    out = []
    tbl = info["self"]
    after = list(tbl.symbols)
    skip = info["skip"]

    def count(s):
        return sum(1 for x in after if x is s)
    before_by_name = {}
    for s in info["self_before"]:
        before_by_name[info["names_before"][id(s)].lower()] = s
    other_by_name = {}
    for s in info["other_before"]:
        other_by_name[info["names_before"][id(s)].lower()] = s
    for s in info["self_before"]:
        if count(s) != 1:
            out.append(("symbol-lost" if count(s) == 0 else "symbol-duplicated",
                        "symbol %r of the receiving table occurs %d times after merge" % (s.name, count(s))))
    for s in info["other_before"]:
        if any(s is k for k in skip):
            continue
        c = count(s)
        old = info["names_before"][id(s)].lower()
        twin = before_by_name.get(old)
        if c == 1:
            continue
        if c == 0 and twin is not None and same_entity(twin, s):
            continue
        code = "symbol-dropped" if c == 0 else "symbol-duplicated"
        if c == 0 and twin is not None and s.is_import and not twin.is_import:
            code = "symbol-dropped:import-vs-local"
        out.append((code, "non-skipped symbol %r of the other table occurs %d times after merge" % (s.name, c)))
    for s in after:
        if not any(s is x for x in info["self_before"] + info["other_before"]):
            out.append(("symbol-invented", "symbol %r appeared from nowhere" % s.name))
    from psyclone.psyir.symbols import ContainerSymbol as _Container
    for s in info["other_before"]:
        if any(s is k for k in skip) and count(s) > 0 and not any(s is x for x in info["self_before"]):
            out.append(("skipped-symbol-added:" + ("container" if isinstance(s, _Container) else "non-container"),
                        "symbol %r is in symbols_to_skip but was merged" % s.name))
    for s in info["self_before"] + info["other_before"]:
        old = info["names_before"][id(s)]
        if s.name == old:
            continue
        in_self = any(s is x for x in info["self_before"])
        rival = (other_by_name if in_self else before_by_name).get(old.lower())
        if rival is None or (in_self and any(rival is k for k in skip)) or \
                (not in_self and any(s is k for k in skip)):
            from psyclone.psyir.symbols import ContainerSymbol
            why = "no-clash"
            if rival is not None and rival.is_import:
                why = "skipped-import"
            elif rival is not None and isinstance(rival, ContainerSymbol):
                why = "skipped-container"
            out.append(("rename-without-clash:" + why,
                        "symbol %r was renamed to %r although no non-skipped symbol of the other table "
                        "has that name" % (old, s.name)))
        if s.name.lower() in keys_before:
            out.append(("rename-to-used-name", "symbol %r was renamed to %r which was already in use"
                        % (old, s.name)))
    return out


def merge_reject_key(info, what, exc_text):
    """site/reason code of a merge that raised after changing something"""
    from psyclone.psyir.symbols import ContainerSymbol
    pas = info["pass"]
    exc = exc_text.split(":")[0]
    if pas == "check_for_clashes":
        return "merge/check_for_clashes/%s-changed-before-raise:%s" % (what, exc)
    if pas == "container-pass":
        self_names = {info["names_before"][id(x)].lower() for x in info["self_before"]}
        causes = set()
        for k in info["skip"]:
            if not any(k is o for o in info["other_before"]):
                continue
            if info["names_before"][id(k)].lower() in self_names:
                if isinstance(k, ContainerSymbol):
                    causes.add("skipped-container")
                elif k.is_import:
                    causes.add("skipped-import")
        cause = "skipped-import" if "skipped-import" in causes else (
            "skipped-container" if "skipped-container" in causes else "other")
        return "merge/container-pass/state-changed-before-raise:" + cause
    key = "merge/%s/state-changed-before-raise:%s" % (pas, exc)
    if pas == "add-pass" and exc == "SymbolError":
        # which clash could not be resolved by renaming, and why
        import re
        from psyclone.psyir.symbols import IntrinsicSymbol
        if "CodeBlock" in exc_text:
            return key + ":codeblock"
        m = re.search(r"Cannot rename [Ss]ymbol '([^']*)'", exc_text)
        nm = m.group(1).lower() if m else None
        a = [x for x in info["self_before"] if info["names_before"][id(x)].lower() == nm]
        b = [x for x in info["other_before"] if info["names_before"][id(x)].lower() == nm]
        both = a and b and isinstance(a[0], IntrinsicSymbol) and isinstance(b[0], IntrinsicSymbol)
        return key + (":both-intrinsic" if both else ":other")
    return key


def changed_what(before, after):
    if before["slots"] != after["slots"] or before["det"] != after["det"]:
        return "tables"
    hb, ha = before["heap"], after["heap"]
    if len(hb) != len(ha):
        return "objects"
    if any(x[0] != y[0] for x, y in zip(hb, ha)):
        return "names"
    if any(x[3] != y[3] or x[2] != y[2] for x, y in zip(hb, ha)):
        return "interfaces"
    return "classes"


def run_history(ctx, nslots, ops, record=True, cb_names=None):
    """Run one history on the implementation.  Returns (steps, problems): steps = [(op, result,
    snapshot)], problems = [(step index, key, what)] from the direct evaluation of the property."""
    impl = Impl(nslots, cb_names)
    steps, problems = [], []
    known_table_problems = set()
    for idx, op in enumerate(ops):
        before = impl.snapshot()
        tbl = impl.table(op[1]) if op[0] not in ("new_table", "detach", "attach") else None
        chain = impl.chain(op[1]) if tbl is not None else []
        other = impl.table(op[4]) if op[0] == "next_name" and op[4] is not None else None
        keys_before = set()
        if op[0] == "merge" and tbl is not None and 0 <= op[2] < len(impl.det):
            for t in chain + [impl.det[op[2]]]:
                keys_before |= {s.name.lower() for s in t.symbols}
        res = impl.apply(op, want_raw=True)
        after = impl.snapshot()
        raw_after = impl.raw_after if impl.raw_after is not None else after
        site = op[0]
        if res[0] == "err" and res[1] != "ENoTable" and before != raw_after:
            what = changed_what(before, raw_after)
            if op[0] == "merge" and impl.last_merge is not None:
                key = merge_reject_key(impl.last_merge, what, res[2])
            else:
                key = "%s/%s-changed-before-raise" % (site, what)
            problems.append((idx, key, "rejected operation (%s) changed the state (%s)" % (res[2], what)))
        now = table_problems(impl)
        for code, ident, txt in now:
            if (code, ident) not in known_table_problems:    # attribute it to the operation that broke it
                problems.append((idx, "%s/%s" % (site, code), txt))
        known_table_problems = {(code, ident) for code, ident, _ in now}
        if res[0] != "err":
            if op[0] == "lookup":
                exp = expected_lookup(impl, op[1], op[2])
                if exp is None or impl.objs[res[1]] is not exp:
                    problems.append((idx, "lookup/not-innermost", "lookup(%r) returned %r" % (op[2], res)))
            if op[0] == "lookup_tag":
                exp = expected_lookup_tag(impl, op[1], op[2])
                if exp is None or impl.objs[res[1]] is not exp:
                    problems.append((idx, "lookup_with_tag/not-innermost", "lookup_with_tag(%r) returned %r" % (op[2], res)))
            if op[0] == "next_name":
                why = fresh_problem(chain, other, op[3], res[1])
                if why:
                    problems.append((idx, "next_available_name/not-fresh", why))
            if op[0] in ("new_symbol", "find_or_create_tag", "find_or_create") and len(after["heap"]) > len(before["heap"]):
                shadowing = op[4] if op[0] in ("new_symbol", "find_or_create_tag") else False
                newname = after["heap"][-1][0]
                tabs = chain[:1] if shadowing else chain
                clash = [s for t in tabs for s in t.symbols if s.name.lower() == newname.lower()
                         and s is not impl.objs[-1]]
                if clash:
                    problems.append((idx, "%s/not-fresh" % site, "new symbol %r clashes with %r" % (newname, clash[0].name)))
            if op[0] == "merge" and impl.last_merge is not None and impl.last_merge["done"]:
                for code, txt in merge_problems(impl.last_merge, keys_before):
                    problems.append((idx, "merge/" + code, txt))
        elif op[0] in ("lookup", "lookup_tag") and res[1] == "EKey":
            exp = (expected_lookup if op[0] == "lookup" else expected_lookup_tag)(impl, op[1], op[2])
            if exp is not None:
                problems.append((idx, op[0] + "/missed", "%s(%r) raised KeyError although %r is in scope" % (op[0], op[2], exp.name)))
        steps.append((op, res, after))
    return steps, problems


# ------------------------------------------------------------------------------- Coq printing
def clist(items):
    """list literal with explicit constructors (the recursive [ ; ] notation is slow to elaborate)"""
    items = list(items)
    out = "nil"
    for it in reversed(items):
        out = "(cons %s %s)" % (it, out)
    return out


class Pool:
    """strings of a run as named Coq constants (a string literal costs ~10 kernel nodes per
    character every time it is written; a constant costs one)"""

    def __init__(self):
        self.ids = {}

    def __call__(self, s):
        if s not in self.ids:
            self.ids[s] = "z%d" % len(self.ids)
        return self.ids[s]

    def header(self):
        return "\n".join("Definition %s : string := %s." % (v, core.coq_str(k)) for k, v in self.ids.items())


POOL = Pool()


def q(s):
    return POOL(s)


def c_tref(t):
    return "(%s %d)" % ("TSlot" if t[0] == "slot" else "TDet", t[1])


def c_iface(i):
    if i[0] == "IImport":
        return "(IImport %d %s)" % (i[1], q(i[2]))
    return i[0]


def is_genif(kind):
    return isinstance(kind, (tuple, list)) and kind[0] == "KGenIface"


def c_kind(k):
    if is_genif(k):
        return "(KGenIface %s)" % core.coq_list(str(x) for x in k[1])
    return k if not k.startswith("K?") else "KGeneric"


def c_spec(sp):
    return "(mkSpec %s %s %s)" % (c_kind(sp[0]), "true" if sp[1] else "false", c_iface(sp[2]))


def c_bool(b):
    return "true" if b else "false"


def c_nats(l):
    return core.coq_list(str(x) for x in l)


def c_op(op):
    n = op[0]
    if n == "add":
        return "(OAdd %s %s %s %s)" % (c_tref(op[1]), q(op[2]), c_spec(op[3]), q(op[4]))
    if n == "new_symbol":
        return "(ONewSymbol %s %s %s %s %s %s)" % (c_tref(op[1]), q(op[2]), q(op[3]), c_bool(op[4]), c_spec(op[5]), c_bool(op[6]))
    if n == "find_or_create":
        return "(OFindOrCreate %s %s %s)" % (c_tref(op[1]), q(op[2]), c_spec(op[3]))
    if n == "find_or_create_tag":
        return "(OFindOrCreateTag %s %s %s %s %s %s)" % (c_tref(op[1]), q(op[2]), q(op[3]), c_bool(op[4]), c_spec(op[5]), c_bool(op[6]))
    if n == "next_name":
        return "(ONextName %s %s %s %s)" % (c_tref(op[1]), q(op[2]), c_bool(op[3]),
                                           "None" if op[4] is None else "(Some %s)" % c_tref(op[4]))
    if n == "lookup":
        return "(OLookup %s %s)" % (c_tref(op[1]), q(op[2]))
    if n == "lookup_tag":
        return "(OLookupTag %s %s)" % (c_tref(op[1]), q(op[2]))
    if n == "rename":
        return "(ORename %s %d %s)" % (c_tref(op[1]), op[2], q(op[3]))
    if n == "remove":
        return "(ORemove %s %d)" % (c_tref(op[1]), op[2])
    if n == "swap":
        return "(OSwap %s %d %s %s)" % (c_tref(op[1]), op[2], q(op[3]), c_spec(op[4]))
    if n == "specify_args":
        return "(OSpecifyArgs %s %s)" % (c_tref(op[1]), c_nats(op[2]))
    if n == "merge":
        return "(OMerge %s %d %s)" % (c_tref(op[1]), op[2], c_nats(op[3]))
    if n == "new_table":
        return "ONewTable"
    if n == "detach":
        return "(ODetach %d)" % op[1]
    if n == "attach":
        return "(OAttach %d %d)" % (op[1], op[2])
    raise RuntimeError(n)


def c_result(r):
    if r[0] == "unit":
        return "RUnit"
    if r[0] == "sym":
        return "(RSym %d)" % r[1]
    if r[0] == "name":
        return "(RName %s)" % q(r[1])
    e = r[1]
    if e.startswith("EOther"):
        e = "EFuel"        # an exception class the model never produces: guaranteed mismatch
    return "(RErr %s)" % e


def w_chain(cons, nil, items):
    out = nil
    for it in reversed(list(items)):
        out = "(%s %s %s)" % (cons, it, out)
    return out


def c_entries(l):
    return w_chain("WE", "WE0", ("%s %d" % (q(k), s) for k, s in l))


def c_table(t):
    return "(WT %s %s %s)" % (c_entries(t[0]), c_entries(t[1]), w_chain("WN", "WN0", (str(x) for x in t[2])))


def c_state(s):
    """heap, slots, detached tables in the monomorphic wire format of coq/C16/Exec.v"""
    heap = w_chain("WH", "WH0", ("%s %s %s %s" % (q(n), c_kind(k), c_bool(w), c_iface(i))
                                  for n, k, w, i in s["heap"]))
    slots = "WS0"
    for t in reversed(s["slots"]):
        slots = "(WSnone %s)" % slots if t is None else "(WSsome %s %s)" % (c_table(t), slots)
    det = w_chain("WD", "WD0", (c_table(t) for t in s["det"]))
    return "%s %s %s" % (heap, slots, det)


def c_case_cb(nslots, cbn, steps):
    """a case over scopes with CodeBlocks: wire type wcase_cb of coq/C16/ExecCB.v"""
    inner = c_case(nslots, steps)                       # "(WC n steps)"
    body = inner[len("(WC %d " % nslots):-1]
    cbs = w_chain("WB", "WB0", (w_chain("WM", "WM0", (q(n) for n in names)) for names in cbn))
    return "(WCB %d %s %s)" % (nslots, cbs, body)


def c_case(nslots, steps, full=False):
    """expected states are written only where the implementation's state changed"""
    items, prev = [], None
    for o, r, s in steps:
        if prev is not None and s == prev and not full:
            st = "WSame"
        else:
            st = "(WNew %s)" % c_state(s)
        prev = s
        items.append("%s %s %s" % (c_op(o), c_result(r), st))
    return "(WC %d %s)" % (nslots, w_chain("WP", "WP0", items))


# --------------------------------------------------------------------------------- generators
def gen_spec(rng, containers, routines=()):
    kind = rng.choices(KINDS, weights=[22, 36, 14, 16, 12])[0]
    if routines and rng.random() < 0.07:
        kind = ("KGenIface", tuple(rng.sample(list(routines), min(len(routines), rng.choice([1, 1, 2])))))
    if kind == "KContainer":
        return (kind, rng.random() < 0.35, ("IOther",))
    r = rng.random()
    if r < 0.36:
        itf = ("IAuto",)
    elif r < 0.48:
        itf = ("IArg",)
    elif r < 0.68:
        itf = ("IUnres",)
    elif r < 0.86 and containers:
        itf = ("IImport", rng.choice(containers), rng.choice(["", "", "", "orig", "Orig", "a"]))
    elif r < 0.91:
        itf = ("ICommon",)
    elif r < 0.97:
        itf = ("IOther",)
    else:
        itf = ("IAuto",)
    return (kind, False, itf)


class Gen:
    """Random histories.  The generator runs the implementation as it goes so that it can pick
    symbols that really are in the addressed table, containers for imports, etc."""

    def __init__(self, rng, nslots, length, flavour):
        self.rng, self.nslots, self.length, self.flavour = rng, nslots, length, flavour

    def pick_tref(self, impl, prefer_det=False):
        rng = self.rng
        refs = [("slot", i) for i, n in enumerate(impl.nodes) if n.symbol_table is not None]
        dets = [("det", j) for j in range(len(impl.det))]
        if dets and (prefer_det or rng.random() < 0.3):
            return rng.choice(dets)
        if refs:
            return rng.choice(refs)
        if dets:
            return rng.choice(dets)
        return ("slot", 0)

    def pick_sid(self, impl, tref, in_table=0.75):
        rng = self.rng
        t = impl.table(tref)
        if t is not None and t.symbols and rng.random() < in_table:
            return impl.sid(rng.choice(t.symbols))
        if impl.objs:
            return rng.randrange(len(impl.objs))
        return 0

    @staticmethod
    def referenced(impl, tref):
        """symbols of the table whose removal must be rejected: containers still imported from,
        routines that are members of a generic interface of the table"""
        from psyclone.psyir.symbols import GenericInterfaceSymbol
        t = impl.table(tref)
        if t is None:
            return []
        out = []
        for x in t.symbols:
            if x.is_import and any(x.interface.container_symbol is y for y in t.symbols):
                out.append(impl.sid(x.interface.container_symbol))
            if isinstance(x, GenericInterfaceSymbol):
                out += [impl.sid(r.symbol) for r in x.routines if any(r.symbol is y for y in t.symbols)]
        return sorted(set(out))

    def name(self):
        rng = self.rng
        if self.flavour == "fresh":
            return rng.choice(["a", "A", "a_1", "A_1", "a_2", "A_2", "a_3", "psyir_tmp", "PSYIR_TMP", "psyir_tmp_1", ""])
        if self.flavour == "intrinsic":
            return rng.choice(["sin", "SIN", "cos", "Cos", "max", "x", "a", "A", "m"])
        return rng.choice(NAMES)

    def next_op(self, impl):
        rng = self.rng
        from psyclone.psyir.symbols import RoutineSymbol as _Routine
        containers = [i for i, o in enumerate(impl.objs) if type(o).__name__ == "ContainerSymbol"]
        routines = [i for i, o in enumerate(impl.objs) if isinstance(o, _Routine)]
        w = {"add": 24, "new_symbol": 9, "find_or_create": 3, "find_or_create_tag": 4, "next_name": 6,
             "lookup": 8, "lookup_tag": 3, "rename": 8, "remove": 5, "swap": 3, "specify_args": 2,
             "merge": 9, "new_table": 4, "detach": 2, "attach": 2, "badref": 1}
        if self.flavour == "merge":
            w.update(merge=18, new_table=8, add=34)
        if self.flavour == "fresh":
            w.update(new_symbol=22, next_name=14, find_or_create_tag=8, rename=4)
        if self.flavour == "intrinsic":
            w.update(merge=16, new_table=8, add=36)
        if self.flavour == "refs":
            w.update(add=40, remove=16, swap=6, lookup_tag=8, find_or_create_tag=6, merge=4)
        if not impl.det:
            w["merge"] = 0
            w["attach"] = 0
            w["new_table"] += 4
        kind = rng.choices(list(w), weights=list(w.values()))[0]
        if kind == "badref":
            return ("lookup", rng.choice([("slot", self.nslots + 1), ("det", len(impl.det) + 2)]), "a")
        if kind == "new_table":
            return ("new_table",)
        if kind == "detach":
            return ("detach", rng.randrange(self.nslots))
        if kind == "attach":
            return ("attach", rng.randrange(len(impl.det)), rng.randrange(self.nslots))
        if kind == "merge":
            j = rng.randrange(len(impl.det))
            tref = self.pick_tref(impl)
            if tref == ("det", j):
                tref = ("slot", 0)
            other = impl.det[j]
            skip = []
            if other.symbols and rng.random() < 0.45:
                skip = sorted({impl.sid(s) for s in rng.sample(other.symbols, min(len(other.symbols), rng.choice([1, 1, 2, 3])))})
            if impl.objs and rng.random() < 0.1:
                skip = sorted(set(skip + [rng.randrange(len(impl.objs))]))
            return ("merge", tref, j, skip)
        # operations on one table; freshly created detached tables get filled preferentially
        prefer_det = bool(impl.det) and (self.flavour in ("merge", "intrinsic") and rng.random() < 0.5)
        tref = self.pick_tref(impl, prefer_det)
        if kind == "add":
            spec = gen_spec(rng, containers, routines)
            if self.flavour == "merge" and rng.random() < 0.45:
                # renameable locals: merges then resolve clashes by renaming instead of refusing
                spec = (rng.choice(["KData", "KData", "KGeneric", "KRoutine"]), False, ("IAuto",))
            if self.flavour == "intrinsic" and rng.random() < 0.6:
                spec = (rng.choice(["KGeneric", "KGeneric", "KRoutine", "KData", "KIntrinsic"]), False, ("IUnres",))
            tag = rng.choice(TAGS) if rng.random() < 0.2 else ""
            if self.flavour == "refs":
                # tagged containers / routines that get referenced from the same table, so that
                # remove() and swap() of them must be rejected
                t = impl.table(tref)
                here = t.symbols if t is not None else []
                conts = [impl.sid(x) for x in here if type(x).__name__ == "ContainerSymbol"]
                routs = [impl.sid(x) for x in here if isinstance(x, _Routine)]
                r = rng.random()
                if r < 0.25 or not (conts or routs):
                    spec = (rng.choice(["KContainer", "KRoutine", "KRoutine"]), False, ("IOther",))
                    if spec[0] == "KRoutine":
                        spec = ("KRoutine", False, ("IAuto",))
                elif r < 0.6 and conts:
                    spec = (rng.choice(["KData", "KGeneric", "KRoutine"]), False, ("IImport", rng.choice(conts), ""))
                elif routs:
                    spec = (("KGenIface", tuple(rng.sample(routs, min(len(routs), rng.choice([1, 2]))))), False, ("IAuto",))
                if rng.random() < 0.6:
                    tag = rng.choice(TAGS + ["t3", "t4", "c1", "r1"])
            return ("add", tref, self.name(), spec, tag)
        if kind == "new_symbol":
            return ("new_symbol", tref, self.name() if rng.random() < 0.9 else "", rng.choice(TAGS) if rng.random() < 0.25 else "",
                    rng.random() < 0.3, gen_spec(rng, containers, routines), rng.random() < 0.8)
        if kind == "find_or_create":
            return ("find_or_create", tref, self.name(), gen_spec(rng, containers, routines))
        if kind == "find_or_create_tag":
            return ("find_or_create_tag", tref, rng.choice(TAGS), self.name() if rng.random() < 0.6 else "",
                    rng.random() < 0.3, gen_spec(rng, containers, routines), rng.random() < 0.8)
        if kind == "next_name":
            other = None
            if rng.random() < 0.4:
                other = self.pick_tref(impl, prefer_det=True)
            return ("next_name", tref, self.name() if rng.random() < 0.9 else "", rng.random() < 0.3, other)
        if kind == "lookup":
            inscope = [s.name for t in impl.chain(tref) for s in t.symbols] if impl.table(tref) is not None else []
            if inscope and rng.random() < 0.7:
                nm = rng.choice(inscope)
                return ("lookup", tref, rng.choice([nm, nm.swapcase(), nm.upper()]))
            return ("lookup", tref, self.name())
        if kind == "lookup_tag":
            # pylint: disable=protected-access
            intags = [tg for t in impl.chain(tref) for tg in t._tags] if impl.table(tref) is not None else []
            if intags and rng.random() < 0.6:
                return ("lookup_tag", tref, rng.choice(intags))
            return ("lookup_tag", tref, rng.choice(TAGS))
        if kind == "rename":
            t = impl.table(tref)
            nm = self.name()
            if t is not None and t.symbols and rng.random() < 0.3:
                nm = rng.choice(t.symbols).name.swapcase()     # differs only in case from a name in use
            return ("rename", tref, self.pick_sid(impl, tref), nm)
        if kind == "remove":
            ref = self.referenced(impl, tref)
            if ref and rng.random() < (0.7 if self.flavour == "refs" else 0.3):
                return ("remove", tref, rng.choice(ref))
            return ("remove", tref, self.pick_sid(impl, tref))
        if kind == "swap":
            old = self.pick_sid(impl, tref)
            ref = self.referenced(impl, tref)
            if ref and rng.random() < (0.5 if self.flavour == "refs" else 0.15):
                old = rng.choice(ref)
            nm = impl.objs[old].name if impl.objs else "a"
            if rng.random() < 0.5:
                nm = nm.swapcase()
            if rng.random() < 0.15:
                nm = self.name()
            return ("swap", tref, old, nm, gen_spec(rng, containers, routines))
        if kind == "specify_args":
            t = impl.table(tref)
            args = [impl.sid(s) for s in (t.symbols if t is not None else []) if s.is_argument]
            rng.shuffle(args)
            if rng.random() < 0.3 and impl.objs:
                args.append(rng.randrange(len(impl.objs)))
            return ("specify_args", tref, args)
        raise RuntimeError(kind)

    def history(self):
        """Generate while executing (on a scratch Impl) so choices see the current state."""
        impl = Impl(self.nslots, getattr(self, "cb_names", None))
        ops = []
        for _ in range(self.length):
            op = self.next_op(impl)
            if any(not 0 <= i < len(impl.objs) for i in op_sids(op)):
                continue            # the model's symbol ids are indices of existing objects
            impl.apply(op)
            ops.append(op)
        return ops


def codeblock_histories():
    """fixed histories over scopes with CodeBlocks: (nslots, names per scope, ops)"""
    d = ("KData", False, ("IAuto",))
    arg = ("KData", False, ("IArg",))
    c = ("KContainer", False, ("IOther",))
    # a clash that cannot be resolved: the local `x` is named in a CodeBlock, the other `x` is an argument;
    # merge must be rejected by check_for_clashes, before `first` is added
    yield (1, [["x"]], [("add", ("slot", 0), "x", d, ""), ("new_table",), ("add", ("det", 0), "first", d, ""),
                        ("add", ("det", 0), "X", arg, ""), ("merge", ("slot", 0), 0, []), ("lookup", ("slot", 0), "first")])
    # the same through the container pass: a local named in a CodeBlock clashes with a container
    yield (2, [[], ["m"]], [("add", ("slot", 1), "m", d, ""), ("new_table",), ("add", ("det", 0), "k", c, ""),
                            ("add", ("det", 0), "M", c, ""), ("merge", ("slot", 1), 0, []), ("lookup", ("slot", 1), "k")])
    # rename refused (CodeBlock of an inner scope counts), then allowed for another symbol; resolvable clash
    yield (2, [["a"], ["b"]], [("add", ("slot", 1), "a", d, ""), ("add", ("slot", 1), "b", d, ""), ("add", ("slot", 1), "c", d, ""),
                               ("rename", ("slot", 1), 0, "z"), ("rename", ("slot", 1), 1, "z"), ("rename", ("slot", 1), 2, "z"),
                               ("new_table",), ("add", ("det", 0), "A", d, ""), ("merge", ("slot", 1), 0, []),
                               ("lookup", ("slot", 1), "a"), ("lookup", ("slot", 1), "a_1")])


def op_sids(op):
    """symbol ids an operation refers to"""
    n = op[0]
    out = []
    spec = {"add": 3, "find_or_create": 3, "swap": 4, "new_symbol": 5, "find_or_create_tag": 5}.get(n)
    if spec is not None and op[spec][2][0] == "IImport":
        out.append(op[spec][2][1])
    if spec is not None and is_genif(op[spec][0]):
        out += list(op[spec][0][1])
    if n in ("rename", "remove", "swap"):
        out.append(op[2])
    if n == "specify_args":
        out += list(op[2])
    if n == "merge":
        out += list(op[3])
    return out


def targeted_histories():
    """Fixed shapes: the known merge side effects, name-suffix chains, case-only differences,
    shadowing across scopes, tags across scopes, detach/attach in the middle of the chain."""
    g, d, c = ("KGeneric", False, ("IAuto",)), ("KData", False, ("IAuto",)), ("KContainer", False, ("IOther",))
    un = ("KGeneric", False, ("IUnres",))
    out = []
    # merge: specialise, then a later clash raises
    out.append((1, [("add", ("slot", 0), "sin", un, ""), ("add", ("slot", 0), "x", un, ""), ("new_table",),
                    ("add", ("det", 0), "sin", un, ""), ("add", ("det", 0), "x", un, ""), ("merge", ("slot", 0), 0, [])]))
    # merge: skipped import clashes with an argument
    out.append((1, [("add", ("slot", 0), "x", ("KData", False, ("IArg",)), ""), ("specify_args", ("slot", 0), [0]),
                    ("new_table",), ("add", ("det", 0), "m", c, ""),
                    ("add", ("det", 0), "x", ("KData", False, ("IImport", 1, "")), ""), ("merge", ("slot", 0), 0, [2])]))
    # merge: skipped import clashes with a local that gets renamed
    out.append((2, [("add", ("slot", 0), "x", d, ""), ("new_table",), ("add", ("det", 0), "m", c, ""),
                    ("add", ("det", 0), "X", ("KData", False, ("IImport", 1, "")), ""), ("merge", ("slot", 0), 0, [2]),
                    ("lookup", ("slot", 0), "x"), ("lookup", ("slot", 0), "x_1")]))
    # merge: import whose container is not in the other table
    out.append((1, [("add", ("slot", 0), "m", c, ""), ("add", ("slot", 0), "x", ("KData", False, ("IImport", 0, "")), ""),
                    ("new_table",), ("new_table",), ("add", ("det", 1), "M", c, ""),
                    ("add", ("det", 0), "first", d, ""), ("add", ("det", 0), "x", ("KData", False, ("IImport", 2, "")), ""),
                    ("merge", ("slot", 0), 0, [])]))
    # merge: specialise, then TypeError specialising a DataSymbol
    out.append((1, [("add", ("slot", 0), "sin", un, ""), ("new_table",),
                    ("add", ("det", 0), "SIN", ("KData", False, ("IUnres",)), ""), ("merge", ("slot", 0), 0, [])]))
    # merge: skipped container clashes with an argument after another container was added
    out.append((1, [("add", ("slot", 0), "m", ("KData", False, ("IArg",)), ""), ("new_table",),
                    ("add", ("det", 0), "k", c, ""), ("add", ("det", 0), "M", c, ""), ("merge", ("slot", 0), 0, [2])]))
    # merge: skipped container forces a rename
    out.append((1, [("add", ("slot", 0), "a", d, ""), ("new_table",), ("add", ("det", 0), "A", c, ""),
                    ("merge", ("slot", 0), 0, [1]), ("lookup", ("slot", 0), "a_1")]))
    # merge: import whose container is visible from the receiving table is dropped
    out.append((1, [("add", ("slot", 0), "sin", c, ""), ("new_table",),
                    ("add", ("det", 0), "max", ("KData", False, ("IImport", 0, "a")), ""),
                    ("add", ("slot", 0), "max", ("KIntrinsic", False, ("IAuto",)), ""), ("merge", ("slot", 0), 0, []),
                    ("lookup", ("slot", 0), "max")]))
    # merge: import whose container is nowhere in scope of the receiving table (KeyError after an add)
    out.append((1, [("add", ("slot", 0), "x", d, ""), ("new_table",), ("new_table",), ("add", ("det", 1), "zz", c, ""),
                    ("add", ("det", 0), "q", d, ""), ("add", ("det", 0), "X", ("KData", False, ("IImport", 1, "")), ""),
                    ("merge", ("slot", 0), 0, [])]))
    # merge: two IntrinsicSymbols pass check_for_clashes, neither can be renamed (SymbolError after an add)
    out.append((1, [("add", ("slot", 0), "sin", ("KIntrinsic", False, ("ICommon",)), ""), ("new_table",),
                    ("add", ("det", 0), "first", d, ""), ("add", ("det", 0), "SIN", ("KIntrinsic", False, ("ICommon",)), ""),
                    ("merge", ("slot", 0), 0, [])]))
    # merge: a skipped ContainerSymbol is merged anyway (no clash at all)
    out.append((1, [("add", ("slot", 0), "a", d, ""), ("new_table",), ("add", ("det", 0), "m", c, ""),
                    ("add", ("det", 0), "b", d, ""), ("merge", ("slot", 0), 0, [1]), ("lookup", ("slot", 0), "m")]))
    # merge: a skipped plain symbol must stay out
    out.append((1, [("add", ("slot", 0), "a", d, ""), ("new_table",), ("add", ("det", 0), "b", d, ""),
                    ("add", ("det", 0), "c", d, ""), ("add", ("det", 0), "A", ("KData", False, ("IArg",)), ""),
                    ("merge", ("slot", 0), 0, [1, 3]), ("lookup", ("slot", 0), "b"), ("lookup", ("slot", 0), "c")]))
    # merge: specialise, then the dry-run rename to "" hits a symbol whose name is empty (KeyError)
    out.append((1, [("add", ("slot", 0), "sin", un, ""), ("add", ("slot", 0), "q", d, ""), ("rename", ("slot", 0), 1, ""),
                    ("add", ("slot", 0), "y", d, ""), ("new_table",), ("add", ("det", 0), "sin", un, ""),
                    ("add", ("det", 0), "Y", d, ""), ("merge", ("slot", 0), 0, [])]))
    # merge with renames on both sides, wildcard containers, nested scopes
    out.append((3, [("add", ("slot", 2), "a_1", d, ""), ("add", ("slot", 1), "A", d, ""), ("add", ("slot", 0), "a", ("KData", False, ("IArg",)), ""),
                    ("new_table",), ("add", ("det", 0), "A", d, "t1"), ("add", ("det", 0), "a_2", d, ""), ("add", ("det", 0), "Mod1", ("KContainer", True, ("IOther",)), ""),
                    ("add", ("slot", 0), "mod1", c, ""), ("merge", ("slot", 0), 0, []), ("lookup", ("slot", 0), "A_3"), ("lookup", ("slot", 0), "a")]))
    # rejected remove()/swap() of TAGGED symbols that are still referenced: a container imported from,
    # a routine that is a member of a generic interface; the tags must survive
    out.append((2, [("add", ("slot", 0), "mod1", c, "c1"), ("add", ("slot", 0), "x", ("KData", False, ("IImport", 0, "")), ""),
                    ("add", ("slot", 0), "sub", ("KRoutine", False, ("IAuto",)), "r1"),
                    ("add", ("slot", 0), "gen", (("KGenIface", (2,)), False, ("IAuto",)), "g1"),
                    ("remove", ("slot", 0), 0), ("lookup_tag", ("slot", 0), "c1"),
                    ("remove", ("slot", 0), 2), ("lookup_tag", ("slot", 0), "r1"),
                    ("swap", ("slot", 0), 0, "MOD1", c), ("lookup_tag", ("slot", 0), "c1"),
                    ("find_or_create_tag", ("slot", 0), "c1", "mod1", False, c, True),
                    ("find_or_create_tag", ("slot", 0), "r1", "sub", False, ("KRoutine", False, ("IAuto",)), True),
                    ("add", ("slot", 0), "other", d, "c1"),
                    ("remove", ("slot", 0), 3), ("remove", ("slot", 0), 2), ("lookup_tag", ("slot", 0), "r1"),
                    ("remove", ("slot", 0), 1), ("remove", ("slot", 0), 0), ("lookup_tag", ("slot", 0), "c1")]))
    # rename / add / swap against a name that differs only in case
    out.append((2, [("add", ("slot", 0), "a", d, "t1"), ("add", ("slot", 0), "b", d, ""), ("rename", ("slot", 0), 1, "A"),
                    ("rename", ("slot", 0), 1, "B"), ("rename", ("slot", 0), 0, "A"), ("add", ("slot", 0), "B", g, ""),
                    ("add", ("slot", 1), "B", g, ""), ("rename", ("slot", 1), 2, "b"), ("lookup", ("slot", 0), "b"),
                    ("swap", ("slot", 1), 2, "b", g), ("rename", ("slot", 0), 1, "c"), ("lookup_tag", ("slot", 0), "t1")]))
    # suffix chains and case
    out.append((2, [("add", ("slot", 1), "a", d, ""), ("add", ("slot", 0), "A_1", d, ""), ("new_symbol", ("slot", 0), "A", "", False, d, True),
                    ("new_symbol", ("slot", 0), "a", "", True, d, True), ("new_symbol", ("slot", 0), "a", "", True, d, True),
                    ("new_symbol", ("slot", 0), "", "", False, g, True), ("new_symbol", ("slot", 0), "", "", False, g, False),
                    ("next_name", ("slot", 0), "A", False, None), ("next_name", ("slot", 1), "A", False, ("slot", 0))]))
    # shadowing, tags and lookups across scopes; detach in the middle
    out.append((3, [("add", ("slot", 2), "a", d, "t1"), ("add", ("slot", 0), "A", g, ""), ("lookup", ("slot", 0), "a"), ("lookup", ("slot", 1), "a"),
                    ("add", ("slot", 1), "b", d, "t1"), ("add", ("slot", 0), "c", d, "T1"), ("lookup_tag", ("slot", 0), "t1"),
                    ("detach", 1), ("lookup", ("slot", 0), "b"), ("lookup_tag", ("slot", 0), "t1"), ("new_symbol", ("slot", 0), "b", "t1", False, d, True),
                    ("attach", 0, 1), ("lookup", ("slot", 0), "b"), ("remove", ("slot", 0), 1), ("lookup", ("slot", 0), "A"),
                    ("rename", ("slot", 2), 0, "B"), ("lookup_tag", ("slot", 1), "t1")]))
    return out


# ----------------------------------------------------------------------------------- findings
def witness_ops(w):
    """known_findings.json stores histories as JSON lists; turn them back into tuples"""
    def conv(x):
        if isinstance(x, list):
            return tuple(conv(y) for y in x)
        return x
    return [conv(o) for o in w["ops"]]


def norm_spec(sp):
    kind = sp[0]
    if is_genif(kind):
        kind = ("KGenIface", tuple(kind[1]))
    return (kind, sp[1], tuple(sp[2]))


def normalise_op(op):
    """tuples all the way down, trefs as tuples, skip lists as lists"""
    op = list(op)
    n = op[0]
    if n not in ("new_table", "detach", "attach"):
        op[1] = tuple(op[1])
    if n in ("add", "find_or_create"):
        op[3] = norm_spec(op[3])
    if n == "swap":
        op[4] = norm_spec(op[4])
    if n in ("new_symbol", "find_or_create_tag"):
        op[5] = norm_spec(op[5])
    if n == "next_name" and op[4] is not None:
        op[4] = tuple(op[4])
    if n == "merge":
        op[3] = list(op[3])
    if n == "specify_args":
        op[2] = list(op[2])
    return tuple(op)


def replay_text(nslots, ops, idx, cbn=None):
    return {"nslots": nslots, "ops": [list(o) for o in ops[:idx + 1]], "codeblock_names": cbn,
            "how": "props/C16/check.py: run_history(ctx, nslots, ops) executes these operations on real "
                   "SymbolTable objects attached to nested Schedules (slot 0 = innermost); "
                   "see Impl._apply for the mapping of each tuple to the SymbolTable method"}


def replay(ctx, path):
    """./check C16 --replay <file>: re-run the history of a replay file (or of a known_findings
    witness) on the implementation and print what the direct evaluation of the property reports."""
    w = json.loads(Path(path).read_text())
    w = w.get("witness", w)
    ops = [normalise_op(o) for o in witness_ops(w)]
    steps, problems = run_history(ctx, w["nslots"], ops, cb_names=w.get("codeblock_names"))
    for i, (op, res, _) in enumerate(steps):
        print("%2d %s -> %s" % (i, op, res))
    print("final state:", steps[-1][2] if steps else None)
    for idx, key, what in problems:
        print("PROPERTY FAILS at step %d [%s]: %s" % (idx, key, what))
    import shutil
    shutil.rmtree(ctx.scratch, ignore_errors=True)
    return 1 if problems else 0


# ---------------------------------------------------------------------------------------- run
def run(ctx):
    import importlib.util
    spec = importlib.util.spec_from_file_location("c16_translate", HERE / "translate.py")
    tr = importlib.util.module_from_spec(spec)
    spec.loader.exec_module(tr)
    core.write_if_changed(core.COQ / "C16" / "GenTables.v", tr.generate())

    ctx.cov["rule"] = ("operation histories (add/new_symbol/find_or_create[_tag]/next_available_name/lookup/"
                       "lookup_with_tag/rename_symbol/remove/swap/specify_argument_list/merge/attach/detach) over "
                       "1-4 nested scopes plus detached tables, names from a pool with case-only variants and "
                       "_N suffixes; one evaluation = one operation whose result and full state were compared "
                       "with the model and on which the property was evaluated directly; non-trivial = history "
                       "containing a successful merge that added a symbol, a rename, a shadowed lookup or a "
                       "suffixed fresh name; distinct = canonical history")
    ctx.cov["trusted_base"] = core.BASE_TRUST + [
        "model coq/C16/Model.v is hand-written; tied to SymbolTable by this correspondence run",
        "translator props/C16/translate.py (intrinsic names, psyir_root_name) is trusted glue",
        "Python dict insertion order / object identity are modelled by association lists / heap indices",
        "names are ASCII: str.lower()/upper() are modelled by ASCII case mapping"]
    ctx.assumptions = [
        "every symbol object belongs to at most one table; the other table of a merge that got past "
        "check_for_clashes is not used again (it shares symbol objects with the receiving table)",
        "no CodeBlock/Call/GenericInterfaceSymbol refers to the symbols (rename_symbol/remove checks on "
        "the PSyIR tree are not modelled)"]
    ok, rep = ctx.prove()
    ctx.log("proof ok=%s discharged=%d/%d" % (ok, ctx.cov["discharged"], ctx.cov["obligations"]))

    # 1. replay the witnesses of the known findings on the tree under test
    for k in ctx.known_findings():
        w = k.get("witness", {})
        ops = [normalise_op(o) for o in witness_ops(w)]
        _, problems = run_history(ctx, w["nslots"], ops)
        for idx, key, what in problems:
            if key == k["key"]:
                ctx.finding(key, what, replay_text(w["nslots"], ops, idx))

    # 2. histories
    rng = ctx.rng("gen")
    histories = [(n, [normalise_op(o) for o in ops]) for n, ops in targeted_histories()]
    n_random = ctx.pick(220, 5000)
    for i in range(n_random):
        flavour = rng.choices(["mixed", "merge", "fresh", "intrinsic", "refs"], weights=[5, 3, 2, 2, 3])[0]
        nslots = rng.choices([1, 2, 3, 4], weights=[3, 4, 4, 1])[0]
        length = rng.randint(4, ctx.pick(14, 22))
        histories.append((nslots, Gen(ctx.rng("h%d" % i), nslots, length, flavour).history()))

    cases, all_problems, per_case = [], [], []
    for nslots, ops in histories:
        steps, problems = run_history(ctx, nslots, ops)
        nontrivial = False
        prev_snap = None
        for (op, res, snap) in steps:
            ctx.hist("op", op[0])
            ctx.hist("result", res[0] if res[0] != "err" else res[1])
            if op[0] == "merge" and res[:2] != ("err", "ENoTable"):
                if res[0] != "err":
                    renamed = prev_snap is not None and any(
                        a[0] != b[0] for a, b in zip(prev_snap["heap"], snap["heap"]))
                    ctx.hist("merge", "completed, renamed a symbol" if renamed else "completed, no rename")
                else:
                    ctx.hist("merge", "raised %s, state %s" % (res[1], "unchanged" if prev_snap is not None and
                                                                prev_snap["heap"] == snap["heap"] and prev_snap["slots"] == snap["slots"]
                                                                else "changed or other table consumed"))
            if op[0] == "lookup" and res[0] == "sym" and op[1][0] == "slot" and prev_snap is not None:
                own = prev_snap["slots"][op[1][1]]
                in_own = own is not None and any(sid == res[1] for _, sid in own[0])
                shadows = sum(1 for t in prev_snap["slots"][op[1][1]:] if t is not None and
                              any(k == op[2].lower() for k, _ in t[0]))
                ctx.hist("lookup_answer", ("own table" if in_own else "enclosing table") +
                         (", shadowing an outer symbol" if shadows > 1 else ""))
            if op[0] == "next_name" and res[0] == "name":
                ctx.hist("fresh_name", "suffix added" if res[1] != (op[2] or "psyir_tmp") else "root free")
            prev_snap = snap
            if res[0] != "err":
                if op[0] == "merge" or op[0] == "rename":
                    nontrivial = True
                if op[0] in ("new_symbol", "next_name") and op[2] and (snap["heap"][-1][0] if op[0] == "new_symbol" else res[1]) != op[2]:
                    nontrivial = True
                if op[0] == "lookup" and op[1][0] == "slot":
                    nontrivial = True
        ctx.hist("nslots", nslots)
        ctx.hist("history_length", len(ops))
        for _ in steps:
            ctx.count((nslots, ops), nontrivial)
        cases.append(c_case(nslots, steps))
        per_case.append((nslots, ops, steps))
        for p in problems:
            all_problems.append((nslots, ops, p, None))
    ctx.sample({"nslots": histories[0][0], "ops": [list(o) for o in histories[0][1]],
                "impl_results": [r[:2] for _, r, _ in per_case[0][2]]})
    ctx.sample({"nslots": histories[-1][0], "ops": [list(o) for o in histories[-1][1]],
                "impl_results": [r[:2] for _, r, _ in per_case[-1][2]]})

    ctx.log("ran %d histories (%d operations) on the implementation" % (len(histories), ctx.cov["evaluations"]))

    # 2b. scopes whose trees contain CodeBlocks naming some of the symbols: rename_symbol and the
    # clash resolution of merge must refuse to rename those.  The Coq model has no CodeBlocks, so
    # these histories are only evaluated directly (rejected => unchanged, unique names, merge ...).
    cb_hist = list(codeblock_histories())
    for i in range(ctx.pick(120, 2500)):
        r2 = ctx.rng("cb%d" % i)
        nslots = r2.choice([1, 2, 2, 3])
        g = Gen(r2, nslots, r2.randint(5, ctx.pick(14, 20)), r2.choice(["merge", "merge", "mixed", "refs"]))
        pool = ["a", "A", "b", "x", "X", "ab", "sin", "m", "a_1", "b_1", "x_1"]
        g.cb_names = [r2.sample(pool, r2.choice([0, 1, 2, 3])) for _ in range(nslots)]
        cb_hist.append((nslots, g.cb_names, g.history()))
    n_cb_ops = 0
    cb_cases, cb_per_case = [], []
    for nslots, cbn, ops in cb_hist:
        ops = [normalise_op(o) for o in ops]
        steps, problems = run_history(ctx, nslots, ops, cb_names=cbn)
        n_cb_ops += len(steps)
        cb_cases.append(c_case_cb(nslots, cbn, steps))
        cb_per_case.append((nslots, cbn, ops, steps))
        for (op, res, _) in steps:
            ctx.hist("codeblock_histories", "%s -> %s" % (op[0], res[0] if res[0] != "err" else res[1]))
            ctx.count(("cb", nslots, cbn, ops), op[0] in ("merge", "rename"))
        for idx, key, what in problems:
            all_problems.append((nslots, ops, (idx, key, what + " [scopes with CodeBlocks naming %s]" % (cbn,)), cbn))
    ctx.log("ran %d histories (%d operations) over scopes containing CodeBlocks" % (len(cb_hist), n_cb_ops))

    # 3. the property evaluated directly on the implementation
    seen = set()
    for nslots, ops, (idx, key, what), cbn in all_problems:
        ctx.hist("property_failures_on_impl", key)
        if key in seen:
            continue
        seen.add(key)
        ctx.finding(key, what, replay_text(nslots, ops, idx, cbn))

    # 4. model = implementation
    header = HEADER + "\n" + POOL.header()
    failing = ctx.coq_eval_failing(header, "wcase", "check_wcase", cases, shard=ctx.pick(80, 100))
    # 4b. the CodeBlock histories against the CodeBlock-aware model (coq/C16/CodeBlocks.v, ExecCB.v)
    header_cb = HEADER.replace("C16.Exec.", "C16.Exec C16.CodeBlocks C16.ExecCB.") + "\n" + POOL.header()
    failing_cb = ctx.coq_eval_failing(header_cb, "wcase_cb", "check_wcase_cb", cb_cases, shard=ctx.pick(80, 100))
    ctx.notes["codeblock_histories_compared_with_model"] = len(cb_cases)
    ctx.notes["codeblock_model_disagreements"] = len(failing_cb)
    ctx.cov["disagreements_checked"] = len(failing) + len(failing_cb)
    ctx.log("histories=%d (+%d with CodeBlocks) steps=%d model/impl disagreements=%d (+%d) property failures on impl=%d (keys: %s)"
            % (len(cases), len(cb_cases), ctx.cov["evaluations"], len(failing), len(failing_cb), len(all_problems), sorted(seen)))
    new_violation = bool(ctx.violations)
    if failing_cb and not new_violation and not failing and ok:
        i = failing_cb[0]
        nslots, cbn, ops, steps = cb_per_case[i]
        shown = ctx.coq_eval_show(header_cb, ["first_bad_wcb %s" % cb_cases[i]])
        ctx.violation({"property": "C16",
                       "broken": "correspondence C16.ExecCB.step_cb = SymbolTable operations over scopes with CodeBlocks",
                       "first_differing_case": {"nslots": nslots, "codeblock_names": cbn, "ops": [list(o) for o in ops],
                                                "impl_results": [list(r) for _, r, _ in steps],
                                                "first_differing_step(model)": shown},
                       "n_differing": len(failing_cb)}, no_input=True)
    if (failing or not ok) and not new_violation:
        first = None
        if failing:
            i = failing[0]
            nslots, ops, steps = per_case[i]
            shown = ctx.coq_eval_show(header, ["first_bad_w %s" % cases[i]])
            first = {"nslots": nslots, "ops": [list(o) for o in ops], "impl_results": [list(r) for _, r, _ in steps],
                     "first_differing_step(model)": shown}
        ctx.violation({"property": "C16",
                       "broken": "correspondence C16.Model.step = SymbolTable operations" if failing
                       else "proof obligations of Properties/C16.v",
                       "proof_report": rep if not ok else None, "first_differing_case": first,
                       "n_differing": len(failing)}, no_input=True)
