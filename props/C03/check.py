"""C03 -- Re-writing is stable after one round trip.

Model: coq/C03/Decls.v (gen_decls / order_consts / flatten / reread); theorems: coq/Properties/C03.v.
The property itself is evaluated directly on the implementation:
  (i)  every Fortran file of the test-suite and the examples the reader accepts (sample in quick),
       plus the minimised witnesses in props/C03/corpus,
  (ii) generated module sources, API-built routines with nested scopes and clashing names, API-built
       trees carrying comments and directives:
       w1 = W(p); w2 = W(R(w1)); require w1 == w2 and the same statements / code blocks / comments /
       directives in R(w1) as in p.
Every instability gets a reason code (site/reason) computed from the two texts; codes listed open in
known_findings.json print KNOWN-FINDING, anything else is a VIOLATION.
Correspondence of the model: gen_decls order (random tables, random insertion order, cycles),
scope-merge renaming (declared names of the written routine), reader table order (reread).
"""
import json
import os
import subprocess
import sys
from pathlib import Path

from vlib import core

HERE = Path(__file__).resolve().parent
sys.path.insert(0, str(HERE))
import rt      # noqa: E402  pylint: disable=wrong-import-position
import gen     # noqa: E402  pylint: disable=wrong-import-position

HEADER = """From Coq Require Import String.
From PV Require Import C03.Names C03.Decls C03.Iface.
Open Scope string_scope. Open Scope list_scope.
Definition agrees_write (c : (list string * list sym * list (list sym)) * option (list string)) : bool :=
  match c with
  | ((o, r, i), obs) => match write_decls o r i, obs with
                        | Some l, Some n => list_str_eqb (map s_name l) n
                        | None, None => true
                        | _, _ => false
                        end
  end.
Inductive case :=
| CD (c : list sym * option (list nat))
| CW (c : (list string * list sym * list (list sym)) * option (list string))
| CR (c : list sym * list nat)
| CI (c : iface * list stmt * iface).
Definition agrees (c : case) : bool :=
  match c with CD x => agrees_decls x | CW x => agrees_write x | CR x => agrees_reread x | CI x => agrees_iface x end."""

WHAT = {
    "gen_access_stmts/name-order-follows-table-order":
        "the names of a 'public ::'/'private ::' statement are written in table order while gen_use sorts the "
        "only-list; after re-reading the table order is the sorted one and the access statement changes",
    "gen_decls/constant-mentions-later-variable":
        "a parameter that inquires about a variable (kind(v), size(v)) is written before the variables; the "
        "reader gives v its table slot at that first mention and the second write re-orders the variables",
    "FortranReader/comment-lines-dropped":
        "comments held by the PSyIR are written but the reader ignores comments: they are lost on re-reading",
    "FortranReader/directive-lines-dropped":
        "directives held by the PSyIR are written but the reader ignores them: they are lost on re-reading",
}


class Verdict:
    def __init__(self, ctx):
        self.ctx = ctx
        self.fail = 0

    def handle(self, res, origin, source):
        """Classify one round-trip result; returns True when the property's antecedent held."""
        ctx = self.ctx
        st = res["status"]
        ctx.hist("status:" + origin.split(":")[0], st)
        if st in ("refused", "write1-error", "timeout"):
            if res.get("error"):
                ctx.hist("refusals", res["error"][:60])
            return False
        if st == "stable":
            return True
        if st == "unstable":
            key = res.get("reason") or rt.classify(res["w1"], res["w2"])
        elif st == "items-changed":
            key = "items/" + "+".join(sorted({k.split(":")[0] for k in list(res.get("lost", {})) + list(res.get("added", {}))}))
        else:
            key = "%s/%s" % (st, res.get("error", "?"))
        ctx.hist("instability", key)
        self.fail += 1
        replay = {"property": "C03", "origin": origin, "source": source, "status": st,
                  "first_difference(line, pass1, pass2)": res.get("diff"), "items_lost": res.get("lost"),
                  "items_added": res.get("added"),
                  "replay": "PYTHONPATH=$VERIF_REPO/src:/verif python -c \"import sys; sys.path.insert(0,'/verif/props/C03'); "
                            "import rt; print(rt.roundtrip(path=FILE or src=TEXT))\""}
        ctx.finding(key, WHAT.get(key, "round trip not stable: " + key), replay)
        return True


def file_corpus(ctx):
    files = rt.corpus_files(core.REPO)
    if not ctx.thorough:
        files = ctx.rng("files").sample(files, min(120, len(files)))
    return [str(f) for f in files]


def start_workers(ctx, files):
    nw = int(os.environ.get("VERIF_JOBS", "4"))
    procs = []
    env = dict(os.environ)
    env["PYTHONPATH"] = "%s:%s" % (core.REPO / "src", core.VERIF)
    env.setdefault("PSYCLONE_CONFIG", str(core.REPO / "config" / "psyclone.cfg"))
    env["PYTHONHASHSEED"] = "0"
    for k in range(nw):
        part = files[k::nw]
        if not part:
            continue
        out = ctx.scratch / ("files_%d.json" % k)
        lst = ctx.scratch / ("files_%d.txt" % k)
        lst.write_text("\n".join(part))
        p = subprocess.Popen([sys.executable, str(HERE / "rt.py"), str(ctx.pick(20, 60)), str(out)] + part,
                             env=env, stdout=subprocess.DEVNULL, stderr=subprocess.DEVNULL)
        procs.append((p, out, part))
    return procs


def collect_workers(ctx, procs):
    results = []
    for p, out, part in procs:
        try:
            p.wait(timeout=ctx.pick(170, 1100))
        except subprocess.TimeoutExpired:
            p.kill()
        if out.exists():
            results += json.loads(out.read_text())
        else:
            results += [{"status": "timeout", "file": f} for f in part]
    return results


def unit_blocks(text):
    """(kind, name, declaration block text) for every module / subroutine of a written file."""
    import re
    lines = text.split("\n")
    out = []
    i = 0
    while i < len(lines):
        m = re.match(r"\s*(module|subroutine|program)\s+(\w+)", lines[i], re.I)
        if m and not re.match(r"\s*module\s+procedure", lines[i], re.I):
            j = i + 1
            blk = []
            while j < len(lines) and not re.match(r"\s*(contains\b|end\s+(module|subroutine|program))", lines[j], re.I):
                if m.group(1).lower() != "module" and not lines[j].strip():
                    break
                blk.append(lines[j])
                j += 1
            out.append((m.group(1).lower(), m.group(2), "\n".join(blk)))
        i += 1
    return out


def reread_cases(w1, p2):
    """Cases (declarations of w1 in text order with their refs, observed table order in R(w1))."""
    from psyclone.psyir.nodes import Routine, Container, FileContainer
    cases = []
    units = {}
    for sc in p2.walk((Container, Routine)):
        if isinstance(sc, FileContainer):
            continue
        units[sc.name.lower()] = sc
    for kind, name, blk in unit_blocks(w1):
        sc = units.get(name.lower())
        if sc is None:
            continue
        tab = sc.symbol_table
        names = gen.declared_names(blk)
        try:
            text_syms = [tab.lookup(n, scope_limit=sc) for n in names]
        except KeyError:
            continue
        if any(gen.sym_cat(s) == "CSkip" for s in text_syms) or len(set(map(id, text_syms))) != len(text_syms):
            continue
        from psyclone.psyir.symbols import UnsupportedType
        if any(isinstance(getattr(s, "datatype", None), UnsupportedType) for s in text_syms):
            continue        # declaration kept as text: its mentions are not visible to the encoder
        idof = {id(s): i for i, s in enumerate(text_syms)}
        observed = [idof[id(s)] for s in tab.symbols if id(s) in idof]
        if len(text_syms) >= 2:
            cases.append(("(%s, %s)" % (gen.coq_table(text_syms, idof), core.coq_list(str(x) for x in observed)),
                          {"unit": name, "text_order": names, "table_order": [text_syms[i].name for i in observed]}))
    return cases


def iface_cases(p1, w1, p2):
    """(interface as read, statements the real writer emits for it, interface after re-reading)."""
    import re
    from psyclone.psyir.nodes import ScopingNode
    from psyclone.psyir.symbols import GenericInterfaceSymbol
    from psyclone.psyir.backend.fortran import FortranWriter

    def enc_iface(sym):
        return core.coq_list("(%s, %s)" % (core.coq_str(i.symbol.name.lower()), "PModule" if i.from_container else "PPlain")
                             for i in sym.routines)
    second = {}
    for sc in p2.walk(ScopingNode):
        for sym in sc.symbol_table.symbols:
            if isinstance(sym, GenericInterfaceSymbol):
                second[sym.name.lower()] = sym
    out = []
    for sc in p1.walk(ScopingNode):
        for sym in sc.symbol_table.symbols:
            if isinstance(sym, GenericInterfaceSymbol) and sym.name.lower() in second:
                stmts = []
                for ln in FortranWriter().gen_interfacedecl(sym).split("\n"):
                    m = re.match(r"\s*(module\s+)?procedure\s*::\s*(.*)$", ln, re.I)
                    if m:
                        stmts.append("(%s, %s)" % ("PModule" if m.group(1) else "PPlain",
                                                   core.coq_list(core.coq_str(x.strip().lower()) for x in m.group(2).split(","))))
                out.append(("(%s, %s, %s)" % (enc_iface(sym), core.coq_list(stmts), enc_iface(second[sym.name.lower()])),
                            {"interface": sym.name, "written": FortranWriter().gen_interfacedecl(sym)}))
    return out


def run(ctx):
    ctx.cov["rule"] = (
        "round trips w1=W(p), w2=W(R(w1)) on: Fortran files of tests/test_files + examples accepted by reader and "
        "writer (quick: seeded sample of 150, thorough: all 806), the witnesses in props/C03/corpus, generated "
        "module sources (kinds, parameters, derived types, interfaces, access statements, use-only lists, comments, "
        "directives, unsupported statements), API-built routines with nested scopes whose symbols clash with "
        "routine/module names, and API trees with comments/OpenMP directives; non-trivial = both writes succeeded "
        "(antecedent of the property) ; distinct = distinct source. Model correspondence: random symbol tables "
        "(2-9 symbols, dependency DAG over values/kinds/literal kinds/bounds/inquiries, back edges, random insertion "
        "order) vs gen_decls; nested scopes vs declared names of the written routine; reader table order vs reread")
    ctx.cov["trusted_base"] = core.BASE_TRUST + [
        "model coq/C03/Decls.v is hand-written; tied to FortranWriter.gen_decls/_gen_parameter_decls/routine_node and "
        "to Fparser2Reader.process_declarations by the correspondence run of this check",
        "the encoder props/C03/gen.py (category, inputs and mentions of a real symbol) is trusted glue; the list of "
        "inquiry intrinsics is read from IntrinsicCall.Intrinsic.*.is_inquiry of the tree under test",
        "text layout, expressions and statements are not modelled: their stability is checked on the corpora only"]
    ctx.assumptions = ["symbols of one scope have pairwise different identities (NoDup (ids t))",
                       "C03_*_partial: the written declarations contain no forward reference (no_forward_refs)"]
    # ---- (i) file corpus in worker processes (they run while the proofs are built and the
    #      generated part is done in-process)
    files = file_corpus(ctx)
    procs = start_workers(ctx, files)
    ok, rep = ctx.prove()
    ctx.log("proof ok=%s discharged=%d/%d" % (ok, ctx.cov["discharged"], ctx.cov["obligations"]))
    v = Verdict(ctx)
    rng = ctx.rng("gen")

    # ---- witnesses (minimised failures), always replayed
    for f in sorted((HERE / "corpus").glob("*.f90")):
        src = f.read_text()
        res = rt.roundtrip(src=src)
        if v.handle(res, "corpus:" + f.name, src):
            ctx.count(("corpus", f.name), True)

    ctx.log("witnesses done")
    # ---- (ii.a) generated sources
    rr_cases = []
    if_cases = []
    nsrc = ctx.pick(30, 600)
    for i in range(nsrc):
        src, feats = gen.gen_source(rng, i)
        for ft in feats:
            ctx.hist("source_features", ft)
        res = rt.roundtrip(src=src)
        held = v.handle(res, "gen-source:%d" % i, src)
        ctx.count(("src", src), held)
        if held and "w1" in res:
            try:
                if_cases += iface_cases(rt.read_text(src), res["w1"], rt.read_text(res["w1"]))
            except Exception as e:      # pylint: disable=broad-except
                ctx.hist("iface_encoder_skipped", type(e).__name__)
        if held and len(rr_cases) < ctx.pick(150, 1500):
            try:
                rr_cases += reread_cases(res["w1"], rt.read_text(res["w1"]))
            except Exception as e:      # pylint: disable=broad-except
                ctx.hist("reread_encoder_skipped", type(e).__name__)
        if i == 0:
            ctx.sample({"generated_source": src, "status": res["status"], "reason": res.get("reason")})

    ctx.log("generated sources done")
    # ---- (ii.b) nested scopes (API-built): declared names of the written routine vs the model
    from psyclone.psyir.backend.fortran import FortranWriter
    from psyclone.psyir.backend.visitor import VisitorError
    wr_cases, wr_info = [], []
    nn = ctx.pick(60, 800)
    for i in range(nn):
        cont, rout = gen.gen_nested(rng)
        enc = gen.nested_case(cont, rout)
        try:
            w1 = FortranWriter()(cont)
            names = gen.declared_names(gen.routine_decl_block(w1, "sub"))
            obs = "Some " + core.coq_list(core.coq_str(x) for x in names)
        except Exception as e:      # pylint: disable=broad-except
            # the model never fails on these inputs: reported through the correspondence below
            w1, names, obs = None, None, "None"
            ctx.hist("nested_write_error", "%s:%s" % (type(e).__name__, str(e)[:50]))
        wr_cases.append("(%s, %s)" % (enc, obs))
        wr_info.append({"written": w1, "declared": names})
        res = rt.roundtrip(tree=cont, fold_case=True)
        held = v.handle(res, "gen-nested:%d" % i, w1)
        renamed = bool(w1) and any("_" in n and n.rsplit("_", 1)[1].isdigit() for n in (names or []))
        ctx.hist("nested_renamed", renamed)
        ctx.count(("nested", w1), held and renamed)
        if i == 0:
            ctx.sample({"nested_scopes_written": w1})
        # names written once: direct evaluation of "no duplicate declaration"
        if names is not None and len({n.lower() for n in names}) != len(names):
            ctx.violation({"property": "C03", "what": "a name is declared twice after merging the scopes",
                           "written": w1, "declared": names})

    ctx.log("nested scopes done")
    # ---- (ii.c) API trees with comments and directives
    from psyclone.transformations import OMPParallelLoopTrans
    from psyclone.psyir.nodes import Loop, Assignment
    ncd = ctx.pick(12, 120)
    for i in range(ncd):
        src, _ = gen.gen_source(rng, 1000 + i)
        try:
            # start from a text that is a fixpoint of the round trip, so that the only effect seen
            # is that of the decoration
            base = rt.roundtrip(src=src)
            tree = rt.read_text(base["w2"])
        except Exception:      # pylint: disable=broad-except
            continue
        what = rng.choice(["comment", "directive"])
        did = False
        if what in ("comment", "both"):
            for a in tree.walk(Assignment)[:2]:
                a.preceding_comment = "added by a transformation %d" % i
                did = True
        if what in ("directive", "both"):
            for lp in tree.walk(Loop)[:1]:
                try:
                    OMPParallelLoopTrans().apply(lp, {"force": True})
                    did = True
                except Exception as e:      # pylint: disable=broad-except
                    ctx.hist("omp_refused", type(e).__name__)
        if not did:
            continue
        ctx.hist("tree_decoration", what)
        res = rt.roundtrip(tree=tree)
        held = v.handle(res, "gen-decorated:%d" % i, res.get("w1"))
        ctx.count(("decorated", res.get("w1")), held)

    ctx.log("decorated trees done")
    # ---- gen_decls vs model on random tables
    gd_cases, gd_specs = [], []
    nt = ctx.pick(300, 6000)
    for i in range(nt):
        spec = gen.gen_table_spec(rng)
        table, _ = gen.build_table(spec)
        syms = table.symbols
        idof = {s.name: k for k, s in enumerate(syms)}
        try:
            txt = FortranWriter().gen_decls(table)
            order = [idof[n] for n in gen.declared_names(txt)]
            obs = "Some " + core.coq_list(str(x) for x in order)
            # the property's own demands on the writer's output: nothing lost, nothing duplicated
            want = sorted(k for k, s in enumerate(syms) if gen.sym_cat(s) != "CSkip")
            if sorted(order) != want:
                ctx.violation({"property": "C03", "what": "gen_decls lost or duplicated a declaration",
                               "spec": spec, "written": txt})
            # idempotence of the writer's order: re-insert in written order, write again
            ctx.hist("gen_decls", "ok")
        except VisitorError as e:
            obs = "None"
            ctx.hist("gen_decls", "VisitorError:" + str(e)[:40])
        gd_cases.append("(%s, %s)" % (gen.coq_table(syms), obs))
        gd_specs.append(spec)
        cats_by = {e["name"]: e["cat"] for e in spec}
        ctx.hist("array_constants_with_local_kind",
                 sum(1 for e in spec if e["cat"] == "const" and e["shape"] and e["kind"] and cats_by.get(e["kind"]) == "const"))
        nconst = sum(1 for e in spec if e["cat"] == "const")
        ctx.hist("table_consts", nconst)
        ctx.count(("table", repr(spec)), nconst >= 2)

    ctx.log("tables done")
    # ---- collect the file corpus
    results = collect_workers(ctx, procs)
    for r in results:
        held = v.handle(r, "file:" + r["file"].replace(str(core.REPO) + "/", ""), r["file"])
        ctx.count(("file", r["file"]), held)
    ctx.notes["files_run"] = len(results)

    ctx.log("file corpus done")
    # ---- model evaluation
    allc = ["CD " + c for c in gd_cases] + ["CW " + c for c in wr_cases] + ["CR " + c for c, _ in rr_cases] \
        + ["CI " + c for c, _ in if_cases]
    bad = ctx.coq_eval_failing(HEADER, "case", "agrees", allc, shard=ctx.pick(4000, 2500))
    n1, n2 = len(gd_cases), len(gd_cases) + len(wr_cases)
    bad_gd = [i for i in bad if i < n1]
    bad_wr = [i - n1 for i in bad if n1 <= i < n2]
    n3 = n2 + len(rr_cases)
    bad_rr = [i - n2 for i in bad if n2 <= i < n3]
    bad_if = [i - n3 for i in bad if i >= n3]
    ctx.notes["interface_cases"] = len(if_cases)
    ctx.cov["disagreements_checked"] = len(bad_gd) + len(bad_wr) + len(bad_rr) + len(bad_if)
    ctx.notes["model_cases"] = {"gen_decls": len(gd_cases), "scope_merge": len(wr_cases), "reread": len(rr_cases)}
    ctx.log("round trips: failures=%d; model cases gen_decls=%d (bad %d) merge=%d (bad %d) reread=%d (bad %d)"
            % (v.fail, len(gd_cases), len(bad_gd), len(wr_cases), len(bad_wr), len(rr_cases), len(bad_rr)))

    # ---- search for a concrete failing input when gen_decls and the model disagree: wrap the
    #      differing tables in a routine and evaluate the property (round trip) on it
    found = 0
    for i in bad_gd[:ctx.pick(12, 60)]:
        try:
            from psyclone.psyir.nodes import Routine
            table, _ = gen.build_table(gd_specs[i])
            tree = Routine.create("w", table, [])
            res = rt.roundtrip(tree=tree, fold_case=True)
        except Exception as e:      # pylint: disable=broad-except
            ctx.hist("search", "not-buildable:" + type(e).__name__)
            continue
        ctx.hist("search", res["status"])
        if res["status"] in ("unstable", "items-changed", "reread-error", "write2-error"):
            found += 1
            if found <= 2:
                ctx.violation({"property": "C03", "what": "round trip of a routine whose declarations gen_decls orders differently from the model",
                               "table_spec": gd_specs[i], "status": res["status"], "error": res.get("error"),
                               "first_difference": res.get("diff"), "pass1": res.get("w1"), "pass2": res.get("w2"),
                               "replay": "props/C03/gen.py: build_table(spec); Routine.create('w', table, []); rt.roundtrip(tree=...)"})

    # ---- verdict on proof / correspondence
    if (not ok or bad_gd or bad_wr or bad_rr or bad_if) and not found:
        first = None
        if bad_gd:
            i = bad_gd[0]
            first = {"relation": "C03.Decls.gen_decls = FortranWriter.gen_decls (order of declarations)",
                     "spec": gd_specs[i], "case": gd_cases[i],
                     "model": ctx.coq_eval_show(HEADER, ["option_map ids (gen_decls (fst %s))" % gd_cases[i]])}
        elif bad_wr:
            i = bad_wr[0]
            first = {"relation": "C03.Decls.write_decls = declared names of the routine written by routine_node",
                     "case": wr_cases[i], "impl": wr_info[i],
                     "model": ctx.coq_eval_show(HEADER, ["option_map (map s_name) (let '(o, r, i) := fst %s in write_decls o r i)" % wr_cases[i]])}
        elif bad_if:
            i = bad_if[0]
            first = {"relation": "C03.Iface.write_iface / read_iface = gen_interfacedecl / _process_interface_block",
                     "case": if_cases[i][0], "impl": if_cases[i][1]}
        elif bad_rr:
            i = bad_rr[0]
            first = {"relation": "C03.Decls.reread = symbol-table order built by process_declarations",
                     "case": rr_cases[i][0], "impl": rr_cases[i][1]}
        if not v.fail or first or not ok:
            ctx.violation({"property": "C03",
                           "broken": "proof obligations of Properties/C03.v" if not ok else "model correspondence",
                           "proof_report": rep if not ok else None, "first_differing_case": first,
                           "n_differing": {"gen_decls": len(bad_gd), "scope_merge": len(bad_wr), "reread": len(bad_rr),
                                           "interfaces": len(bad_if)}},
                          no_input=True)
