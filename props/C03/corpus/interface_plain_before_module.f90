module solver_mod
  use backend_mod, only : solve_banded, solve_dense
  implicit none
  private
  interface solve
    procedure solve_banded, solve_dense
    module procedure solve_diag, solve_ident
  end interface solve
  public :: solve
contains
  subroutine solve_diag(diag, rhs, n)
    integer, intent(in) :: n
    real, dimension(n), intent(in) :: diag
    real, dimension(n), intent(inout) :: rhs
    integer :: i
    do i = 1, n
      rhs(i) = rhs(i) / diag(i)
    end do
  end subroutine solve_diag
  subroutine solve_ident(rhs)
    real, dimension(:), intent(inout) :: rhs
    rhs(:) = rhs(:)
  end subroutine solve_ident
end module solver_mod
