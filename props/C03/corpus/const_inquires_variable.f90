module const_inquires_variable
  implicit none
  integer :: aa
  integer :: bb
  integer, parameter :: kb = kind(bb)
end module const_inquires_variable
