module access_order
  use kinds_mod, only : zeta_k, alpha_k
  implicit none
  private
  public :: zeta_k, alpha_k
end module access_order
