"""Generators and encoders shared by the C03 and C04 checks.

* table specs  : abstract description of a symbol table (insertion order, categories, dependency
                 DAG among parameters / kind parameters / array bounds / inquiry arguments /
                 derived types) -> real psyclone SymbolTable (build_table) and -> Coq term (coq_table).
                 The Coq encoding is computed from the REAL symbols (walk of the initial values and
                 datatypes), not from the spec, so it also checks what the spec builder produced.
* nested scopes: a Container + Routine whose inner Schedules (loop bodies, if bodies) own symbols
                 that clash with routine-level / module-level names.
* source texts : Fortran modules with kinds, parameters, derived types, interfaces, access
                 statements, comments, directives and unsupported statements (code blocks).
"""
import re

from vlib import core

CATS = {"iface": "CRoutine", "const": "CConst", "arg": "CArg", "type": "CType", "var": "CVar",
        "import": "CSkip", "container": "CSkip", "rsym": "CSkip"}


# ------------------------------------------------------------------------------ table specs
def gen_table_spec(rng, nmax=9, cyc=0.12, compilable=False):
    """A list of entries in table insertion order.  Entry: dict(name, cat, deps, kind, litkind, shape,
    inq, typ) where the reference fields hold NAMES of other entries."""
    n = rng.randint(2, nmax)
    names = ["s%d" % i for i in range(n)]
    cats = []
    for _ in range(n):
        cats.append(rng.choice(["const"] * 6 + ["var"] * 3 + ["arg"] * 2 + ["type", "import"] + ([] if compilable else ["iface"])))
    hidden = list(range(n))
    rng.shuffle(hidden)                     # hidden "valid" order: dependencies point backwards in it
    ents = {}
    for i in hidden:                        # generate in hidden order: what is referenced already exists
        nm, cat = names[i], cats[i]
        e = dict(name=nm, cat=cat, deps=[], kind=None, litkind=None, shape=[], inq=[], typ=None)
        earlier = [x for x in names if x in ents]
        later = [x for x in names if x not in ents and x != nm]
        scal = [x for x in earlier if not ents[x]["shape"]]
        consts_e = [x for x in scal if ents[x]["cat"] in ("const", "import")]
        intlike_e = [x for x in scal if ents[x]["cat"] in ("const", "import", "var", "arg") and not ents[x]["typ"]]
        inq_e = [x for x in earlier if ents[x]["cat"] in ("const", "var", "arg") and not ents[x]["typ"]]
        if compilable:
            # array bounds of variables: parameters or dummy arguments only (automatic arrays)
            intlike_e = [x for x in intlike_e if ents[x]["cat"] in ("const", "import", "arg")]
        types_e = [x for x in earlier if ents[x]["cat"] == "type"]
        if cat == "const":
            for x in consts_e:
                if rng.random() < 0.35:
                    e["deps"].append(x)
            if later and rng.random() < cyc:       # back edge: may create a cycle
                x = rng.choice(later)
                if cats[names.index(x)] == "const":
                    e["deps"].append(x)
            if consts_e and rng.random() < 0.3:
                e["kind"] = rng.choice(consts_e)
            if consts_e and rng.random() < 0.2:
                e["litkind"] = rng.choice(consts_e)
            if consts_e and rng.random() < 0.25:
                e["shape"] = [rng.choice(consts_e)]
            if inq_e and rng.random() < 0.25:
                e["inq"] = [rng.choice(inq_e)]
        elif cat in ("var", "arg"):
            if consts_e and rng.random() < 0.3:
                e["kind"] = rng.choice(consts_e)
            if intlike_e and rng.random() < 0.4:
                e["shape"] = [rng.choice(intlike_e if cat == "arg" or (compilable and rng.random() < 0.4) else consts_e or intlike_e)]
            if types_e and rng.random() < 0.3 and not e["kind"]:
                e["typ"] = rng.choice(types_e)
        elif cat == "type":
            if consts_e and rng.random() < 0.5:
                e["kind"] = rng.choice(consts_e)
            if consts_e and rng.random() < 0.4:
                e["shape"] = [rng.choice(consts_e)]
        ents[nm] = e
    order = names[:]
    rng.shuffle(order)                      # random insertion order
    return [ents[x] for x in order]


def build_table(spec, compilable=False):
    """Realise a spec as a psyclone SymbolTable (symbols inserted in spec order).  compilable: every
    parameter has the value 4 (a valid kind and extent) whatever it depends on."""
    from psyclone.psyir.symbols import (SymbolTable, DataSymbol, DataTypeSymbol, ContainerSymbol,
                                        ImportInterface, ArgumentInterface, ScalarType, ArrayType,
                                        INTEGER_TYPE, StructureType, GenericInterfaceSymbol,
                                        RoutineSymbol, Symbol, UnresolvedType, StaticInterface)
    from psyclone.psyir.nodes import Reference, Literal, BinaryOperation, IntrinsicCall
    table = SymbolTable()
    syms = {}
    by = {e["name"]: e for e in spec}
    csym = None
    if any(e["cat"] == "import" for e in spec):
        csym = ContainerSymbol("extmod")
        table.add(csym)

    # create all symbol objects first (datatypes are filled in afterwards, they may point at symbols
    # that come later in insertion order), then insert in spec order
    for e in spec:
        nm, cat = e["name"], e["cat"]
        if cat == "import":
            syms[nm] = DataSymbol(nm, INTEGER_TYPE, interface=ImportInterface(csym))
        elif cat == "type":
            syms[nm] = DataTypeSymbol(nm, UnresolvedType())
        elif cat == "iface":
            rs = RoutineSymbol(nm + "_impl")
            syms[nm + "_impl"] = rs
            syms[nm] = GenericInterfaceSymbol(nm, [(rs, True)])
        elif cat == "arg":
            syms[nm] = DataSymbol(nm, INTEGER_TYPE, interface=ArgumentInterface(ArgumentInterface.Access.READ))
        else:
            syms[nm] = DataSymbol(nm, INTEGER_TYPE)

    def scalar(e, real=False):
        intr = ScalarType.Intrinsic.REAL if real else ScalarType.Intrinsic.INTEGER
        if e["kind"]:
            return ScalarType(intr, syms[e["kind"]])
        return ScalarType(intr, ScalarType.Precision.UNDEFINED)

    def shaped(e, base):
        if e["shape"]:
            return ArrayType(base, [Reference(syms[x]) for x in e["shape"]])
        return base

    for e in spec:
        nm, cat = e["name"], e["cat"]
        s = syms[nm]
        if cat == "const":
            base = scalar(e)
            lt = ScalarType(ScalarType.Intrinsic.INTEGER, syms[e["litkind"]]) if e["litkind"] else INTEGER_TYPE
            expr = Literal("4" if compilable else "1", lt)

            def term(x):
                if compilable:
                    return BinaryOperation.create(BinaryOperation.Operator.MUL, Literal("0", INTEGER_TYPE), x)
                return x
            for d in e["deps"]:
                expr = BinaryOperation.create(BinaryOperation.Operator.ADD, expr, term(Reference(syms[d])))
            for d in e["inq"]:
                tgt = by[d]
                const_shape = tgt["shape"] and tgt["cat"] != "arg" and all(by[b]["cat"] in ("const", "import") for b in tgt["shape"])
                intr = IntrinsicCall.Intrinsic.SIZE if (const_shape if compilable else tgt["shape"]) else IntrinsicCall.Intrinsic.KIND
                expr = BinaryOperation.create(BinaryOperation.Operator.ADD, expr,
                                              term(IntrinsicCall.create(intr, [Reference(syms[d])])))
            s.datatype = shaped(e, base)
            s.interface = StaticInterface()
            s.initial_value = expr
            s.is_constant = True
        elif cat in ("var", "arg"):
            if e["typ"]:
                s.datatype = shaped(e, syms[e["typ"]])
            else:
                s.datatype = shaped(e, scalar(e))      # integer(kind=k): may itself be used as a bound
        elif cat == "type":
            comps = [("f", INTEGER_TYPE, Symbol.Visibility.PUBLIC, None)]
            if e["kind"] or e["shape"]:
                comps.append(("c", shaped(e, scalar(e, real=bool(e["kind"]))), Symbol.Visibility.PUBLIC, None))
            s.datatype = StructureType.create(comps)
    args = []
    for e in spec:
        if e["cat"] == "iface":
            table.add(syms[e["name"] + "_impl"])
        table.add(syms[e["name"]])
        if e["cat"] == "arg":
            args.append(syms[e["name"]])
    if args:
        table.specify_argument_list(args[::-1])      # argument-list order differs from table order
    return table, syms


def sym_cat(sym):
    """Category gen_decls puts a real symbol in (independent re-statement of its isinstance tests)."""
    from psyclone.psyir.symbols import (DataSymbol, DataTypeSymbol, ContainerSymbol, RoutineSymbol,
                                        GenericInterfaceSymbol, IntrinsicSymbol, UnsupportedType)
    if isinstance(sym, ContainerSymbol) or sym.is_import or sym.is_unresolved or isinstance(sym, IntrinsicSymbol):
        return "CSkip"
    if isinstance(sym, RoutineSymbol):
        if isinstance(sym, GenericInterfaceSymbol) or isinstance(sym.datatype, UnsupportedType):
            return "CRoutine"
        return "CSkip"
    if isinstance(sym, DataSymbol) and sym.is_constant:
        return "CConst"
    if isinstance(sym, DataSymbol) and sym.is_argument:
        return "CArg"
    if isinstance(sym, DataTypeSymbol):
        return "CType"
    return "CVar"


def _type_syms(dt, acc_refs):
    """Symbols mentioned by a datatype: precision, array bounds, derived type, components."""
    from psyclone.psyir.symbols import (ScalarType, ArrayType, DataTypeSymbol, StructureType, DataSymbol)
    from psyclone.psyir.nodes import Reference, Node
    if isinstance(dt, ArrayType):
        for dim in dt.shape:
            for b in (getattr(dim, "lower", None), getattr(dim, "upper", None)):
                if isinstance(b, Node):
                    for r in b.walk(Reference):
                        acc_refs.append(r.symbol)
        _type_syms(dt.datatype, acc_refs)
    elif isinstance(dt, ScalarType):
        if isinstance(dt.precision, DataSymbol):
            acc_refs.append(dt.precision)
    elif isinstance(dt, DataTypeSymbol):
        acc_refs.append(dt)
    elif isinstance(dt, StructureType):
        for comp in dt.components.values():
            _type_syms(comp.datatype, acc_refs)


def lenient_refs(sym):
    """Symbols whose use gfortran tolerates before their declaration: dummy arguments used (by
    value) in an array bound of a variable / argument declaration."""
    from psyclone.psyir.symbols import ArrayType, DataSymbol
    from psyclone.psyir.nodes import Reference, Node, IntrinsicCall
    out = []
    dt = getattr(sym, "datatype", None)
    if isinstance(sym, DataSymbol) and isinstance(dt, ArrayType) and not sym.is_constant:
        for dim in dt.shape:
            for b in (getattr(dim, "lower", None), getattr(dim, "upper", None)):
                if isinstance(b, Node):
                    for r in b.walk(Reference):
                        inq = isinstance(r.parent, IntrinsicCall) and r.parent.intrinsic.is_inquiry
                        if isinstance(r.symbol, DataSymbol) and r.symbol.is_argument and not inq:
                            out.append(r.symbol)
    return out


def sym_deps_refs(sym):
    """(deps, refs) as symbol objects: deps = what _gen_parameter_decls is documented to treat as the
    inputs of a constant (symbols read by the initial value -- not the first argument of an inquiry
    intrinsic --, precision symbols of literals, own precision); refs = every symbol mentioned."""
    from psyclone.psyir.symbols import DataSymbol, DataTypeSymbol
    from psyclone.psyir.nodes import Reference, Literal, IntrinsicCall
    deps, refs = [], []
    init = getattr(sym, "initial_value", None)
    if init is not None:
        for r in init.walk(Reference):
            refs.append(r.symbol)
            p = r.parent
            inquired = isinstance(p, IntrinsicCall) and p.intrinsic.is_inquiry and p.arguments and p.arguments[0] is r
            if not inquired:
                deps.append(r.symbol)
        for lit in init.walk(Literal):
            if isinstance(lit.datatype.precision, DataSymbol):
                deps.append(lit.datatype.precision)
                refs.append(lit.datatype.precision)
    dt = sym.datatype if isinstance(sym, (DataSymbol, DataTypeSymbol)) else None
    if dt is not None:
        prec = getattr(dt, "precision", None)
        if isinstance(prec, DataSymbol):
            deps.append(prec)
        _type_syms(dt, refs)
    return deps, refs


def coq_sym(sym, ident, idof, name=None, lenient=False):
    deps, refs = sym_deps_refs(sym)
    if lenient:
        tol = {id(x) for x in lenient_refs(sym)}
        refs = [x for x in refs if id(x) not in tol]
    d = sorted({idof[id(x)] for x in deps if id(x) in idof})
    r = sorted({idof[id(x)] for x in refs if id(x) in idof})
    return "mkSym %d %s %s %s %s" % (ident, core.coq_str(name or sym.name), sym_cat(sym),
                                     core.coq_list(str(x) for x in d), core.coq_list(str(x) for x in r))


def coq_table(symbols, idof=None, lenient=False):
    """Coq term for a list of real symbols (ids = position unless idof is given)."""
    if idof is None:
        idof = {id(s): i for i, s in enumerate(symbols)}
    return core.coq_list(coq_sym(s, idof[id(s)], idof, lenient=lenient) for s in symbols)


DECL_RE = re.compile(r"^\s*(?:interface\s+(\w+)|type(?:\s*,\s*(?:public|private))?\s*::\s*(\w+)|.*?::\s*(\w+))", re.I)


def declared_names(text):
    """Names declared by a block of declaration lines, in order (skips the bodies of derived types
    and interface blocks, access statements and use statements)."""
    out, skip = [], None
    for ln in text.split("\n"):
        s = ln.strip()
        low = s.lower()
        if not s or s.startswith("!"):
            continue
        if skip:
            if low.startswith(skip):
                skip = None
            continue
        if low.startswith(("use ", "implicit ", "public", "private", "contains")):
            continue
        m = DECL_RE.match(s)
        if not m:
            continue
        if m.group(1):
            out.append(m.group(1))
            skip = "end interface"
        elif m.group(2):
            out.append(m.group(2))
            skip = "end type"
        elif m.group(3):
            out.append(m.group(3))
    return out


# ---------------------------------------------------------------------------- nested scopes
def gen_nested(rng):
    """Container 'gm' with module variables + Routine 'sub' with inner scopes whose symbols clash.
    Returns (container, routine)."""
    from psyclone.psyir.symbols import (DataSymbol, INTEGER_TYPE, REAL_TYPE, ArrayType, Symbol,
                                        ArgumentInterface, RoutineSymbol, SymbolTable)
    from psyclone.psyir.nodes import (Container, Routine, Loop, Assignment, Reference, Literal,
                                      BinaryOperation, IfBlock, ArrayReference)
    pool = ["i", "j", "tmp", "n", "i_1", "tmp_1", "I", "Tmp", "k", "n_1", "i_2"]
    cont = Container("gm")
    for nm in rng.sample(pool, rng.randint(0, 3)):
        if nm.lower() not in cont.symbol_table:
            cont.symbol_table.add(DataSymbol(nm, INTEGER_TYPE, visibility=Symbol.Visibility.PUBLIC))
    rout = Routine.create("sub", SymbolTable(), [])
    cont.addchild(rout)
    cont.symbol_table.add(RoutineSymbol("sub"))
    rt = rout.symbol_table
    arr = DataSymbol("a", ArrayType(REAL_TYPE, [10]), interface=ArgumentInterface(ArgumentInterface.Access.READWRITE))
    rt.add(arr)
    rt.specify_argument_list([arr])
    taken = {"a", "sub"}

    def new_syms(table, low_taken, k):
        res = []
        for nm in rng.sample(pool, k):
            if nm.lower() in low_taken:
                continue
            low_taken.add(nm.lower())
            if rng.random() < 0.2:
                s = DataSymbol(nm, INTEGER_TYPE, is_constant=True, initial_value=Literal(str(rng.randint(1, 9)), INTEGER_TYPE))
            else:
                s = DataSymbol(nm, INTEGER_TYPE)
            table.add(s)
            res.append(s)
        return res

    rsyms = new_syms(rt, set(taken), rng.randint(1, 4))
    ivar = next((s for s in rsyms if not s.is_constant), None)
    if ivar is None:
        ivar = DataSymbol("ii", INTEGER_TYPE)
        rt.add(ivar)
        rsyms.append(ivar)

    def body_stmts(vis):
        out = []
        lhs = [s for s in vis if not s.is_constant and s is not ivar] or [s for s in vis if not s.is_constant]
        for _ in range(rng.randint(1, 2)):
            tgt = rng.choice(lhs)
            src = rng.choice(vis)
            out.append(Assignment.create(Reference(tgt), BinaryOperation.create(
                BinaryOperation.Operator.ADD, Reference(src), Literal(str(rng.randint(1, 5)), INTEGER_TYPE))))
        return out

    def make_scope(depth, vis):
        """A Loop (or IfBlock) whose body schedule owns new symbols."""
        if depth == 1 and rng.random() < 0.7:      # nested scopes below a loop are IF bodies (one loop variable)
            node = Loop.create(ivar, Literal("1", INTEGER_TYPE), Literal("10", INTEGER_TYPE),
                               Literal("1", INTEGER_TYPE), [])
            sched = node.loop_body
        else:
            node = IfBlock.create(BinaryOperation.create(BinaryOperation.Operator.GT, Reference(ivar),
                                                         Literal("0", INTEGER_TYPE)), [])
            sched = node.if_body
        inner = new_syms(sched.symbol_table, set(), rng.randint(1, 3))
        vis2 = vis + inner
        kids = body_stmts(vis2)
        if depth < 2 and rng.random() < 0.5:
            kids.insert(rng.randint(0, len(kids)), make_scope(depth + 1, vis2))
        for k in kids:
            sched.addchild(k)
        return node

    for st in body_stmts(rsyms):
        rout.addchild(st)
    for _ in range(rng.randint(1, 3)):
        rout.addchild(make_scope(1, rsyms))
    return cont, rout


def nested_case(cont, rout):
    """Coq encoding ((outer, routine, inners)) of the scopes of a routine, as routine_node sees them."""
    from psyclone.psyir.nodes import Schedule
    from psyclone.psyir.symbols import RoutineSymbol
    scheds = rout.walk(Schedule)
    allsyms = []
    tables = []
    for sc in scheds:
        tab = sc.symbol_table
        try:
            own = tab.lookup_with_tag("own_routine_symbol")
        except KeyError:
            own = None
        syms = [s for s in tab.symbols if not (s is own and isinstance(s, RoutineSymbol))]
        tables.append(syms)
        allsyms += syms
    idof = {id(s): i for i, s in enumerate(allsyms)}
    outer = []
    node = rout.parent
    while node is not None:
        if hasattr(node, "symbol_table"):
            outer += [s.name.lower() for s in node.symbol_table.symbols]
        node = node.parent
    enc = [coq_table(t, idof) for t in tables]
    return "(%s, %s, %s)" % (core.coq_list(core.coq_str(x) for x in outer), enc[0], core.coq_list(enc[1:]))


def routine_decl_block(text, name):
    """The lines between 'subroutine <name>(' and the first blank line (declarations)."""
    lines = text.split("\n")
    for i, ln in enumerate(lines):
        if re.match(r"\s*subroutine\s+%s\b" % re.escape(name), ln, re.I):
            j = i + 1
            blk = []
            while j < len(lines) and lines[j].strip():
                blk.append(lines[j])
                j += 1
            return "\n".join(blk)
    return ""


# ------------------------------------------------------------------------------ source texts
def gen_source(rng, idx):
    """A Fortran module exercising declarations of every kind plus comments/directives/code blocks.
    Returns (text, features)."""
    feats = set()
    L = []
    mod = "gs%d" % idx
    L.append("module %s" % mod)
    imported = []
    if rng.random() < 0.6:
        only = rng.sample(["zeta_k", "alpha_k", "mid_k", "Beta_k"], rng.randint(1, 3))
        imported = only
        L.append("  use kinds_mod, only : %s" % ", ".join(only))
        feats.add("use-only")
    ext_procs = []
    if rng.random() < 0.7:
        ext_procs = rng.sample(["ext_a", "ext_b", "ext_c", "ext_d"], rng.randint(1, 4))
        L.append("  use backend_mod, only : %s" % ", ".join(ext_procs))
        feats.add("use-procedures")
    if rng.random() < 0.3:
        L.append("  use other_mod")
        feats.add("use-wildcard")
    L.append("  implicit none")
    private = rng.random() < 0.5
    if private:
        L.append("  private")
    routines = ["s_one", "s_two"][:rng.randint(1, 2)]
    pub = []
    if private:
        pub = routines[:]
        if imported and rng.random() < 0.7:
            pub += imported
            feats.add("access-imported")
        if rng.random() < 0.5:
            rng.shuffle(pub)
        L.append("  public :: %s" % ", ".join(pub))
        feats.add("access-stmt")
    L.append("  ! module level comment")
    # kinds and parameters, valid (first-mention) order
    L.append("  integer, parameter :: wp = kind(1.0d0)")
    L.append("  integer, parameter :: n = %d" % rng.randint(2, 6))
    if rng.random() < 0.7:
        L.append("  integer, parameter :: m = n * 2 + 1")
    L.append("  real(kind=wp), parameter :: pi = 3.14_wp")
    if rng.random() < 0.4:
        L.append("  integer, parameter :: tab(n) = 1")
        feats.add("array-parameter")
    if rng.random() < 0.5:
        L.append("  type :: pt")
        L.append("    integer :: f")
        L.append("    real :: g")
        L.append("  end type pt")
        feats.add("derived-type")
        if rng.random() < 0.6:
            L.append("  type(pt) :: origin")
    L.append("  real(kind=wp), dimension(n) :: modarr")
    L.append("  integer :: modvar")
    if rng.random() < 0.4:
        L.append("  integer :: aa, bb")
        if rng.random() < 0.7:
            L.append("  integer, parameter :: kb = kind(bb)")
            feats.add("const-inquires-variable")
    extra_local = ["p_a", "p_b", "p_c"][:rng.randint(0, 3)]
    local_procs = routines + extra_local
    for gname in ["gen", "gen2"][:rng.choice([0, 1, 1, 2])]:
        # generic interface: 0-3 plain PROCEDURE statements and 0-3 MODULE PROCEDURE statements in
        # any order; plain ones may name imported or local procedures, module ones local procedures
        avail_plain = ext_procs + local_procs
        rng.shuffle(avail_plain)
        avail_mod = local_procs[:]
        rng.shuffle(avail_mod)
        stmts, used = [], set()
        for kind in rng.sample(["plain"] * 3 + ["module"] * 3, rng.randint(1, 5)):
            pool = [x for x in (avail_plain if kind == "plain" else avail_mod) if x not in used]
            if not pool:
                continue
            names = pool[:rng.randint(1, min(2, len(pool)))]
            used.update(names)
            sep = " :: " if rng.random() < 0.5 else " "
            stmts.append("    %s%s%s" % ("procedure" if kind == "plain" else "module procedure", sep, ", ".join(names)))
            feats.add("iface-" + kind)
        if not stmts:
            continue
        kinds = [st.strip().split()[0] for st in stmts]
        if "procedure" in kinds and "module" in kinds and kinds.index("procedure") < kinds.index("module"):
            feats.add("iface-plain-before-module")
        L.append("  interface %s" % gname)
        L += stmts
        L.append("  end interface %s" % gname if rng.random() < 0.7 else "  end interface")
        feats.add("interface")
    if rng.random() < 0.2:
        L += ["  interface operator(.myop.)", "    module procedure f_op", "  end interface"]
        feats.add("iface-operator")
        extra_local = extra_local + ["f_op"]
    if rng.random() < 0.2:
        L += ["  interface assignment(=)", "    module procedure p_asg", "  end interface"]
        feats.add("iface-assignment")
        extra_local = extra_local + ["p_asg"]
    if rng.random() < 0.25:
        L += ["  abstract interface", "    subroutine abs_if(x)", "      real, intent(inout) :: x", "    end subroutine abs_if",
              "  end interface"]
        feats.add("iface-abstract")
    if rng.random() < 0.25:
        L += ["  interface", "    subroutine ext_body(x, n)", "      integer, intent(in) :: n", "      real, intent(inout) :: x(n)",
              "    end subroutine ext_body", "  end interface"]
        feats.add("iface-body")
    L.append("contains")
    for r in routines:
        L.append("  subroutine %s(a, k)" % r)
        L.append("    ! declarations")
        L.append("    integer, intent(in) :: k")
        L.append("    real(kind=wp), intent(inout) :: a(k)")
        L.append("    integer :: i, j")
        L.append("    real(kind=wp) :: t")
        L.append("    t = 0.0_wp")
        body = []
        for _ in range(rng.randint(1, 4)):
            c = rng.random()
            if c < 0.3:
                if rng.random() < 0.5:
                    body.append("    !$omp parallel do")
                    feats.add("src-directive")
                body += ["    do i = 1, k", "      ! inside loop", "      a(i) = a(i) + pi * modarr(1)", "    end do"]
            elif c < 0.5:
                body += ["    if (k > m_or(n)) then".replace("m_or(n)", "n"), "      t = t + 1.0_wp  ! trailing", "    else", "      t = t - 1.0_wp", "    end if"]
            elif c < 0.7:
                body.append(rng.choice(["    write(*,*) t, a(1)", "    print *, t", "    read(*,*) j",
                                        "    open(unit=10, file='x')"]))
                feats.add("codeblock")
            elif c < 0.85:
                body += ["    ! a comment", "    j = modvar + n"]
                feats.add("src-comment")
            else:
                body.append("    call s_extern(a, j)")
        L += body
        L.append("  end subroutine %s" % r)
    bodies = {"p_a": ["  subroutine p_a(x)", "    real, intent(inout) :: x", "    x = 1.0", "  end subroutine p_a"],
              "p_b": ["  subroutine p_b(x, y)", "    real, intent(inout) :: x, y", "    x = y", "  end subroutine p_b"],
              "p_c": ["  subroutine p_c(i)", "    integer, intent(inout) :: i", "    i = 1", "  end subroutine p_c"],
              "f_op": ["  function f_op(a, b) result(r)", "    real, intent(in) :: a, b", "    real :: r", "    r = a + b",
                       "  end function f_op"],
              "p_asg": ["  subroutine p_asg(a, b)", "    real, intent(out) :: a", "    integer, intent(in) :: b", "    a = b",
                        "  end subroutine p_asg"]}
    for nm in extra_local:
        L += bodies[nm]
    L.append("end module %s" % mod)
    return "\n".join(L) + "\n", sorted(feats)
