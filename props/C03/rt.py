"""C03 round-trip library: w1 = W(R(src)); w2 = W(R(w1)); items(p) = multiset of statements /
comments / directives / code blocks of a PSyIR tree.  Used by props/C03/check.py (in-process for
generated programs, in worker processes with a per-file alarm for the file corpus)."""
import collections
import re
import signal
import sys


class Timeout(Exception):
    pass


def _alarm(_s, _f):
    raise Timeout()


_READER = None


def reader():
    global _READER
    from psyclone.psyir.frontend.fortran import FortranReader
    if _READER is None:
        _READER = FortranReader()
    return _READER


def read_text(text):
    return reader().psyir_from_source(text)


def read_file(path):
    return reader().psyir_from_file(str(path))


def write(psyir):
    from psyclone.psyir.backend.fortran import FortranWriter
    return FortranWriter()(psyir)


def items(psyir):
    """Multiset of the things the property says are neither lost nor duplicated: statements (by
    class), code blocks (by their text), comments (text), directives (text of the begin string),
    plus declarations (symbol names of every scope are compared separately by decl_items)."""
    from psyclone.psyir.nodes import (Statement, CodeBlock, Directive, Routine, Container)
    from psyclone.psyir.nodes.commentable_mixin import CommentableMixin
    c = collections.Counter()
    for n in psyir.walk((Statement, CodeBlock, Routine, Container)):
        if isinstance(n, CodeBlock):
            c["CodeBlock:" + "|".join(re.sub(r"\s+", " ", str(a)).strip().lower() for a in n.get_ast_nodes)] += 1
        elif isinstance(n, Directive):
            try:
                txt = n.begin_string()
            except Exception:      # pylint: disable=broad-except
                txt = type(n).__name__
            c["Directive:" + txt] += 1
        elif isinstance(n, (Routine, Container)):
            c["%s:%s" % (type(n).__name__, n.name.lower())] += 1
        else:
            c["Stmt:" + type(n).__name__] += 1
        if isinstance(n, CommentableMixin):
            if n.preceding_comment:
                c["Comment:" + n.preceding_comment] += 1
            if n.inline_comment:
                c["Inline:" + n.inline_comment] += 1
    return c


def decl_items(psyir):
    """Multiset of (kind-of-scope-unit name, symbol name) over all symbol tables, flattened per
    routine/container (inner scopes are merged by the writer, so names are counted per unit)."""
    from psyclone.psyir.nodes import Routine, Container, ScopingNode
    c = collections.Counter()
    for sc in psyir.walk(ScopingNode):
        unit = sc if isinstance(sc, (Routine, Container)) else sc.ancestor((Routine, Container))
        uname = unit.name.lower() if unit is not None and hasattr(unit, "name") else ""
        for s in sc.symbol_table.symbols:
            c["%s/%s" % (uname, type(s).__name__)] += 1
    return c


def counter_diff(a, b):
    """items lost (in a, not in b) and duplicated/added (in b, not in a)."""
    lost = a - b
    added = b - a
    return dict(lost), dict(added)


def first_diff(w1, w2):
    l1, l2 = w1.split("\n"), w2.split("\n")
    for i, (x, y) in enumerate(zip(l1, l2)):
        if x != y:
            return i, x, y
    if len(l1) != len(l2):
        i = min(len(l1), len(l2))
        return i, (l1[i] if i < len(l1) else "<eof>"), (l2[i] if i < len(l2) else "<eof>")
    return None


def exc_code(e):
    msg = re.sub(r"'[^']*'", "'_'", str(e).split("\n")[0])
    msg = re.sub(r"\d+", "N", msg)
    return "%s:%s" % (type(e).__name__, msg[:70])


def roundtrip(src=None, path=None, limit=None):
    """Returns a dict: status in {refused, write1-error, reread-error, write2-error, unstable,
    items-changed, stable, timeout}, plus w1/w2/first diff/items diff as applicable."""
    res = {"status": None}
    if limit:
        signal.signal(signal.SIGALRM, _alarm)
        signal.alarm(limit)
    try:
        try:
            p1 = read_file(path) if path is not None else read_text(src)
        except Timeout:
            raise
        except BaseException as e:      # pylint: disable=broad-except
            if isinstance(e, KeyboardInterrupt):
                raise
            res.update(status="refused", error=exc_code(e))
            return res
        try:
            w1 = write(p1)
        except Timeout:
            raise
        except Exception as e:      # pylint: disable=broad-except
            # the writer refuses what the reader accepted: outside the property's antecedent
            # ("writing the PSyIR" must succeed first); counted, not a failure of stability.
            res.update(status="write1-error", error=exc_code(e))
            return res
        res["w1"] = w1
        it1, d1 = items(p1), decl_items(p1)
        try:
            p2 = read_text(w1)
        except Timeout:
            raise
        except BaseException as e:      # pylint: disable=broad-except
            if isinstance(e, KeyboardInterrupt):
                raise
            res.update(status="reread-error", error=exc_code(e))
            return res
        try:
            w2 = write(p2)
        except Timeout:
            raise
        except Exception as e:      # pylint: disable=broad-except
            res.update(status="write2-error", error=exc_code(e))
            return res
        res["w2"] = w2
        it2, d2 = items(p2), decl_items(p2)
        lost, added = counter_diff(it1, it2)
        dlost, dadded = counter_diff(d1, d2)
        res["n_items"] = sum(it1.values())
        res["kinds"] = sorted({k.split(":")[0] for k in it1})
        if w1 != w2:
            res.update(status="unstable", diff=first_diff(w1, w2), lost=lost, added=added,
                       dlost=dlost, dadded=dadded)
        elif lost or added:
            res.update(status="items-changed", lost=lost, added=added)
        else:
            res["status"] = "stable"
            if dlost or dadded:
                res.update(dlost=dlost, dadded=dadded)
        return res
    except Timeout:
        res["status"] = "timeout"
        return res
    finally:
        if limit:
            signal.alarm(0)


def corpus_files(repo):
    import pathlib
    repo = pathlib.Path(repo)
    out = []
    for base in (repo / "src/psyclone/tests/test_files", repo / "examples"):
        for p in sorted(base.rglob("*")):
            if p.is_file() and p.suffix in (".f90", ".F90"):
                out.append(p)
    return out


def worker_main(argv):
    """python rt.py <limit> <out.json> <file>...  : run the round trip on each file; JSON list."""
    import json
    limit = int(argv[0])
    outp = argv[1]
    out = []
    for f in argv[2:]:
        try:
            r = roundtrip(path=f, limit=limit)
        except Exception as e:      # pylint: disable=broad-except
            r = {"status": "harness-error", "error": exc_code(e)}
        r["file"] = f
        if r["status"] == "stable":
            r.pop("w1", None)
            r.pop("w2", None)
        out.append(r)
    with open(outp, "w") as fh:
        json.dump(out, fh)


if __name__ == "__main__":
    worker_main(sys.argv[1:])
