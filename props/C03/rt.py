"""C03 round-trip library: w1 = W(R(src)); w2 = W(R(w1)); items(p) = multiset of statements /
comments / directives / code blocks of a PSyIR tree.  Used by props/C03/check.py (in-process for
generated programs, in worker processes with a per-file alarm for the file corpus)."""
import collections
import re
import signal
import sys


class Timeout(BaseException):
    """Per-file time limit.  A BaseException so that `except Exception` clauses inside fparser /
    PSyclone cannot swallow it; [_FIRED] additionally records that the alarm went off, in case a
    bare `except:` did swallow it (the result is then discarded as a timeout, never classified)."""


_FIRED = [False]


def _alarm(_s, _f):
    _FIRED[0] = True
    raise Timeout()


_READER = None


def reader():
    global _READER
    from psyclone.psyir.frontend.fortran import FortranReader
    if _READER is None:
        _READER = FortranReader()
    return _READER


def read_text(text):
    return reader().psyir_from_source(text)


def read_file(path):
    return reader().psyir_from_file(str(path))


def write(psyir):
    from psyclone.psyir.backend.fortran import FortranWriter
    return FortranWriter()(psyir)


def items(psyir):
    """Multiset of the things the property says are neither lost nor duplicated: statements (nodes
    in statement position, by class), code blocks (by their text), comments (text), directives
    (begin string), routines and containers (by name)."""
    from psyclone.psyir.nodes import (Statement, CodeBlock, Directive, Routine, Container, Schedule,
                                      FileContainer)
    from psyclone.psyir.nodes.commentable_mixin import CommentableMixin
    c = collections.Counter()
    for n in psyir.walk((Statement, CodeBlock, Routine, Container)):
        if isinstance(n, FileContainer):
            continue
        if isinstance(n, (Routine, Container)):
            c["%s:%s" % (type(n).__name__, n.name.lower())] += 1
        elif not isinstance(n.parent, (Schedule, Container)):
            continue            # expression-level node (e.g. an IntrinsicCall inside an expression)
        elif isinstance(n, CodeBlock):
            c["CodeBlock:" + "|".join(re.sub(r"\s+", " ", str(a)).strip().lower() for a in n.get_ast_nodes)] += 1
        elif isinstance(n, Directive):
            try:
                txt = n.begin_string()
            except Exception:      # pylint: disable=broad-except
                txt = type(n).__name__
            c["Directive:" + txt] += 1
        else:
            c["Stmt:" + type(n).__name__] += 1
        if isinstance(n, CommentableMixin):
            if n.preceding_comment:
                c["Comment:" + n.preceding_comment] += 1
            if n.inline_comment:
                c["Inline:" + n.inline_comment] += 1
    # generic interfaces: every specific procedure with its kind (module procedure / procedure)
    from psyclone.psyir.nodes import ScopingNode
    from psyclone.psyir.symbols import GenericInterfaceSymbol
    for sc in psyir.walk(ScopingNode):
        for sym in sc.symbol_table.symbols:
            if isinstance(sym, GenericInterfaceSymbol):
                for info in sym.routines:
                    c["InterfaceProc:%s:%s:%s" % (sym.name.lower(), "module" if info.from_container else "plain",
                                                  info.symbol.name.lower())] += 1
    return c


def decl_items(psyir):
    """Multiset of (kind-of-scope-unit name, symbol name) over all symbol tables, flattened per
    routine/container (inner scopes are merged by the writer, so names are counted per unit)."""
    from psyclone.psyir.nodes import Routine, Container, ScopingNode
    c = collections.Counter()
    for sc in psyir.walk(ScopingNode):
        unit = sc if isinstance(sc, (Routine, Container)) else sc.ancestor((Routine, Container))
        uname = unit.name.lower() if unit is not None and hasattr(unit, "name") else ""
        for s in sc.symbol_table.symbols:
            c["%s/%s" % (uname, type(s).__name__)] += 1
    return c


def counter_diff(a, b):
    """items lost (in a, not in b) and duplicated/added (in b, not in a)."""
    lost = a - b
    added = b - a
    return dict(lost), dict(added)


def first_diff(w1, w2):
    l1, l2 = w1.split("\n"), w2.split("\n")
    for i, (x, y) in enumerate(zip(l1, l2)):
        if x != y:
            return i, x, y
    if len(l1) != len(l2):
        i = min(len(l1), len(l2))
        return i, (l1[i] if i < len(l1) else "<eof>"), (l2[i] if i < len(l2) else "<eof>")
    return None


def exc_code(e):
    msg = re.sub(r"'[^']*'", "'_'", str(e).split("\n")[0])
    msg = re.sub(r"\d+", "N", msg)
    return "%s:%s" % (type(e).__name__, msg[:70])


def roundtrip(src=None, path=None, limit=None, tree=None, fold_case=False):
    """Returns a dict: status in {refused, write1-error, reread-error, write2-error, unstable,
    items-changed, stable, timeout}, plus w1/w2/first diff/items diff as applicable."""
    res = {"status": None}
    _FIRED[0] = False
    if limit:
        signal.signal(signal.SIGALRM, _alarm)
        signal.alarm(limit)
    try:
        return _roundtrip(res, src, path, tree, fold_case)
    except Timeout:
        return {"status": "timeout"}
    finally:
        if limit:
            signal.alarm(0)
        if _FIRED[0]:
            # whatever was computed after the alarm fired is not trustworthy
            res.clear()
            res["status"] = "timeout"


def _roundtrip(res, src, path, tree, fold_case):
    try:
        try:
            p1 = tree if tree is not None else (read_file(path) if path is not None else read_text(src))
        except Timeout:
            raise
        except BaseException as e:      # pylint: disable=broad-except
            if isinstance(e, KeyboardInterrupt):
                raise
            res.update(status="refused", error=exc_code(e))
            return res
        try:
            w1 = write(p1)
        except Timeout:
            raise
        except Exception as e:      # pylint: disable=broad-except
            # the writer refuses what the reader accepted: outside the property's antecedent
            # ("writing the PSyIR" must succeed first); counted, not a failure of stability.
            res.update(status="write1-error", error=exc_code(e))
            return res
        res["w1"] = w1
        it1, d1 = items(p1), decl_items(p1)
        try:
            p2 = read_text(w1)
        except Timeout:
            raise
        except BaseException as e:      # pylint: disable=broad-except
            if isinstance(e, KeyboardInterrupt):
                raise
            res.update(status="reread-error", error=exc_code(e))
            return res
        try:
            w2 = write(p2)
        except Timeout:
            raise
        except Exception as e:      # pylint: disable=broad-except
            res.update(status="write2-error", error=exc_code(e))
            return res
        res["w2"] = w2
        it2, d2 = items(p2), decl_items(p2)
        if fold_case:
            # API-built trees may hold mixed-case names, which the reader lower-cases (Fortran is
            # case-insensitive): compare up to case
            w1, w2 = w1.lower(), w2.lower()
            it1 = collections.Counter({k.lower(): n for k, n in it1.items()})
            it2 = collections.Counter({k.lower(): n for k, n in it2.items()})
        lost, added = counter_diff(it1, it2)
        dlost, dadded = counter_diff(d1, d2)
        res["n_items"] = sum(it1.values())
        res["kinds"] = sorted({k.split(":")[0] for k in it1})
        if w1 != w2:
            res.update(status="unstable", diff=first_diff(w1, w2), lost=lost, added=added,
                       dlost=dlost, dadded=dadded, reason=classify(w1, w2))
        elif lost or added:
            res.update(status="items-changed", lost=lost, added=added)
        else:
            res["status"] = "stable"
            if dlost or dadded:
                res.update(dlost=dlost, dadded=dadded)
        return res
    finally:
        pass


ACCESS_RE = re.compile(r"^(public|private)\s*::\s*(.*)$")
DECL_NAME_RE = re.compile(r"::\s*([A-Za-z_]\w*)")
IDENT_RE = re.compile(r"[A-Za-z_]\w*")


def classify(w1, w2):
    """Reason code of an instability w1 != w2 (site/reason).  Computed from the two texts only."""
    l1 = [x.strip() for x in w1.split("\n")]
    l2 = [x.strip() for x in w2.split("\n")]
    c1, c2 = collections.Counter(l1), collections.Counter(l2)
    only1, only2 = list((c1 - c2).elements()), list((c2 - c1).elements())
    if not only1 and not only2:
        # pure re-ordering of lines
        moved = [a for a, b in zip(l1, l2) if a != b]
        if all("::" in m for m in moved):
            # is there, in w1, a parameter declaration that mentions a name declared on a later line?
            declared_at = {}
            for i, ln in enumerate(l1):
                m = DECL_NAME_RE.search(ln)
                if m and not ACCESS_RE.match(ln):
                    declared_at.setdefault(m.group(1).lower(), i)
            for i, ln in enumerate(l1):
                if "::" in ln and re.search(r"\bparameter\b", ln.split("::")[0], re.I):
                    rhs = ln.split("::", 1)[1]
                    own = DECL_NAME_RE.search(ln).group(1).lower()
                    for tok in IDENT_RE.findall(rhs):
                        t = tok.lower()
                        if t != own and declared_at.get(t, -1) > i:
                            return "gen_decls/constant-mentions-later-variable"
            return "gen_decls/declarations-reordered"
        return "writer/lines-reordered"
    a1 = [ACCESS_RE.match(x) for x in only1]
    a2 = [ACCESS_RE.match(x) for x in only2]
    if only1 and only2 and all(a1) and all(a2):
        def names(ms):
            return sorted((m.group(1), tuple(sorted(n.strip().lower() for n in m.group(2).split(",")))) for m in ms)
        if names(a1) == names(a2):
            return "gen_access_stmts/name-order-follows-table-order"
        return "gen_access_stmts/names-changed"
    if only1 and only2 and all(re.match(r"(module\s+)?procedure\b", x, re.I) for x in only1 + only2):
        return "interface/procedure-statements-changed"
    if only1 and not only2 and all(x.startswith("!") for x in only1):
        if any(x.lower().startswith("!$") for x in only1):
            return "FortranReader/directive-lines-dropped"
        return "FortranReader/comment-lines-dropped"
    if only2 and not only1 and all(x.startswith("!") for x in only2):
        return "writer/comment-lines-duplicated"
    kinds = set()
    for x in only1 + only2:
        kinds.add("comment" if x.startswith("!") else "decl" if "::" in x else "use" if x.lower().startswith("use ") else "stmt")
    return "other/" + "+".join(sorted(kinds))


def corpus_files(repo):
    import pathlib
    repo = pathlib.Path(repo)
    out = []
    for base in (repo / "src/psyclone/tests/test_files", repo / "examples"):
        for p in sorted(base.rglob("*")):
            if p.is_file() and p.suffix in (".f90", ".F90"):
                out.append(p)
    return out


def worker_main(argv):
    """python rt.py <limit> <out.json> <file>...  : run the round trip on each file; JSON list."""
    import json
    limit = int(argv[0])
    outp = argv[1]
    out = []
    for f in argv[2:]:
        try:
            r = roundtrip(path=f, limit=limit)
        except Exception as e:      # pylint: disable=broad-except
            r = {"status": "harness-error", "error": exc_code(e)}
        r["file"] = f
        r.pop("w1", None)
        r.pop("w2", None)
        out.append(r)
    with open(outp, "w") as fh:
        json.dump(out, fh)


if __name__ == "__main__":
    worker_main(sys.argv[1:])
