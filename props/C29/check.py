"""C29 -- Transformed-kernel output never clobbers other kernels.

Anchor: CodedKern.rename_and_write / _rename_psyir / _new_name (src/psyclone/psyGen.py).
Model:  coq/C29/Model.v (protocol as a step function over any number of runs, any schedule),
        coq/C29/NamesModel.v (the strings).  Theorems: coq/Properties/C29.v.

Tie = correspondence on REAL interleavings, without any change to /repo: 2-3 real "runs" (threads
that execute the real rename_and_write -- or the whole psy.gen -- on real transformed kernels,
all writing into one scratch output directory) are paused at the protocol's atomic points by
wrapping, in the harness process only, the names `os` and `open` seen by psyclone.psyGen and the
method CodedKern._rename_psyir.  The harness grants one atomic action at a time according to a
schedule, snapshots the directory and the state of every run after every step, and
  (1) lets Coq replay the same schedule on the model and compare after every step
      (ctx.coq_eval_failing over C29.Model.check_case), and
  (2) evaluates the property itself on the snapshots (the failing-input search).
Schedules: exhaustive at every atomic point for 2 runs, exhaustive at the file-system-visible
points (open / write / read-back; the local actions rename and close fused to their predecessor)
for 3 runs in the thorough tier, seeded samples at every atomic point for 3 runs."""
import builtins
import contextlib
import hashlib
import io
import json
import os
import re
import shutil
import threading
import time

from vlib import core

TESTS = core.REPO / "src" / "psyclone" / "tests" / "test_files"
K_TOCTOU = "rename_and_write/single-read-before-write"
K_CASE = "rename_and_write/module-suffix-case"

# --------------------------------------------------------------------------- kernel variants
# name -> (api, algorithm file, index of the kernel in invoke 0, transformation)
VARIANTS = {
    "tk_acc": ("lfric", "1_single_invoke.f90", 0, "acc"),
    "tk_const": ("lfric", "1_single_invoke.f90", 0, "const"),
    "tk_plain": ("lfric", "1_single_invoke.f90", 0, "plain"),
    "qr_acc": ("lfric", "1.1.0_single_invoke_xyoz_qr.f90", 0, "acc"),
    "cu_acc": ("gocean", "single_invoke.f90", 0, "acc"),
    "mom_plain": ("gocean", "nemolite2d_alg_mod.f90", 1, "plain"),
}
_INFO = {}
_AST = {}                 # (api, alg, kernel index) -> fparser2 tree of the kernel source
USE_AST_CACHE = [True]    # switched off by World.setup if cached and uncached kernels ever differ


def fresh(variant, cache=True):
    """A fresh PSy object whose chosen kernel has really been transformed (modified flag set by
    the transformation).  Returns (psy, kern).

    Speed only: re-parsing the kernel source with fparser2 for every new kernel object costs 10x
    everything else, so the parse tree of the (unchanged) kernel source is kept per variant and
    handed to the new CodedKern through its `_fp2_ast` slot (what CodedKern.ast itself fills and
    returns).  PSyIR and everything the protocol touches are built anew for every object.  If the
    slot disappears this silently degrades to re-parsing."""
    from psyclone.configuration import Config
    from psyclone.parse.algorithm import parse
    from psyclone.psyGen import PSyFactory
    api, alg, ki, trans = VARIANTS[variant]
    Config.get().api = api
    sub = {"lfric": "dynamo0p3", "gocean": "gocean1p0"}[api]
    if (api, alg) not in _INFO:
        _INFO[(api, alg)] = parse(str(TESTS / sub / alg), api=api)[1]
    psy = PSyFactory(api, distributed_memory=False).create(_INFO[(api, alg)])
    kern = psy.invokes.invoke_list[0].schedule.coded_kernels()[ki]
    use_cache = cache and USE_AST_CACHE[0] and hasattr(kern, "_fp2_ast")
    if use_cache and (api, alg, ki) in _AST:
        kern._fp2_ast = _AST[(api, alg, ki)]
    with contextlib.redirect_stdout(io.StringIO()):
        if trans == "acc":
            from psyclone.transformations import ACCRoutineTrans
            ACCRoutineTrans().apply(kern)
        elif trans == "const":
            from psyclone.transformations import Dynamo0p3KernelConstTrans
            Dynamo0p3KernelConstTrans().apply(kern, {"number_of_layers": 100})
        else:                     # a transformation that changes nothing but marks the kernel
            kern.get_kernel_schedule()
            kern.modified = True
    assert kern.modified
    if use_cache and getattr(kern, "_fp2_ast", None) is not None:
        _AST.setdefault((api, alg, ki), kern._fp2_ast)
    return psy, kern


# --------------------------------------------------------------------------- the engine
_tls = threading.local()
STEP_TIMEOUT = 300      # hang guards only (a deadlocked run); never a budget
HANG_GUARD = 900


class HarnessError(Exception):
    pass


class Run(threading.Thread):
    """One PSyclone run: a thread executing the real code, advanced one atomic action at a time."""

    def __init__(self, rid, variant, psy, kern, mode):
        super().__init__(daemon=True)
        self.rid, self.variant, self.psy, self.kern, self.mode = rid, variant, psy, kern, mode
        self.orig_mod, self.orig_name = kern.module_name, kern.name
        self._go = threading.Semaphore(0)
        self._arrived = threading.Semaphore(0)
        self.at = ("new",)
        self.outcome = None          # done | failed | crash
        self.error = None
        self.events = []             # what this run did, in order
        self.fds = {}                # descriptor -> path
        self.last_open = None        # (path, ok)
        self.wrote = False
        self.read_path = None
        self.psy_text = None
        self.anomalies = []

    # called from the run's own thread
    def pause(self, what):
        self.at = what
        self._arrived.release()
        self._go.acquire()

    def run(self):
        from psyclone.errors import GenerationError
        _tls.run = self
        self.pause(("start",))
        try:
            if self.mode == "gen":
                self.psy_text = str(self.psy.gen)
            else:
                self.kern.rename_and_write()
            self.outcome = "done"
        except GenerationError as err:
            self.outcome, self.error = "failed", str(err)
        except BaseException as err:      # pylint: disable=broad-except
            self.outcome, self.error = "crash", "%s: %s" % (type(err).__name__, err)
        self.at = ("end",)
        self._arrived.release()

    # called from the scheduler
    def wait(self):
        if not self._arrived.acquire(timeout=STEP_TIMEOUT):
            raise HarnessError("run %d did not reach a pause point within %ds (at %r)"
                               % (self.rid, STEP_TIMEOUT, self.at))

    def grant(self):
        self._go.release()
        self.wait()

    @property
    def finished(self):
        return self.at == ("end",)


def _cur():
    return getattr(_tls, "run", None)


class _PathProxy:
    def __init__(self, real):
        self._r = real

    def __getattr__(self, name):
        val = getattr(self._r, name)
        if name in ("exists", "isfile", "lexists", "getsize", "getmtime"):
            def wrapped(*a, **k):
                r = _cur()
                if r:
                    r.pause(("extra", "os.path." + name, str(a[0]) if a else ""))
                    r.events.append(("extra", "os.path." + name))
                return val(*a, **k)
            return wrapped
        return val


class _OsProxy:
    """Stands in for the module `os` inside psyclone.psyGen only."""
    _EXTRA = ("rename", "replace", "remove", "unlink", "link", "symlink", "fdopen", "truncate",
              "ftruncate", "listdir", "scandir", "stat", "access", "mkdir", "makedirs", "lseek",
              "pwrite", "writev", "fsync", "dup", "dup2")

    def __init__(self, real):
        self._r = real
        self.path = _PathProxy(real.path)

    def __getattr__(self, name):
        val = getattr(self._r, name)
        if name in self._EXTRA:
            def wrapped(*a, **k):
                r = _cur()
                if r:
                    r.pause(("extra", "os." + name, ""))
                    r.events.append(("extra", "os." + name))
                return val(*a, **k)
            return wrapped
        return val

    def open(self, path, flags, *a, **k):
        r = _cur()
        if r:
            r.pause(("open", str(path), flags))
        try:
            fd = self._r.open(path, flags, *a, **k)
        except OSError:
            if r:
                r.last_open = (str(path), False)
                r.events.append(("open-fail", os.path.basename(str(path))))
            raise
        if r:
            r.fds[fd] = str(path)
            r.last_open = (str(path), True)
            r.events.append(("open-ok", os.path.basename(str(path))))
        return fd

    def write(self, fd, data):
        r = _cur()
        if r:
            r.pause(("write", fd))
            r.wrote = True
            r.events.append(("write", os.path.basename(r.fds.get(fd, "?"))))
        return self._r.write(fd, data)

    def close(self, fd):
        r = _cur()
        if r:
            r.pause(("close", fd))
            r.events.append(("close", os.path.basename(r.fds.get(fd, "?"))))
        return self._r.close(fd)


def _open_proxy(path, mode="r", *a, **k):
    r = _cur()
    if r:
        if "r" in mode and "+" not in mode:
            r.pause(("read", str(path)))
            r.read_path = str(path)
            r.events.append(("read", os.path.basename(str(path))))
        else:
            r.pause(("extra", "open(%s)" % mode, str(path)))
            r.events.append(("extra", "open(%s)" % mode))
    return builtins.open(path, mode, *a, **k)


@contextlib.contextmanager
def instrumented():
    """Wrap os / open as seen by psyclone.psyGen and CodedKern._rename_psyir (harness process
    only; /repo is not touched)."""
    import psyclone.psyGen as PG
    saved_os, had_open = PG.os, "open" in PG.__dict__
    saved_open = PG.__dict__.get("open")
    saved_rename = PG.CodedKern._rename_psyir

    def rename(self, suffix):
        r = _cur()
        if r:
            r.pause(("rename", suffix))
            r.events.append(("rename", suffix))
        return saved_rename(self, suffix)
    PG.os = _OsProxy(saved_os)
    PG.open = _open_proxy
    PG.CodedKern._rename_psyir = rename
    try:
        yield
    finally:
        PG.os = saved_os
        if had_open:
            PG.open = saved_open
        else:
            del PG.open
        PG.CodedKern._rename_psyir = saved_rename


# --------------------------------------------------------------------------- canonical forms
FNAME_RE = re.compile(r"^(.*)_(\d+)_mod\.f90$")


class Canon:
    """Strings <-> the naturals of the model; file texts -> model contents."""

    def __init__(self):
        self.ids, self.bodies, self.others = {}, {}, {}

    def sid(self, s):
        return self.ids.setdefault(s, len(self.ids) + 1)

    def fname(self, name):
        m = FNAME_RE.match(name)
        if not m:
            return (self.sid("?file:" + name), 999)
        return (self.sid(m.group(1)), int(m.group(2)))

    @staticmethod
    def parse_text(text):
        """-> dict(module, routine, consistent, fingerprint) or None when the text is not a
        kernel module with exactly one <x>_<n>_code routine."""
        mods = re.findall(r"(?im)^\s*module\s+(\w+)\s*$", text)
        emods = re.findall(r"(?im)^\s*end\s*module\s+(\w+)\s*$", text)
        subs = re.findall(r"(?im)^\s*subroutine\s+(\w+)", text)
        esubs = re.findall(r"(?im)^\s*end\s*subroutine\s+(\w+)", text)
        procs = re.findall(r"(?im)^\s*procedure\s*,\s*nopass\s*::\s*code\s*=>\s*(\w+)", text)
        if len(mods) != 1 or not subs:
            return None
        kern = [s for s in subs if re.fullmatch(r"(?i).+_\d+_code", s)]
        if len(kern) != 1:
            return None
        mod, rout = mods[0], kern[0]
        consistent = (emods == mods and sorted(esubs) == sorted(subs) and
                      all(p == rout for p in procs) and len(procs) <= 1)
        body = re.sub(r"(?i)\b%s\b" % re.escape(mod), "@MOD@", text)
        body = re.sub(r"(?i)\b%s\b" % re.escape(rout), "@ROUT@", body)
        return {"module": mod, "routine": rout, "consistent": consistent, "procs": procs,
                "fingerprint": hashlib.sha1(body.encode()).hexdigest()}

    def content(self, text):
        if text == "":
            return ("E",)
        p = self.parse_text(text)
        if p and p["consistent"] and p["fingerprint"] in self.bodies:
            m = re.fullmatch(r"(.*)_(\d+)_mod", p["module"])
            r = re.fullmatch(r"(.*)_(\d+)_code", p["routine"])
            if m and r:
                return ("T", (self.sid(m.group(1)), int(m.group(2))),
                        (self.sid(r.group(1)), int(r.group(2))), self.bodies[p["fingerprint"]])
        h = hashlib.sha1(text.encode()).hexdigest()
        return ("O", self.others.setdefault(h, len(self.others) + 100))

    def fs(self, snap):
        return sorted((self.fname(n), self.content(t)) for n, t in snap.items())


def coq_content(c):
    if c[0] == "E":
        return "Empty"
    if c[0] == "O":
        return "Other %d" % c[1]
    return "mkT %d %d %d %d %d" % (c[1][0], c[1][1], c[2][0], c[2][1], c[3])


def coq_fs(fs):
    return core.coq_list("((%d, %d), %s)" % (f[0], f[1], coq_content(c)) for f, c in fs)


def coq_delta(dl):
    return core.coq_list("((%d,%d),%s)" % (f[0], f[1], "None" if c is None else "Some(%s)" % coq_content(c))
                         for f, c in dl)


def coq_pc(p):
    if p[0] == "Done":
        return "Done %d %s" % (p[1], "true" if p[2] else "false")
    return "%s %d" % (p[0], p[1])


def coq_runobs(runs):
    return core.coq_list("(%s, %s)" % (coq_pc(p), "None" if y is None else "Some %d" % y) for p, y in runs)


# --------------------------------------------------------------------------- configurations
class Cfg:
    """scheme, files present beforehand, the kernels of the runs."""

    def __init__(self, scheme, pre, runs, label=""):
        self.scheme, self.pre, self.runs, self.label = scheme, list(pre), list(runs), label

    def key(self):
        return (self.scheme, tuple(map(tuple, self.pre)), tuple(self.runs))

    def as_json(self):
        return {"scheme": self.scheme, "pre": [list(p) for p in self.pre], "runs": self.runs}

    @staticmethod
    def from_json(d):
        return Cfg(d["scheme"], [tuple(p) for p in d["pre"]], d["runs"])


class World:
    """Reference data computed once from the implementation: for every variant its original
    names and the text it writes for index 0 (used to seed directories with an 'identical kernel
    written by an earlier run' and to recognise whose body a file holds)."""

    def __init__(self, ctx):
        self.ctx = ctx
        self.canon = Canon()
        self.ref = {}
        self.n_dirs = 0

    def newdir(self):
        self.n_dirs += 1
        d = self.ctx.scratch / ("out%d_%d" % (os.getpid(), self.n_dirs))
        d.mkdir(parents=True)
        return d

    def setup(self):
        from psyclone.configuration import Config
        cfg = Config.get()
        for v in VARIANTS:
            d = self.newdir()
            cfg._kernel_output_dir, cfg._kernel_naming = str(d), "multiple"
            _, kern = fresh(v, cache=False)
            om, on = kern.module_name, kern.name
            kern.rename_and_write()
            files = sorted(os.listdir(d))
            if len(files) != 1:
                raise HarnessError("reference run of %s wrote %r" % (v, files))
            text = (d / files[0]).read_text()
            p = Canon.parse_text(text)
            if not p:
                raise HarnessError("cannot parse the reference output of %s" % v)
            base = om[:-4] if om.endswith("_mod") else om
            rout = on[:-5] if on.endswith("_code") else on
            self.ref[v] = {"mod": om, "name": on, "base": base, "rout": rout, "text0": text,
                           "file0": files[0], "fp": p["fingerprint"]}
            shutil.rmtree(d)
        # self-check of the parse-tree cache: twice per variant (fill, then reuse), same bytes
        for v in VARIANTS:
            for _ in range(2):
                d = self.newdir()
                cfg._kernel_output_dir = str(d)
                _, kern = fresh(v)
                kern.rename_and_write()
                same = [(d / f).read_text() for f in os.listdir(d)] == [self.ref[v]["text0"]]
                shutil.rmtree(d)
                if not same:
                    USE_AST_CACHE[0] = False
                    _AST.clear()
        fps = sorted({r["fp"] for r in self.ref.values()})
        if len(fps) != len(self.ref):
            raise HarnessError("two variants produce the same kernel body")
        for i, fp in enumerate(fps):
            self.canon.bodies[fp] = i + 1
        for v in sorted(self.ref):           # fix the ids (deterministic)
            self.canon.sid(self.ref[v]["base"])
            self.canon.sid(self.ref[v]["rout"])

    def kernel_term(self, v):
        r = self.ref[v]
        return "mkK %d %d %d" % (self.canon.sid(r["base"]), self.canon.sid(r["rout"]), self.canon.bodies[r["fp"]])

    def pre_text(self, kind):
        if kind == "foreign":
            return "some code\n"
        if kind == "empty":
            return ""
        if kind.startswith("kernel:"):
            return self.ref[kind.split(":", 1)[1]]["text0"]
        raise HarnessError("unknown pre-existing file kind " + kind)


# --------------------------------------------------------------------------- playing a schedule
def snapshot(d):
    return {n: (d / n).read_text() for n in sorted(os.listdir(d))}


def observe_run(world, r):
    """(pc, psy) of a run as the model names them, from where the real run is paused."""
    def idx_of(path):
        m = FNAME_RE.match(os.path.basename(path))
        ref = world.ref[r.variant]
        if not m or m.group(1) != ref["base"]:
            r.anomalies.append("unexpected file name %s" % path)
            return 997
        return int(m.group(2))
    at = r.at
    kind = at[0]
    if kind == "open":
        want = os.O_CREAT | os.O_EXCL
        if at[2] & want != want:
            r.anomalies.append("open without O_CREAT|O_EXCL (flags=%d)" % at[2])
            pc = ("Failed", 996)
        else:
            pc = ("Try", idx_of(at[1]))
    elif kind == "rename":
        if r.last_open is None:
            r.anomalies.append("rename before any open")
            pc = ("Failed", 995)
        else:
            i = idx_of(r.last_open[0])
            if at[1] != "_%d" % i:
                r.anomalies.append("rename with suffix %r after open of index %d" % (at[1], i))
                i = 994
            pc = ("Created" if r.last_open[1] else "Found", i)
    elif kind == "write":
        pc = ("ToWrite", idx_of(r.fds.get(at[1], "?")))
    elif kind == "close":
        pc = ("ToClose", idx_of(r.fds.get(at[1], "?")))
    elif kind == "read":
        pc = ("ToRead", idx_of(at[1]))
    elif kind == "end":
        i = idx_of(r.last_open[0]) if r.last_open else 993
        if r.outcome == "done":
            pc = ("Done", i, r.wrote)
        elif r.outcome == "failed":
            pc = ("Failed", i)
        else:
            r.anomalies.append("crashed: %s" % r.error)
            pc = ("Failed", 992)
    else:
        r.anomalies.append("unmodelled pause point %r" % (at,))
        pc = ("Failed", 991)
    ref = world.ref[r.variant]
    if r.kern.module_name == r.orig_mod and r.kern.name == r.orig_name:
        psy = None
    else:
        m = re.fullmatch(re.escape(ref["base"]) + r"_(\d+)_mod", r.kern.module_name)
        k = re.fullmatch(re.escape(ref["rout"]) + r"_(\d+)_code", r.kern.name)
        psy = int(m.group(1)) if (m and k and m.group(1) == k.group(1)) else 990
    return pc, psy


class Played:
    pass


def play(world, cfg, schedule, mode="rw", drain=True):
    """Run the real implementation under the schedule.  Returns a Played record with the
    snapshots (raw and canonical) after every step."""
    from psyclone.configuration import Config
    d = world.newdir()
    for base, idx, kind in cfg.pre:
        (d / ("%s_%d_mod.f90" % (base, idx))).write_text(world.pre_text(kind))
    conf = Config.get()
    runs = []
    for i, v in enumerate(cfg.runs):
        psy, kern = fresh(v)
        runs.append(Run(i, v, psy, kern, mode))
    conf._kernel_output_dir, conf._kernel_naming = str(d), cfg.scheme
    res = Played()
    res.cfg, res.mode, res.runs, res.dir = cfg, mode, runs, d
    with instrumented():
        for r in runs:
            r.start()
            r.wait()
        for r in runs:               # up to the first atomic action (the first os.open)
            r.grant()
        res.snaps = [snapshot(d)]
        res.robs = [[observe_run(world, r) for r in runs]]
        res.deltas = []
        res.sched = []
        res.touch = {}               # file -> set of runs whose step changed it
        res.read_saw = {}            # run -> text of the file when it read it back

        def one(i):
            r = runs[i]
            before = res.snaps[-1]
            if r.at[0] == "read":
                res.read_saw[i] = before.get(os.path.basename(r.at[1]))
            if not r.finished:
                r.grant()
            snap = snapshot(d)
            names = set()
            aimed = res.robs[-1][i][0][1]
            if aimed < 990:
                names.add("%s_%d_mod.f90" % (world.ref[r.variant]["base"], aimed))
            for n in set(snap) | set(before):
                if snap.get(n) != before.get(n):
                    res.touch.setdefault(n, set()).add(i)
                    names.add(n)
            res.snaps.append(snap)
            res.sched.append(i)
            res.deltas.append([(world.canon.fname(n), world.canon.content(snap[n]) if n in snap else None)
                               for n in sorted(names)])
            res.robs.append([observe_run(world, x) for x in runs])
        for i in schedule:
            one(i)
        res.n_given = len(res.sched)
        guard = 0
        while drain and any(not r.finished for r in runs):
            guard += 1
            if guard > 40 * len(runs):
                raise HarnessError("runs do not terminate: %r" % [(r.rid, r.at) for r in runs])
            for r in runs:
                if not r.finished:
                    one(r.rid)
                    break
        if not drain:                # let the threads finish (unobserved) so nothing leaks
            for r in runs:
                n = 0
                while not r.finished and n < 100:
                    r.grant()
                    n += 1
    return res


def coq_case(world, res):
    cfg = res.cfg
    pre = [((world.canon.sid(b), i), world.canon.content(world.pre_text(k))) for b, i, k in cfg.pre]
    steps = []
    for k, (a, dl) in enumerate(zip(res.sched, res.deltas)):
        before, after = res.robs[k], res.robs[k + 1]
        rd = [(i, after[i]) for i in range(len(after)) if i == a or after[i] != before[i]]
        steps.append("(%d,%s,%s)" % (a, coq_delta(dl), core.coq_list(
            "(%d,(%s,%s))" % (i, coq_pc(p), "None" if y is None else "Some %d" % y) for i, (p, y) in rd)))
    return "(%s, %s, %s, %s, %s, %s, %s)" % (
        "Multiple" if cfg.scheme == "multiple" else "Single", coq_fs(sorted(pre)),
        core.coq_list(world.kernel_term(v) for v in cfg.runs), coq_runobs(res.robs[0]),
        core.coq_list(steps), coq_runobs(res.robs[-1]), coq_fs(world.canon.fs(res.snaps[-1])))


def replay_of(res):
    return {"config": res.cfg.as_json(), "schedule": res.sched, "mode": res.mode,
            "events": {str(r.rid): r.events for r in res.runs},
            "outcomes": {str(r.rid): [r.outcome, r.error, r.kern.module_name, r.kern.name] for r in res.runs},
            "anomalies": {str(r.rid): r.anomalies for r in res.runs if r.anomalies},
            "final_directory": {n: (t[:40] + "..." if len(t) > 40 else t) for n, t in res.snaps[-1].items()},
            "how_to_replay": "cd /verif && ./check C29 --replay <this file>  (plays config+schedule on "
                             "the real rename_and_write and prints every step)"}


# --------------------------------------------------------------------------- worker processes
_WORLD = None


def _work(task):
    """Play one schedule on the real implementation (in a forked worker) and return everything the
    parent needs as plain data."""
    cfg_json, sched, gran, mode = task
    world = _WORLD
    cfg = Cfg.from_json(cfg_json)
    res = play(world, cfg, sched, mode=mode)
    shutil.rmtree(res.dir, ignore_errors=True)
    bases = [world.ref[v]["base"] for v in cfg.runs]
    return {"cfg": cfg_json, "sched": res.sched, "gran": gran, "mode": mode,
            "contend": len(set(bases)) < len(bases) or any(b in bases for b, _, _ in cfg.pre),
            "case": coq_case(world, res), "problems": evaluate(world, res), "replay": replay_of(res),
            "outcomes": "/".join(sorted(r.outcome for r in res.runs)),
            "anomalies": [a for r in res.runs for a in r.anomalies[:1]],
            "read_saw": {str(k): v for k, v in res.read_saw.items()},
            "files": sorted(res.snaps[-1]),
            "modules": [[r.outcome, r.kern.module_name] for r in res.runs]}


class _Stub:
    """what World needs of ctx, in a worker"""

    def __init__(self, scratch):
        from pathlib import Path
        self.scratch = Path(scratch)


def _worker_init(scratch):
    global _WORLD
    try:
        _WORLD = World(_Stub(scratch))
        _WORLD.setup()
    except BaseException as err:      # pylint: disable=broad-except
        _WORLD = "worker setup failed: %s: %s" % (type(err).__name__, err)


def _work_guarded(task):
    if isinstance(_WORLD, str):
        raise HarnessError(_WORLD)
    return _work(task)


def start_pool(ctx):
    """Workers are forked while this process is still small (before psyclone is imported here):
    forking a process that already holds the parsed kernels makes every worker fault on the same
    copy-on-write pages.  Each worker imports psyclone and builds its own reference data."""
    import multiprocessing as mp
    import sys
    import types
    if _work.__module__ not in sys.modules:        # loaded by path: make the functions picklable by name
        mod = types.ModuleType(_work.__module__)
        mod.__dict__.update(globals())
        sys.modules[_work.__module__] = mod
    nproc = max(1, int(os.environ.get("VERIF_JOBS", "4")))
    return mp.get_context("fork").Pool(nproc, initializer=_worker_init, initargs=(str(ctx.scratch),))


def run_tasks(pool, tasks):
    """Play ALL the tasks in the workers and return their results in order.  The only timeout is a
    hang guard per result (a deadlocked run); the amount of work never depends on the clock."""
    import multiprocessing as mp
    out = []
    try:
        it = pool.imap(_work_guarded, tasks, chunksize=1)
        for k in range(len(tasks)):
            try:
                out.append(it.next(timeout=HANG_GUARD))
            except mp.TimeoutError:
                raise HarnessError("no answer from the workers for %ds at task %d: %r"
                                   % (HANG_GUARD, k, tasks[k])) from None
    finally:
        pool.terminate()
        pool.join()
    return out


# --------------------------------------------------------------------------- the property itself
def evaluate(world, res):
    """Evaluate the property directly on what the implementation did.  Returns a list of
    (reason, detail, known_finding_key_or_None)."""
    cfg, runs, snaps = res.cfg, res.runs, res.snaps
    bad = []
    first, last = snaps[0], snaps[-1]
    for k, snap in enumerate(snaps[1:], 1):
        for n, t in first.items():
            if snap.get(n) != t:
                bad.append(("preexisting-file-changed", "%s changed at step %d by run %d"
                            % (n, k, res.sched[k - 1]), None))
        prev = snaps[k - 1]
        for n, t in prev.items():
            if t != "" and n not in first and snap.get(n) != t:
                bad.append(("written-file-overwritten", "%s changed at step %d by run %d"
                            % (n, k, res.sched[k - 1]), None))
    for n, who in res.touch.items():
        if len(who) > 1:
            bad.append(("two-runs-write-one-file", "%s changed by runs %s" % (n, sorted(who)), None))

    def check_file(r, fname, reasons):
        """names and body of the file run r relies on"""
        ref = world.ref[r.variant]
        text = last.get(fname)
        if text is None:
            reasons.append(("file-missing", "run %d: %s" % (r.rid, fname), None))
            return
        p = Canon.parse_text(text)
        if p is None:
            reasons.append(("not-a-kernel-file", "run %d: %s holds %r" % (r.rid, fname, text[:60]), None))
            return
        if p["fingerprint"] != ref["fp"]:
            reasons.append(("uses-other-kernel", "run %d (%s): body of %s is not its own"
                            % (r.rid, r.variant, fname), None))
        stem = fname[:-4]
        if p["module"].lower() != stem.lower():
            om = r.orig_mod
            key = K_CASE if (om.lower().endswith("_mod") and not om.endswith("_mod")) else None
            reasons.append(("module-name-differs-from-file-name", "run %d: module %s in file %s"
                            % (r.rid, p["module"], fname), key))
        m = FNAME_RE.match(fname)
        if not m or not re.fullmatch(r"(?i).*_%s_code" % m.group(2), p["routine"]):
            reasons.append(("routine-index-differs-from-file-index", "run %d: routine %s in file %s"
                            % (r.rid, p["routine"], fname), None))
        if not p["consistent"]:
            reasons.append(("names-inside-file-inconsistent", "run %d: %s (procedure => %s)"
                            % (r.rid, fname, p["procs"]), None))
        if r.kern.module_name.lower() != p["module"].lower() or r.kern.name.lower() != p["routine"].lower():
            reasons.append(("psy-layer-names-other-kernel", "run %d: PSy uses %s/%s, file %s has %s/%s"
                            % (r.rid, r.kern.module_name, r.kern.name, fname, p["module"], p["routine"]), None))
        if r.psy_text is not None:
            low = r.psy_text.lower()
            if not re.search(r"use\s+%s\s*,\s*only\s*:\s*%s\b" % (re.escape(p["module"].lower()),
                                                                re.escape(p["routine"].lower())), low) \
               or not re.search(r"call\s+%s\s*\(" % re.escape(p["routine"].lower()), low):
                reasons.append(("psy-layer-text-names-other-kernel", "run %d" % r.rid, None))

    own = {r.rid: sorted(n for n, who in res.touch.items() if r.rid in who) for r in runs}
    if cfg.scheme == "multiple":
        for r in runs:
            if r.outcome != "done":
                bad.append(("multiple-run-did-not-complete", "run %d: %s %s" % (r.rid, r.outcome, r.error), None))
                continue
            if len(own[r.rid]) != 1:
                bad.append(("run-did-not-write-exactly-one-file", "run %d wrote %s" % (r.rid, own[r.rid]), None))
                continue
            f = own[r.rid][0]
            if f in first:
                bad.append(("file-not-fresh", "run %d wrote pre-existing %s" % (r.rid, f), None))
            check_file(r, f, bad)
    else:
        groups = {}
        for r in runs:
            groups.setdefault(world.ref[r.variant]["base"], []).append(r)
        for r in runs:
            if r.outcome == "crash":
                bad.append(("run-crashed", "run %d: %s" % (r.rid, r.error), None))
            if r.outcome == "done":
                f = own[r.rid][0] if own[r.rid] else (os.path.basename(r.read_path) if r.read_path else None)
                if f is None or len(own[r.rid]) > 1:
                    bad.append(("single-run-file-unknown", "run %d wrote %s" % (r.rid, own[r.rid]), None))
                else:
                    check_file(r, f, bad)       # a finished run never uses another version
        for base, grp in groups.items():
            same = len({r.variant for r in grp}) == 1
            pre = [k for b, i, k in cfg.pre if b == base and i == 0]
            compatible = (not pre) or pre[0] == "kernel:" + grp[0].variant
            if not (same and compatible):
                continue
            files = set()
            for r in grp:
                if r.outcome == "failed":
                    saw = res.read_saw.get(r.rid)
                    fname = os.path.basename(r.read_path) if r.read_path else None
                    creators = res.touch.get(fname, set()) - {r.rid}
                    key = None
                    if saw == "" and creators and Canon.parse_text(last.get(fname, "")) and \
                       Canon.parse_text(last[fname])["fingerprint"] == world.ref[r.variant]["fp"]:
                        key = K_TOCTOU
                    bad.append(("identical-kernel-run-failed", "run %d read back %s when it held %r, "
                                "created by run %s which then wrote the identical kernel"
                                % (r.rid, fname, (saw or "")[:30], sorted(creators)), key))
                elif r.outcome == "done":
                    files.add(own[r.rid][0] if own[r.rid] else os.path.basename(r.read_path or "?"))
            if len(files) > 1:
                bad.append(("identical-kernels-not-shared", "base %s: files %s" % (base, sorted(files)), None))
    return bad


# --------------------------------------------------------------------------- schedule generation
# A small mirror of the protocol, used ONLY to enumerate schedules (which run may still move);
# verdicts never come from it.
def mirror_init(world, cfg):
    fs = {}
    for b, i, k in cfg.pre:
        fs[(b, i)] = ("T", k.split(":", 1)[1], i) if k.startswith("kernel:") else ("E",) if k == "empty" else ("O",)
    return fs, [["Try", 0] for _ in cfg.runs]


def mirror_step(world, cfg, st, a):
    fs, runs = st
    pc, idx = runs[a]
    v = cfg.runs[a]
    f = (world.ref[v]["base"], idx)
    if pc == "Try":
        if f not in fs:
            fs[f] = ("E",)
            runs[a] = ["Created", idx]
        elif cfg.scheme == "multiple":
            runs[a] = ["Try", idx + 1]
        else:
            runs[a] = ["Found", idx]
    elif pc == "Created":
        runs[a] = ["ToWrite", idx]
    elif pc == "Found":
        runs[a] = ["ToRead", idx]
    elif pc == "ToWrite":
        fs[f] = ("T", v, idx)
        runs[a] = ["ToClose", idx]
    elif pc == "ToRead":
        runs[a] = ["Done", idx] if fs.get(f) == ("T", v, idx) else ["Failed", idx]
    elif pc == "ToClose":
        runs[a] = ["Done", idx]


def all_schedules(world, cfg, macro, limit):
    """Every maximal schedule (macro: rename and close are taken right after open / write).
    Returns (list, complete?)."""
    out = []

    def rec(st, prefix):
        if len(out) > limit:
            return
        live = [i for i, r in enumerate(st[1]) if r[0] not in ("Done", "Failed")]
        if not live:
            out.append(prefix)
            return
        for i in live:
            st2 = (dict(st[0]), [list(r) for r in st[1]])
            steps = [i]
            mirror_step(world, cfg, st2, i)
            while macro and st2[1][i][0] in ("Created", "Found", "ToClose"):
                mirror_step(world, cfg, st2, i)
                steps.append(i)
            rec(st2, prefix + steps)
    rec(mirror_init(world, cfg), [])
    return out[:limit], len(out) <= limit


def random_schedule(world, cfg, rng):
    st = mirror_init(world, cfg)
    s = []
    bias = rng.choice([None, None, 0, 1, 2])
    while True:
        live = [i for i, r in enumerate(st[1]) if r[0] not in ("Done", "Failed")]
        if not live:
            return s
        i = rng.choice(live)
        if bias is not None and bias in live and rng.random() < 0.5:
            i = bias
        mirror_step(world, cfg, st, i)
        s.append(i)


# --------------------------------------------------------------------------- names (strings)
def names_ci():
    """Which _new_name does the tree implement?  (dynamic translator: probe, then the
    correspondence below re-checks the whole model with this flag)"""
    from psyclone.psyGen import CodedKern
    a = CodedKern._new_name("x_MOD", "_0", "_mod")
    b = CodedKern._new_name("x_mod", "_0", "_mod")
    if b != "x_0_mod" or a not in ("x_MOD_0_mod", "x_0_mod"):
        raise HarnessError("_new_name is neither the known nor the repaired variant: %r %r" % (a, b))
    return a == "x_0_mod"


def name_strings(rng, n):
    stems = ["testkern", "TESTKERN", "k", "", "a_mod_b", "x_mod", "mod", "_mo", "kern_code", "t_"]
    sufs = ["_mod", "_MOD", "_Mod", "_mOd", "_code", "_CODE", "_Code", "", "_mo", "mod", "_mod_", "_modx",
            "_mod_mod", "_MOD_mod", "_mod_MOD", "_code_mod", "_mod_code"]
    out = []
    for s in stems:
        for u in sufs:
            out.append(s + u)
    alpha = "abXY_modMODcodeCODE1"
    for _ in range(n):
        k = rng.randint(0, 9)
        s = "".join(rng.choice(alpha) for _ in range(k))
        if rng.random() < 0.7:
            s += "".join(c.upper() if rng.random() < 0.4 else c for c in rng.choice(["_mod", "_code"]))
        out.append(s)
    return out


def run_names(ctx, world, ci):
    """(a) _new_name on many strings; (b) the three names of real rename_and_write calls whose
    kernel carries the given module / routine names (set the way PSyclone's own tests do);
    (c) the end-to-end witness: an algorithm layer that says `use testkern_MOD`."""
    from psyclone.configuration import Config
    from psyclone.psyGen import CodedKern
    rng = ctx.rng("names")
    cases, meta = [], []
    for s in name_strings(rng, ctx.pick(400, 6000)):
        for tag in ("_0", rng.choice(["_7", "_12", "", "_mod"])):
            for suf in ("_mod", "_code") + (("",) if rng.random() < 0.05 else ()):
                res = CodedKern._new_name(s, tag, suf)
                cases.append("(%s, %s, %s, %s, %s)" % ("true" if ci else "false", core.coq_str(s),
                                                      core.coq_str(tag), core.coq_str(suf), core.coq_str(res)))
                meta.append((s, tag, suf, res))
                ctx.hist("new_name_suffix_spelling",
                         "exact" if s.endswith(suf) and suf else
                         "other-case" if suf and s.lower().endswith(suf) else "absent")
    ctx.cov["evaluations"] += len(cases)
    failing = ctx.coq_eval_failing("From PV Require Import C29.NamesModel.\nRequire Import Coq.Strings.String.\n"
                                   "Local Open Scope string_scope.",
                                   "bool * string * string * string * string", "check_new_name", cases, shard=700)
    # (b)
    pairs = [("testkern_mod", "testkern_code"), ("testkern_MOD", "testkern_CODE"), ("TESTKERN_mod", "testkern_code"),
             ("testkern_mod", "TESTKERN_code"), ("TESTKERN_MoD", "TESTKERN_CoDe"), ("testkern", "testkern_code"),
             ("testkern_mod", "testkern"), ("testkern1_mod", "testkern2_code"), ("Testkern_Mod", "testkern_code"),
             ("a_mod_mod", "a_code_code"), ("kmod", "kcode")]
    if ctx.thorough:
        pairs += [("K_%s" % m, "k_%s" % c) for m in ("mod", "MOD", "mOd") for c in ("code", "CODE", "coDe")]
    conf = Config.get()
    ncases, nmeta, prop_bad = [], [], []
    for pre_idx in (0, 2):
        for mod, sub in pairs:
            d = world.newdir()
            base = mod[:-4] if mod.lower().endswith("_mod") else mod
            for i in range(pre_idx):
                (d / ("%s_%d_mod.f90" % (base, i))).write_text("some code\n")
            conf._kernel_output_dir, conf._kernel_naming = str(d), "multiple"
            _, kern = fresh("tk_const")
            kern._module_name, kern._name = mod, sub       # as kernel_transformation_test.py does
            before = set(os.listdir(d))
            kern.rename_and_write()
            new = sorted(set(os.listdir(d)) - before)
            if len(new) != 1:
                changed = sorted(n for n in before if (d / n).read_text() != "some code\n")
                prop_bad.append(("run-did-not-write-exactly-one-fresh-file",
                                 {"module_name": mod, "name": sub, "files_before": sorted(before),
                                  "new_files": new, "preexisting_files_changed": changed}, None))
                shutil.rmtree(d)
                continue
            text = (d / new[0]).read_text()
            mods = re.findall(r"(?im)^\s*module\s+(\w+)\s*$", text)
            m = FNAME_RE.match(new[0])
            tag = "_%s" % m.group(2) if m else "?"
            ncases.append("(%s, %s, %s, %s, (%s, %s, %s))" % (
                "true" if ci else "false", core.coq_str(mod), core.coq_str(sub), core.coq_str(tag),
                core.coq_str(new[0]), core.coq_str(kern.module_name), core.coq_str(kern.name)))
            nmeta.append({"module_name": mod, "name": sub, "file": new[0], "new_module": kern.module_name,
                          "new_name": kern.name, "module_in_file": mods})
            ctx.count(("names", mod, sub, pre_idx), True)
            ctx.hist("module_suffix_spelling", "lower" if mod.endswith("_mod") else
                     "other-case" if mod.lower().endswith("_mod") else "absent")
            # the property on the implementation: module in the file = PSy's module = file name
            stem = new[0][:-4]
            if mods != [kern.module_name] or not re.search(
                    r"(?im)^\s*subroutine\s+%s\b" % re.escape(kern.name), text):
                prop_bad.append(("names-in-file-are-not-the-psy-layer-names", nmeta[-1], None))
            elif kern.module_name.lower() != stem.lower():
                key = K_CASE if (mod.lower().endswith("_mod") and not mod.endswith("_mod")) else None
                prop_bad.append(("module-name-differs-from-file-name", nmeta[-1], key))
            shutil.rmtree(d)
    nfailing = ctx.coq_eval_failing("From PV Require Import C29.NamesModel.\nRequire Import Coq.Strings.String.\n"
                                    "Local Open Scope string_scope.",
                                    "bool * string * string * string * (string * string * string)",
                                    "check_names", ncases, shard=500)
    return failing, meta, nfailing, nmeta, prop_bad


def witness_use_uppercase(ctx, world):
    """End to end through generator.generate: legal Fortran `use testkern_MOD, only: ...` in the
    algorithm layer.  Returns None when module name and file name agree, else the evidence."""
    from psyclone import generator
    from psyclone.configuration import Config
    d = world.newdir()
    out = d / "out"
    out.mkdir()
    src = TESTS / "dynamo0p3"
    alg = (src / "1_single_invoke.f90").read_text()
    alg2 = alg.replace("use testkern_mod,", "use testkern_MOD,")
    if alg2 == alg:
        raise HarnessError("algorithm file no longer has `use testkern_mod,`")
    (d / "alg.f90").write_text(alg2)
    shutil.copy(src / "testkern_mod.F90", d / "testkern_mod.F90")
    (d / "c29script.py").write_text(
        "from psyclone.transformations import ACCRoutineTrans\n"
        "from psyclone.psyGen import CodedKern\n"
        "def trans(psy):\n"
        "    for inv in psy.invokes.invoke_list:\n"
        "        for k in inv.schedule.walk(CodedKern):\n"
        "            ACCRoutineTrans().apply(k)\n"
        "    return psy\n")
    conf = Config.get()
    saved = (conf._kernel_output_dir, conf._kernel_naming, conf.api)
    try:
        with contextlib.redirect_stdout(io.StringIO()):
            _, psy = generator.generate(str(d / "alg.f90"), api="lfric", kernel_paths=[str(d)],
                                        script_name=str(d / "c29script.py"), kern_out_path=str(out),
                                        kern_naming="multiple")
    finally:
        conf._kernel_output_dir, conf._kernel_naming = saved[0], saved[1]
        conf.api = saved[2]
    files = sorted(os.listdir(out))
    ev = None
    if len(files) != 1:
        ev = {"files": files, "why": "expected exactly one kernel file"}
    else:
        text = (out / files[0]).read_text()
        mods = re.findall(r"(?im)^\s*module\s+(\w+)\s*$", text)
        uses = re.findall(r"(?im)^\s*use\s+(testkern\w*)", str(psy))
        if not mods or mods[0].lower() != files[0][:-4].lower():
            ev = {"algorithm": "1_single_invoke.f90 with `use testkern_MOD, only: testkern_type`",
                  "transformation": "ACCRoutineTrans on the kernel, --kernel-renaming multiple",
                  "file_written": files[0], "module_in_file": mods, "psy_layer_uses": uses}
    shutil.rmtree(d)
    return ev


# --------------------------------------------------------------------------- configurations
def configurations(ctx):
    """(cfg, granularity, how many) lists for the tier."""
    two, three = [], []
    pairs = [("tk_acc", "tk_acc"), ("tk_acc", "tk_const"), ("tk_acc", "qr_acc"), ("cu_acc", "cu_acc"),
             ("mom_plain", "mom_plain"), ("tk_plain", "tk_acc")]
    pres = {"tk": [[], [("testkern", 0, "foreign")], [("testkern", 0, "kernel:tk_acc")],
                   [("testkern", 0, "empty")], [("testkern", 0, "foreign"), ("testkern", 1, "kernel:tk_const")]],
            "cu": [[], [("compute_cu", 0, "kernel:cu_acc")]],
            "mom": [[], [("momentum", 0, "foreign")]]}
    for scheme in ("multiple", "single"):
        for a, b in pairs:
            for pre in pres[a.split("_")[0]]:
                two.append(Cfg(scheme, pre, [a, b]))
    triples = [("tk_acc", "tk_acc", "tk_acc"), ("tk_acc", "tk_acc", "tk_const"), ("tk_acc", "tk_const", "qr_acc"),
               ("tk_acc", "tk_const", "tk_plain"), ("cu_acc", "tk_acc", "cu_acc")]
    for scheme in ("multiple", "single"):
        for t in triples:
            for pre in ([], [("testkern", 0, "foreign")], [("testkern", 0, "kernel:tk_acc")]):
                three.append(Cfg(scheme, pre, list(t)))
    return two, three


# --------------------------------------------------------------------------- main
def run(ctx):
    t0 = time.time()
    ctx.cov["rule"] = (
        "case = (scheme, files present beforehand, 2-3 real transformed kernels, schedule of atomic actions); "
        "2 runs: every schedule at every atomic point (open, rename, write, close, read-back) for the core "
        "configurations and every schedule at the file-system-visible points for all configurations; 3 runs: "
        "every schedule at the file-system-visible points (thorough; sampled in quick) plus seeded random "
        "schedules at every atomic point; non-trivial = at least two runs (or a run and a pre-existing file) "
        "contend for the same file name; distinct = (configuration, schedule); names: _new_name on "
        "enumerated+random strings and real rename_and_write calls with differently spelled _mod/_code suffixes")
    ctx.cov["trusted_base"] = core.BASE_TRUST + [
        "models coq/C29/Model.v and coq/C29/NamesModel.v are hand-written; tied to rename_and_write/_rename_psyir/"
        "_new_name by the step-by-step correspondence of this run",
        "runs are threads of one Python process sharing the Config singleton; atomic actions are serialised by "
        "the harness at os.open / _rename_psyir / os.write / os.close / open(...,'r') as seen by psyclone.psyGen "
        "(wrapped in the harness process, /repo unchanged)",
        "OS semantics assumed, not verified: os.open(O_CREAT|O_EXCL) is atomic and fails iff the name exists; "
        "one os.write of the whole text is atomic for readers; files are never deleted or renamed by anyone",
        "file name <-> (base, index) and file text -> (module, routine, body fingerprint) parsing in the harness"]
    ctx.assumptions = [
        "theorems are about the model's step relation; a PSyclone process writing several kernels is several "
        "model runs scheduled one after the other",
        "identical_share_partial assumes read_safe: no read-back observes a created-but-unwritten file",
        "names_match_partial assumes suffix_case_ok: '_mod' spelled in lower case or absent in every case"]
    pool = start_pool(ctx)            # workers set themselves up while Coq builds
    try:
        ok, rep = ctx.prove()
        ctx.log("proof ok=%s discharged=%d/%d" % (ok, ctx.cov["discharged"], ctx.cov["obligations"]))
        world = World(ctx)
        world.setup()
    except BaseException:
        pool.terminate()
        raise
    try:
        return _run(ctx, pool, world, ok, rep, t0)
    finally:
        pool.terminate()


def _run(ctx, pool, world, ok, rep, t0):
    ci = names_ci()
    ctx.notes["new_name_case_insensitive"] = ci
    ctx.notes["kernel_parse_tree_cache_in_harness"] = USE_AST_CACHE[0]

    problems = []          # (reason, detail, key, replay)
    tasks = []

    def add(cfg, sched, gran, mode="rw"):
        tasks.append((cfg.as_json(), list(sched), gran, mode))

    # --- the two witnesses first (re-demonstrated on every run)
    add(Cfg("single", [], ["tk_acc", "tk_acc"]), [0, 1, 1, 1], "witness")
    ev = witness_use_uppercase(ctx, world)
    ctx.count(("use-uppercase-witness",), True)
    if ev:
        problems.append(("module-name-differs-from-file-name", ev, K_CASE,
                         dict(ev, how_to_replay="psyclone -api lfric -s script(ACCRoutineTrans on the kernel) "
                                                "-okern DIR alg.f90, alg.f90 = 1_single_invoke.f90 with "
                                                "`use testkern_MOD`")))
        ctx.sample({"witness": "use testkern_MOD", "observed": ev})

    two, three = configurations(ctx)
    rng = ctx.rng("sched")
    groups = {}                       # label -> [first task, last task, complete enumeration?]

    def add_all(label, cfg, scheds, complete, gran):
        lo = len(tasks)
        for sc in scheds:
            add(cfg, sc, gran)
        groups[(label, json.dumps(cfg.as_json(), sort_keys=True))] = [lo, len(tasks), complete]

    # The numbers of schedules are fixed per tier (never by the clock).
    core_pairs = (["tk_acc", "tk_acc"], ["tk_acc", "tk_const"])
    quick_pairs = core_pairs + (["tk_acc", "qr_acc"], ["cu_acc", "cu_acc"])
    # --- 2 runs, every schedule at every atomic point (open, rename, write, close, read-back)
    full_done = set()
    for cfg in two:
        if len(cfg.pre) > 1 or cfg.runs[0] == "mom_plain":
            continue
        if not ctx.thorough and not (cfg.runs in core_pairs and
                                     (not cfg.pre or cfg.pre[0][2] in ("foreign", "kernel:tk_acc"))):
            continue
        scheds, complete = all_schedules(world, cfg, False, 5000)
        if ctx.thorough:
            cap = 120
        else:           # quick: single scheme and the empty-directory identical pair in full, others sampled
            cap = 120 if (cfg.scheme == "single" or (not cfg.pre and cfg.runs == core_pairs[0])) else 12
        if len(scheds) > cap:
            rng.shuffle(scheds)
            scheds, complete = scheds[:cap], False
        if complete:
            full_done.add(cfg.key())
        add_all("2 runs, every atomic point", cfg, scheds, complete, "2-full")
    # --- 2 runs, every schedule at the file-system-visible points (a subset of the above, so
    #     skipped where the full enumeration has been played)
    for cfg in two:
        if cfg.key() in full_done:
            continue
        if not ctx.thorough and (len(cfg.pre) > 1 or cfg.runs not in quick_pairs or
                                 (cfg.runs not in core_pairs and cfg.pre and cfg.pre[0][2] == "empty")):
            continue
        scheds, complete = all_schedules(world, cfg, True, 5000)
        add_all("2 runs, fs-visible points", cfg, scheds, complete, "2-macro")
    # --- 3 runs at the file-system-visible points: exhaustive up to 700 schedules per configuration
    #     in the thorough tier, sampled otherwise
    for cfg in three:
        scheds, complete = all_schedules(world, cfg, True, 20000)
        if not ctx.thorough or len(scheds) > 700:
            rng.shuffle(scheds)
            scheds, complete = scheds[:ctx.pick(3, 120)], False
        add_all("3 runs, fs-visible points", cfg, scheds, complete, "3-macro")
    # --- 3 runs, seeded random schedules at every atomic point; some through the whole psy.gen
    for k in range(ctx.pick(40, 600)):
        cfg = rng.choice(three)
        add(cfg, random_schedule(world, cfg, rng), "3-random")
    lf = [c for c in three + two if all(v.startswith(("tk", "qr")) for v in c.runs)]
    for k in range(ctx.pick(8, 60)):
        cfg = rng.choice(lf)
        add(cfg, random_schedule(world, cfg, rng), "gen-random", mode="gen")

    results = run_tasks(pool, tasks)
    ctx.log("schedules played: %d (%.0fs)" % (len(results), time.time() - t0))
    for r in results:
        ctx.count((r["cfg"], r["sched"], r["mode"]), r["contend"])
        ctx.hist("scheme", r["cfg"]["scheme"])
        ctx.hist("runs", len(r["cfg"]["runs"]))
        ctx.hist("granularity", r["gran"])
        ctx.hist("preexisting", ",".join(k.split(":")[0] for _, _, k in r["cfg"]["pre"]) or "none")
        ctx.hist("outcomes", r["outcomes"])
        ctx.hist("schedule_length", len(r["sched"]))
        for a in r["anomalies"]:
            ctx.hist("anomalies", a.split(" (")[0][:50])
        for reason, detail, key in r["problems"]:
            problems.append((reason, detail, key, r["replay"]))
    w = results[0]
    ctx.sample({"witness": "single scheme, two identical kernels (testkern + ACCRoutineTrans), schedule [0,1,1,1] "
                           "then the rest", "outcomes": w["modules"], "run1_read_back_saw": w["read_saw"].get("1")})
    for r in results[1:4]:
        ctx.sample({"config": r["cfg"], "schedule": r["sched"], "outcomes": r["modules"], "files": r["files"]})
    exh = {}
    for (label, _), (lo, hi, complete) in groups.items():
        e = exh.setdefault(label, {"configurations": 0, "exhaustively_enumerated_and_played": 0})
        e["configurations"] += 1
        if complete:
            e["exhaustively_enumerated_and_played"] += 1
    ctx.notes["schedule_sets"] = exh
    ctx.notes["schedules_played"] = len(results)

    # --- model vs implementation, step by step, in Coq
    header = "From PV Require Import C29.Model."
    cases = [r["case"] for r in results]
    failing = ctx.coq_eval_failing(header, "case", "check_case", cases, shard=400)
    names_error = None
    try:
        nm_fail, nm_meta, nn_fail, nn_meta, nprop = run_names(ctx, world, ci)
    except Exception as err:            # pylint: disable=broad-except
        # keep going: what the schedules already showed must still be reported with its input
        import traceback
        names_error = traceback.format_exc()
        ctx.log("names stage raised %s: %s" % (type(err).__name__, err))
        nm_fail, nm_meta, nn_fail, nn_meta, nprop = [], [], [], [], []
    for reason, detail, key in nprop:
        problems.append((reason, detail, key, {"names": detail, "how_to_replay":
                         "kern._module_name, kern._name = names; kern.rename_and_write() as in "
                         "kernel_transformation_test.py::test_kern_case_insensitive, then compare the module "
                         "statement in the written file with the file name"}))
    ctx.cov["disagreements_checked"] = len(failing) + len(nm_fail) + len(nn_fail)
    ctx.log("model/implementation disagreements: protocol %d/%d, _new_name %d/%d, names %d/%d; "
            "property failures on the implementation: %d"
            % (len(failing), len(cases), len(nm_fail), len(nm_meta), len(nn_fail), len(nn_meta), len(problems)))

    # --- verdict
    new_violation = False
    seen = set()
    for reason, detail, key, rp in problems:
        tag = (reason, key)
        ctx.hist("property_failures", "%s [%s]" % (reason, key or "unclassified"))
        if tag in seen:
            continue
        seen.add(tag)
        body = dict(rp, property="C29", reason=reason, detail=detail)
        if key:
            if ctx.finding(key, reason, body):
                new_violation = True
        else:
            ctx.violation(body)
            new_violation = True
    broken = []
    if not ok:
        broken.append("proof obligations of Properties/C29.v")
    if failing:
        broken.append("correspondence C29.Model.step = rename_and_write (step-by-step directory and run states)")
    if names_error:
        broken.append("names stage of the harness raised: " + names_error[-600:])
    if nm_fail:
        broken.append("correspondence C29.NamesModel.new_name = CodedKern._new_name")
    if nn_fail:
        broken.append("correspondence C29.NamesModel.{file_name,module_name,routine_name} = names produced by rename_and_write")
    if broken and not new_violation:
        first = None
        if failing:
            r = results[failing[0]]
            shown = ctx.coq_eval_show(header, ["model_trace (%s)" % r["case"]])
            first = dict(r["replay"], observed_case=r["case"],
                         model_first_differing_step_pcs_per_step_and_final_directory=shown)
        elif nm_fail:
            first = {"_new_name(original, tag, suffix) -> result": nm_meta[nm_fail[0]]}
        elif nn_fail:
            first = nn_meta[nn_fail[0]]
        ctx.violation({"property": "C29", "broken": broken, "proof_report": rep if not ok else None,
                       "first_differing_case": first, "n_differing": len(failing) + len(nm_fail) + len(nn_fail)},
                      no_input=True)


def replay(ctx, path):
    d = json.loads(open(path).read())
    if "config" not in d:
        print("replay file has no config/schedule (see its how_to_replay text)")
        return 0
    world = World(ctx)
    world.setup()
    res = play(world, Cfg.from_json(d["config"]), d["schedule"][:], mode=d.get("mode", "rw"))
    for k, (a, ro) in enumerate(zip([-1] + res.sched, res.robs)):
        print("step %2d run %2d  dir=%s  runs=%s" % (k, a, {n: len(t) for n, t in res.snaps[k].items()}, ro))
    for r in res.runs:
        print("run", r.rid, r.variant, r.outcome, r.error and r.error[:100], r.kern.module_name, r.kern.name, r.events)
    for b in evaluate(world, res):
        print("PROPERTY FAILS:", b)
    shutil.rmtree(ctx.scratch, ignore_errors=True)      # (no evidence is written by a replay)
    return 0
