"""C07 — Inlining a call preserves the caller's behaviour (InlineTrans; DESIGN 5/C07).

Proof: coq/C07/{Model,Sim,Proofs,Fresh,Refuted}.v, theorems in coq/Properties/C07.v.
Harness (this file, gen.py, c07lib.py): generated caller/callee pairs -> Fortran text -> PSyclone
reader -> the real InlineTrans.validate/apply -> serialised result;
 (1) the property itself: original program under true by-reference call semantics vs the inlined
     program, over a grid of stores (conforming runs only) — differences are failing inputs,
     classified by a statically computed reason code (known finding) or reported as VIOLATION;
 (2) correspondence: verdict, renaming decided by SymbolTable.merge and the inlined statements vs
     the Coq model (accept_impl / ren_ok / inline_apply), by vm_compute;
 (3) glue: the Coq call semantics exec_call vs the harness's by-reference interpreter."""
import importlib.util
import json
import sys
from pathlib import Path

from vlib import core, minifort as mf

HERE = Path(__file__).resolve().parent


def _load(name):
    spec = importlib.util.spec_from_file_location("c07_" + name, HERE / (name + ".py"))
    mod = importlib.util.module_from_spec(spec)
    sys.modules["c07_" + name] = mod
    spec.loader.exec_module(mod)
    return mod


L = _load("c07lib")
G = _load("gen")

SITE = "InlineTrans.apply"
HEADER = "From Coq Require Import List ZArith Bool. Import ListNotations.\n" \
         "From PV Require Import Fort.Syntax Fort.Sem C07.Model.\nOpen Scope Z_scope."

# fixed witnesses, replayed on the tree under test on every run (one per known reason code)
_OWN = [("i", []), ("n", []), ("t", []), ("a", [(1, 8)])]
WITNESSES = {
    "actual-index-modified-by-callee": {
        "outer": [], "own": _OWN, "caller": [("call", "s", [("idx", "a", [("var", "i")]), ("var", "i")])],
        "formals": [("x", None), ("j", None)], "locals": [],
        "body": [("assign", "j", [], ("bin", "Add", ("var", "j"), ("lit", 1))), ("assign", "x", [], ("lit", 5))]},
    "expression-actual-reevaluated": {
        "outer": [], "own": _OWN, "caller": [("call", "s", [("bin", "Add", ("var", "i"), ("lit", 1)), ("var", "i"), ("var", "t")])],
        "formals": [("x", None), ("j", None), ("y", None)], "locals": [],
        "body": [("assign", "j", [], ("bin", "Add", ("var", "j"), ("lit", 1))), ("assign", "y", [], ("var", "x"))]},
    "section-bound-modified-by-callee": {
        "outer": [], "own": _OWN, "caller": [("call", "s", [("sec", "a", [("rng", ("var", "i"), ("lit", 6))]), ("var", "i")])],
        "formals": [("x", [("assumed", None)]), ("j", None)], "locals": [],
        "body": [("assign", "j", [], ("bin", "Add", ("var", "j"), ("lit", 1))), ("assign", "x", [("lit", 1)], ("lit", 9))]},
    "formal-is-loop-variable": {
        "outer": [], "own": _OWN, "caller": [("call", "s", [("var", "i"), ("var", "n")])],
        "formals": [("j", None), ("x", None)], "locals": [],
        "body": [("do", "j", ("lit", 1), ("lit", 3), ("lit", 1), [("assign", "x", [], ("bin", "Add", ("var", "x"), ("var", "j")))])]},
    "bounds-inquiry-on-formal": {
        "outer": [], "own": _OWN, "caller": [("call", "s", [("var", "a"), ("var", "t")])],
        "formals": [("x", [("assumed", 0)]), ("r", None)], "locals": [],
        "body": [("assign", "r", [], ("bin", "Add", ("intr", "ILbound", [("var", "x"), ("lit", 1)]),
                                      ("bin", "Mul", ("lit", 10), ("intr", "IUbound", [("var", "x"), ("lit", 1)]))))]},
    "local-captures-container-variable": {
        "outer": [("g", [])], "own": _OWN,
        "caller": [("assign", "g", [], ("lit", 1)), ("call", "s", [("var", "n")]),
                   ("assign", "n", [], ("bin", "Add", ("var", "n"), ("var", "g")))],
        "formals": [("x", None)], "locals": [("g", [], "")],
        "body": [("assign", "g", [], ("lit", 5)), ("assign", "x", [], ("var", "g"))]},
}


# fixed targeted shapes (not findings): run first on every run.  Caller local X, callee local X and a module
# variable X_1 / X_2 (the names next_available_name tries first) that the caller uses; call at the top level,
# inside a DO body and inside an IF body (different symbol tables are merged into).
def _targeted():
    out = []
    body = [("assign", "tmp", [], ("bin", "Mul", ("var", "x"), ("lit", 10))),
            ("assign", "x", [], ("bin", "Add", ("var", "x"), ("var", "tmp")))]
    use = [("assign", "t", [], ("bin", "Add", ("var", "tmp"), ("bin", "Add", ("var", "tmp_1"), ("var", "tmp_2"))))]
    call = ("call", "s", [("var", "tmp")])
    for where in ("top", "do", "if"):
        mid = [call] if where == "top" else \
            [("do", "m", ("lit", 1), ("lit", 2), ("lit", 1), [call])] if where == "do" else \
            [("if", ("bin", "Gt", ("var", "n"), ("lit", 0)), [call], [])]
        out.append({"outer": [("tmp_1", []), ("tmp_2", [])], "own": [("n", []), ("m", []), ("t", []), ("tmp", [])],
                    "caller": [("assign", "tmp", [], ("lit", 1)), ("assign", "tmp_1", [], ("lit", 7))] + mid + use,
                    "formals": [("x", None)], "locals": [("tmp", [], "")], "body": body, "malformed": "",
                    "targeted": "clash-rename-vs-module-variable/" + where})
    # the local itself bears the name of a module variable AND its first candidate is one too
    out.append({"outer": [("q", []), ("q_1", [])], "own": [("n", []), ("t", [])],
                "caller": [("assign", "q", [], ("lit", 2)), ("assign", "q_1", [], ("lit", 3)), ("call", "s", [("var", "n")]),
                           ("assign", "t", [], ("bin", "Add", ("var", "q"), ("var", "q_1")))],
                "formals": [("x", None)], "locals": [("q", [], "")],
                "body": [("assign", "q", [], ("lit", 5)), ("assign", "x", [], ("var", "q"))], "malformed": "",
                "targeted": "shadowing-local-vs-module-variables"})
    # strided section actuals (must be refused; if accepted, apply() maps x(k) onto contiguous elements)
    sbody = [("do", "k", ("lit", 1), ("lit", 3), ("lit", 1), [("assign", "x", [("var", "k")], ("bin", "Add", ("lit", 10), ("var", "k")))])]
    for tag, pre, sec in (("reversed", [], ("sec", "a", [("rng", ("lit", 8), ("lit", 1), ("lit", -1))])),
                          ("variable", [("assign", "n", [], ("lit", 2))], ("sec", "a", [("rng", ("lit", 1), ("lit", 8), ("var", "n"))])),
                          ("literal-one", [], ("sec", "a", [("rng", ("lit", 2), ("lit", 8), ("lit", 1))]))):
        out.append({"outer": [], "own": [("i", []), ("n", []), ("t", []), ("a", [(1, 8)])],
                    "caller": pre + [("call", "s", [sec])], "formals": [("x", [("assumed", None)])], "locals": [("k", [], "")],
                    "body": sbody, "malformed": "", "targeted": "strided-section/" + tag})
    return out


def make_store(case, r):
    vals = {}
    for n, b in case["outer"] + case["own"]:
        if not b:
            vals[(n, ())] = r.randint(1, 3) if n in ("i", "n", "m") else r.randint(-3, 6)
        elif len(b) == 1:
            for i in range(b[0][0], b[0][1] + 1):
                vals[(n, (i,))] = r.randint(-4, 9)
        else:
            for i in range(b[0][0], b[0][1] + 1):
                for j in range(b[1][0], b[1][1] + 1):
                    vals[(n, (i, j))] = r.randint(-4, 9)
    return vals


def evaluate(case, res, stores):
    """the property itself on this case: -> (n_conforming, first difference or None)"""
    bnds = L.caller_bounds(case)
    nconf, diff = 0, None
    for vals in stores:
        try:
            o = L.interp(case, res["orig"], vals, bnds, True)
        except L.NonConforming:
            continue
        if o[0] != "ok":
            continue                      # faulting original program: nothing is claimed
        nconf += 1
        try:
            i = L.interp(case, res["inlined"], vals, bnds, False)
        except L.NonConforming as e:      # cannot happen (strict off) except for leftover calls
            i = ("nonconforming", str(e))
        if i[0] != "ok":
            d = {"store": sorted((list(k), v) for k, v in vals.items()), "original": "ok", "inlined": list(i)}
        else:
            keys = set(o[1]) | set(i[1])
            bad = sorted(k for k in keys if o[1].get(k, 0) != i[1].get(k, 0))
            d = None
            if bad:
                d = {"store": sorted(([k[0], list(k[1])], v) for k, v in vals.items()),
                     "differing_locations": [[k[0], list(k[1]), o[1].get(k, 0), i[1].get(k, 0)] for k in bad[:6]],
                     "columns": "name, index, original (by-reference call), inlined"}
        if d and diff is None:
            diff = d
    return nconf, diff


def names_for(case, res):
    nm = mf.Names()
    for n in ["m", "run", "s"]:
        nm.get(n)
    for n, _ in case["outer"] + case["own"] + case["formals"]:
        nm.get(n)
    for n, _, _ in case["locals"]:
        nm.get(n)
    for n in res.get("own_names", []) + res.get("outer_names", []) + res.get("new_names", []):
        nm.get(n)
    return nm


def callee_local_order(case):
    return [n for n, _, _ in case["locals"]]


def run(ctx):
    ctx.cov["rule"] = (
        "generated caller/callee pairs in one module (gen.py): 1-3 formals of kind scalar-in / scalar-inout / 1-D / 2-D array "
        "(assumed shape, shifted lower bound x(0:), explicit x(5:7)); actuals: scalar, whole array, element a(i), a(i+1), d(i,n), "
        "section a(lo:hi) with literal / variable base, rank-reducing d(i,:), expression, literal; callee increments a scalar "
        "argument that is also the subscript of another actual; locals clashing with caller locals, module variables, routine "
        "names, local arrays; call at top level / in a DO (2 trips) / in an IF; malformed stream (argument count, rank, early "
        "RETURN, EXIT/CYCLE, stride, SAVE, module variable in callee). non-trivial = InlineTrans accepted and at least one "
        "conforming store was evaluated; distinct = Fortran text")
    ctx.cov["trusted_base"] = core.BASE_TRUST + [
        "coq/C07/Model.v is hand-written; tied to inline_trans.py / SymbolTable.merge by the correspondence run (verdict, renaming contract, inlined statements)",
        "MiniFortran semantics coq/Fort/Sem.v (validated by ./check _FORT against gfortran) and the by-reference call semantics exec_call, cross-checked here against the harness interpreter c07lib.interp",
        "PSyclone Fortran reader and vlib.minifort / c07lib serialisers (read-back of the unchanged caller is compared with the generated program on every case)",
        "SymbolTable.next_available_name is treated as an oracle with the checked contract ren_ok (fresh w.r.t. every caller scope and the callee table)"]
    ctx.assumptions = [
        "values are integers; no array-bounds faults in the semantics (the harness discards stores on which the ORIGINAL program indexes out of bounds, reads an undefined callee local, or redefines an active DO variable)",
        "callee locals are undefined at entry: the theorem lets them start with whatever the store holds under their (fresh) names"]
    ok, rep = ctx.prove()
    ctx.log("proof ok=%s discharged=%d/%d" % (ok, ctx.cov["discharged"], ctx.cov["obligations"]))

    rng = ctx.rng("gen")
    ncase = ctx.pick(90, 1100)
    nstores = ctx.pick(4, 8)
    gen = G.Gen(rng)
    cases = []
    for key, w in WITNESSES.items():
        c = dict(w)
        c.setdefault("malformed", "")
        c["witness"] = key
        cases.append(c)
    cases += _targeted()
    for k in range(ncase):
        mal = rng.choice(G.MALFORMED) if rng.random() < 0.2 else None
        cases.append(gen.case(mal))

    corr, corr_ix, sem, sem_ix = [], [], [], []
    ssem, ssem_ix = [], []
    diffs = {}
    nstruct = 0
    glue_bad = 0
    for ci, case in enumerate(cases):
        text = L.case_to_fortran(case)
        res = L.run_impl(case, text)
        cb = L.caller_bounds(case)
        if L.canon_secs(res["orig"], cb) != L.canon_secs(L.norm_s(case["caller"]), cb):
            glue_bad += 1
            if glue_bad <= 2:
                ctx.violation({"glue": "reader/serialiser round trip of the caller differs", "text": text,
                               "read_back": res["orig"], "generated": L.norm_s(case["caller"])}, no_input=True)
            continue
        v = res["verdict"]
        ctx.hist("verdict", v if v != "refused" else "refused/" + L.refusal_class(res["msg"]))
        ctx.hist("stream", case.get("witness") and "witness" or case.get("targeted") and "targeted" or (case["malformed"] or "valid"))
        ctx.hist("module_variables_beyond_g_h", len([1 for n_, _ in case["outer"] if n_ not in ("g", "h")]))
        call = L.find_call(case["caller"])
        for a, (fn, fd) in zip(call[2], case["formals"]):
            ctx.hist("actual_kind", ("array:" if fd else "scalar:") + {"var": "variable", "idx": "element", "sec": "section",
                                                                     "lit": "literal"}.get(a[0], "expression"))
        rs = L.reasons(case)
        infrag, why = L.in_model_fragment(case)
        nm = names_for(case, res)
        nconf, diff = 0, None
        if v == "accepted":
            stores = [make_store(case, rng) for _ in range(nstores)]
            nconf, diff = evaluate(case, res, stores)
            ctx.hist("gap", rs[0] if rs else "none")
        elif v in ("crash", "oos"):
            ctx.hist("not_evaluated", v + ":" + res["msg"][:60])
        ctx.count(text, nontrivial=(v == "accepted" and nconf > 0))
        # ---- (2) correspondence with the Coq model
        if infrag and v in ("accepted", "refused"):
            cs = L.encode_callsite(case, nm, res["own_names"], res["outer_names"])
            if v == "accepted":
                repl = L.extract_inlined(res["orig"], res["inlined"])
                trivial = not case["body"] or case["body"][0][0] == "return"
                if trivial:
                    ren = list(zip(res["new_names"], res["new_names"]))     # nothing may have been merged
                else:
                    ren = L.pair_renaming(callee_local_order(case), res["new_names"])
                if repl is None or ren is None:
                    ctx.hist("structure_mismatch", "yes")
                    if nstruct < 3:
                        ctx.violation({"property": "C07", "broken": "the inlined caller does not have the original structure around the "
                                       "call or the symbols merged into the caller do not line up with the callee's locals",
                                       "fortran_module": text, "inlined_caller": res["inlined"], "new_names": res["new_names"],
                                       "callee_locals": callee_local_order(case), "observed": diff}, no_input=diff is None)
                    nstruct += 1
                    continue
                rn = core.coq_list("(%d%%nat, %d%%nat)" % (nm.get(a), nm.get(b)) for a, b in ren)
                corr.append("(%s, %s, Some %s)" % (cs, rn, mf.stmts_to_coq(repl, nm)))
                corr_ix.append(ci)
                # ---- (3) semantic glue: exec_call vs the by-reference interpreter, on the call alone
                if not rs and len(sem) < ctx.pick(120, 900):
                    mini = dict(case)
                    mini["caller"] = [call]
                    vals = make_store(case, rng)
                    try:
                        o = L.interp(mini, mini["caller"], vals, L.caller_bounds(case), True)
                    except L.NonConforming:
                        o = None
                    if o is not None and o[0] in ("ok", "fault"):
                        exp = "None" if o[0] == "fault" else "(Some [%s])" % "; ".join(
                            "((%d%%nat, [%s]), (%d))" % (nm.get(k[0]), "; ".join("(%d)" % z for z in k[1]), z2)
                            for k, z2 in sorted(o[1].items()))
                        sem.append("(%s, %s, %s, %s)" % (cs, rn, mf.store_to_coq(vals, L.caller_bounds(case), nm), exp))
                        sem_ix.append(ci)
            else:
                corr.append("(%s, [], None)" % cs)
                corr_ix.append(ci)
        elif not infrag:
            ctx.hist("outside_model_fragment", why)
        # ---- (3b) glue for the strided call semantics (coq/C07/Stride.v), whatever the verdict
        sp = [p_ for p_, a in enumerate(call[2]) if a[0] == "sec" and any(d[0] == "rng" and len(d) > 3 for d in a[2])]
        if (infrag and len(sp) == 1 and len(call[2]) == len(case["formals"]) and len(call[2][sp[0]][2]) == 1
                and case["formals"][sp[0]][1] is not None and len(case["formals"][sp[0]][1]) == 1
                and not [r_ for r_ in rs if r_ != "local-captures-container-variable"] and len(ssem) < ctx.pick(40, 300)):
            a = call[2][sp[0]]
            fn, fd = case["formals"][sp[0]]
            mini = dict(case)
            mini["caller"] = [call]
            vals = make_store(case, rng)
            try:
                o = L.interp(mini, mini["caller"], vals, L.caller_bounds(case), True)
            except L.NonConforming:
                o = None
            if o is not None and o[0] in ("ok", "fault"):
                for ln_, _, _ in case["locals"]:
                    nm.get(ln_ + "#fresh")
                frn = core.coq_list("(%d%%nat, %d%%nat)" % (nm.get(ln_), nm.get(ln_ + "#fresh")) for ln_, _, _ in case["locals"])
                cs2 = L.encode_callsite(case, nm, res["own_names"], res["outer_names"])
                ss = "(mkSS %d%%nat (%d) %s)" % (nm.get(fn), 1 if fd[0][1] is None else fd[0][1], mf.expr_to_coq(a[2][0][3], nm))
                exp = "None" if o[0] == "fault" else "(Some [%s])" % "; ".join(
                    "((%d%%nat, [%s]), (%d))" % (nm.get(k[0]), "; ".join("(%d)" % z for z in k[1]), z2)
                    for k, z2 in sorted(o[1].items()))
                ssem.append("(%s, %s, %s, %s, %s)" % (cs2, ss, frn, mf.store_to_coq(vals, L.caller_bounds(case), nm), exp))
                ssem_ix.append(ci)
                ctx.hist("strided_glue_stride", mf.expr_to_fortran(a[2][0][3]))
        # ---- (1) verdict on the property itself
        if diff is not None:
            replay = {"property": "C07", "fortran_module": text, "inlined_caller": res["inlined"], "observed": diff,
                      "reasons": rs, "replay": "FortranReader().psyir_from_source(fortran_module); InlineTrans().apply(first Call in "
                                                "`run`); run `run` from the store before and after"}
            diffs[ci] = (replay, rs)
        if ci < 3 or (v == "accepted" and len(ctx.cov["samples"]) < 6 and ci % 37 == 0):
            ctx.sample({"module": text, "verdict": v, "reasons": rs, "conforming_stores": nconf,
                        "differs": diff is not None})

    # ---- Coq evaluation
    bad_corr = ctx.coq_eval_failing(HEADER, "corr_case", "corr_check", corr, shard=120) if corr else []
    bad_sem = ctx.coq_eval_failing(HEADER, "sem_case", "sem_check", sem, shard=60) if sem else []
    bad_ssem = ctx.coq_eval_failing(HEADER + "\nFrom PV Require Import C07.Stride.", "ssem_case", "ssem_check", ssem, shard=60) if ssem else []
    ctx.notes["strided_semantics_glue_cases"] = len(ssem)
    ctx.cov["disagreements_checked"] = len(bad_corr) + len(bad_sem) + len(bad_ssem)
    ctx.notes["correspondence_cases"] = len(corr)
    ctx.notes["semantics_glue_cases"] = len(sem)
    bad_ci = {corr_ix[k]: k for k in bad_corr}
    found, unexplained = {}, []
    for ci, (replay, rs) in sorted(diffs.items()):
        if ci in bad_ci:
            # the implementation no longer does what the faithful model says AND the result is wrong
            replay = dict(replay, broken="InlineTrans differs from coq/C07/Model.v on this call site",
                          coq_case=corr[bad_ci[ci]][:3000])
            unexplained.append((ci, replay))
        elif rs:
            found.setdefault(rs[0], replay)
        else:
            unexplained.append((ci, replay))
    ctx.log("cases=%d corr=%d (bad %d) sem=%d (bad %d) strided-sem=%d (bad %d) differing=%d findings=%s unexplained=%d"
            % (len(cases), len(corr), len(bad_corr), len(sem), len(bad_sem), len(ssem), len(bad_ssem), len(diffs), sorted(found), len(unexplained)))
    ctx.notes["cases_with_semantic_difference"] = len(diffs)

    # ---- verdicts
    for key, replay in sorted(found.items()):
        ctx.finding("%s/%s" % (SITE, key), "inlined code differs from the call (%s)" % key, replay)
    for ci, replay in unexplained[:3]:
        ctx.violation(replay)
    shown = 0
    for k in bad_corr:
        ci = corr_ix[k]
        if ci in diffs or shown >= 3:
            continue
        shown += 1
        ctx.violation({"property": "C07", "broken": "correspondence InlineTrans vs coq/C07/Model.v (accept_impl / ren_ok / inline_apply)",
                       "fortran_module": L.case_to_fortran(cases[ci]), "coq_case": corr[k][:4000],
                       "note": "no semantic difference was observed on the sampled stores for this case"},
                      no_input=True)
    for k in bad_sem[:2]:
        ctx.violation({"property": "C07", "broken": "glue: Coq exec_call differs from the harness by-reference interpreter",
                       "fortran_module": L.case_to_fortran(cases[sem_ix[k]]), "coq_case": sem[k][:4000]}, no_input=True)
    for k in bad_ssem[:2]:
        ctx.violation({"property": "C07", "broken": "glue: Coq exec_call_strided (coq/C07/Stride.v) differs from the harness interpreter "
                       "on a strided section actual", "fortran_module": L.case_to_fortran(cases[ssem_ix[k]]), "coq_case": ssem[k][:4000]},
                      no_input=True)
    if not ok and not unexplained:
        ctx.violation({"property": "C07", "broken": "proof obligations of Properties/C07.v", "proof_report": rep}, no_input=True)
