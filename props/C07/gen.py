"""C07 generator: caller/callee pairs in one module (see c07lib for the case format).

Valid stream: scalar / whole-array / array-element / array-section / expression actuals; callee that
modifies its formals, its locals and (through another argument) the variables used in the subscript
of an element actual or in the base of a section; name clashes between caller and callee locals
(also with module-level variables and with local arrays); shifted lower bounds in the callee's
declarations (`x(0:)`, `x(5:7)`), assumed shape, 2-D arrays, rank-reducing sections `d(i,:)`; call at
top level, inside a DO loop (executed twice) or inside an IF.
Strided section actuals (valid Fortran; InlineTrans must refuse every non-unit stride): a(lo:hi:1), :2, :3, :n, :-1, :-n,
:n+0, :0-n, whole-extent and partial.
Malformed stream: wrong argument count, rank mismatch, early RETURN, EXIT/CYCLE (CodeBlock),
strided section, SAVEd local, callee using a module variable.
Module variables: `g`, `h` and — drawn from the same pool as the locals plus the first fresh-name candidates
(`t_1`, `t_2`, `i_1_1`, ...) of every local that clashes with a caller local — scalars the caller reads and writes."""

E = 3            # number of elements of an array formal the callee touches per dimension


def lit(n):
    return ("lit", n)


def var(x):
    return ("var", x)


def add(a, b):
    return ("bin", "Add", a, b)


class Gen:
    def __init__(self, r):
        self.r = r

    # ------------------------------------------------------------------ caller side
    def caller_decls(self):
        r = self.r
        lb = r.choice([0, 1, 1, 2, 3])
        lb2 = r.choice([0, 1, 2])
        own = [("i", []), ("n", []), ("m", []), ("t", []), ("a", [(1, 8)]), ("b", [(lb, lb + 7)]),
               ("d", [(1, 4), (lb2, lb2 + 3)])]
        outer = []
        if r.random() < 0.45:
            outer = [("g", []), ("h", [(1, 6)])]
        if r.random() < 0.3:
            own.append(("k", []))
        return own, outer

    def index_expr(self):
        r = self.r
        c = r.random()
        if c < 0.45:
            return var(r.choice(["i", "n", "i", "m"]))
        if c < 0.65:
            return add(var(r.choice(["i", "n"])), lit(1))
        return lit(r.randint(1, 4))

    def scalar_actual(self, writable, arrays1, scal):
        r = self.r
        c = r.random()
        if c < 0.35:
            return var(r.choice(scal))
        if c < 0.75 or writable:
            if r.random() < 0.8:
                return ("idx", r.choice(arrays1), [self.index_expr()])
            return ("idx", "d", [self.index_expr(), add(self.index_expr(), lit(0)) if r.random() < 0.1 else self.index_expr()])
        c = r.random()
        if c < 0.3:
            return lit(r.randint(-2, 5))
        if c < 0.7:
            return add(var(r.choice(["i", "n", "t"])), lit(r.randint(1, 2)))
        return ("bin", "Mul", ("idx", "a", [self.index_expr()]), lit(2))

    def array_actual(self, rank, arrays1):
        r = self.r
        if rank == 2:
            if r.random() < 0.8:
                return var("d")
            return ("sec", "d", [("rng", None, None), ("rng", None, None)])
        c = r.random()
        if c < 0.4:
            return var(r.choice(arrays1))
        if c < 0.8:
            lo = r.choice([None, lit(2), lit(3), var("i"), var("n"), add(var("i"), lit(1))])
            hi = r.choice([None, None, lit(8), lit(7)])
            if r.random() < 0.3:
                return self.strided_actual()
            return ("sec", "a", [("rng", lo, hi)])
        ie = self.index_expr()
        if r.random() < 0.5:
            return ("sec", "d", [("ix", ie), ("rng", None, None)])
        return ("sec", "d", [("rng", None, None), ("ix", add(var("i"), lit(0)) if r.random() < 0.1 else lit(r.randint(1, 3)))])

    def strided_actual(self):
        """1-D section of a(1:8) with an explicit stride, at least E elements long on every store (i, n in 1..3):
        literal 1 (the only one InlineTrans may accept), literal 2 / 3, variable, -1, -variable, expressions;
        whole-extent and partial sections."""
        r = self.r
        kind = r.choice(["one", "one", "two", "three", "var", "neg1", "negvar", "expr", "negexpr"])
        neg = ("un", "Neg", var("n"))
        if kind == "one":
            return ("sec", "a", [("rng", r.choice([None, lit(2), var("i")]), r.choice([None, lit(8), lit(7)]), lit(1))])
        if kind == "two":
            return ("sec", "a", [("rng", r.choice([None, lit(1), lit(2), var("i")]), r.choice([None, lit(8)]), lit(2))])
        if kind == "three":
            return ("sec", "a", [("rng", r.choice([None, lit(1), lit(2)]), None, lit(3))])
        if kind == "var":           # n in 1..3: from 1 or 2 there are always >= 3 elements up to 8
            return ("sec", "a", [("rng", r.choice([None, lit(1), lit(2)]), r.choice([None, lit(8)]), var("n"))])
        if kind == "neg1":
            return ("sec", "a", [("rng", r.choice([lit(8), lit(5), lit(6), add(var("i"), lit(4))]), r.choice([lit(1), lit(2)]), lit(-1))])
        if kind == "negvar":
            return ("sec", "a", [("rng", lit(8), lit(1), neg)])
        if kind == "expr":
            return ("sec", "a", [("rng", r.choice([None, lit(1)]), None, r.choice([add(var("n"), lit(0)), ("bin", "Sub", var("n"), lit(0)),
                                                                                   ("bin", "Mul", var("n"), lit(1))]))])
        return ("sec", "a", [("rng", lit(8), lit(1), ("bin", "Sub", lit(0), var("n")))])

    # ------------------------------------------------------------------ callee side
    def formal_dims(self, rank):
        """all dimensions assumed-shape (optionally with a lower bound) or all explicit."""
        r = self.r
        dims = []
        explicit = r.random() < 0.3
        for _ in range(rank):
            if explicit:
                lb = r.choice([0, 1, 2, 5])
                dims.append(("explicit", lb, lb + E - 1))
            elif r.random() < 0.4:
                dims.append(("assumed", None))
            else:
                dims.append(("assumed", r.choice([0, 0, 2, 5])))
        return dims

    def case(self, malformed=None):
        r = self.r
        own, outer = self.caller_decls()
        arrays1 = ["a", "b"] + (["h"] if outer else [])
        scal = ["i", "n", "m", "t"] + (["g"] if outer else [])
        nf = r.choice([1, 2, 2, 3, 3])
        pool = ["x", "y", "z", "j", "p"]
        if r.random() < 0.15:
            pool = ["x", "n", "j", "i", "p"]          # formal named like a caller variable
        r.shuffle(pool)
        kinds = [r.choice(["sin", "sio", "sio", "arr1", "arr1", "arr2"]) for _ in range(nf)]
        if "sio" not in kinds and "arr1" not in kinds and "arr2" not in kinds:
            kinds[0] = "sio"
        formals, actuals = [], []
        for k, fn in zip(kinds, pool):
            if k in ("sin", "sio"):
                formals.append((fn, None))
                actuals.append(self.scalar_actual(k == "sio", arrays1, scal))
            else:
                rank = 1 if k == "arr1" else 2
                formals.append((fn, self.formal_dims(rank)))
                actuals.append(self.array_actual(rank, arrays1))
        # share an index variable between an element actual and a writable scalar actual
        if r.random() < 0.45:
            idxv = [x for a in actuals for x in self._idx_vars(a)]
            sios = [p for p, k in enumerate(kinds) if k == "sio"]
            if idxv and sios:
                p = r.choice(sios)
                if not any(q != p and self._idx_vars(actuals[q]) for q in range(nf)):
                    pass
                else:
                    actuals[p] = var(r.choice(idxv))
        # locals (with clashes)
        lpool = [("t", []), ("k", []), ("i", []), ("n", []), ("q", []), ("w", [(1, 3)]), ("a", [(1, 3)]), ("i_1", []),
                 ("g", []), ("run", []), ("s", []), ("m", [])]
        r.shuffle(lpool)
        fnames = {fn for fn, _ in formals}
        locals_ = [(n_, b_, "") for n_, b_ in lpool[:r.choice([1, 2, 3, 3, 4])] if n_ not in fnames]
        loopv = [n_ for n_, b_, _ in locals_ if not b_]
        body = self.body(formals, kinds, locals_, r)
        caller = self.caller_body(actuals, scal, arrays1)
        # module-level variables named like the FIRST FRESH-NAME CANDIDATES (`t_1`, `t_2`) of the locals that
        # clash with a caller local (merge must rename those), or like a callee local / pool name; the caller
        # reads and writes them, so a renamed local that lands on such a name captures the caller's references
        own_names = {n_ for n_, _ in own}
        extra = []
        for ln, lb_, _ in locals_:
            if ln in own_names and r.random() < 0.6:
                extra.append(ln + "_1")
                if r.random() < 0.4:
                    extra.append(ln + "_2")
            elif ln not in own_names and r.random() < 0.15:
                extra.append(ln)                          # module variable named like a (non-clashing) local
                if r.random() < 0.5:
                    extra.append(ln + "_1")
        if r.random() < 0.1:
            extra.append(r.choice(["q", "k", "w_1", "t_1", "i_1"]))
        taken = own_names | {n_ for n_, _ in outer} | fnames | {"run", "s", "m"}
        extra = [e for k_, e in enumerate(extra) if e not in taken and e not in extra[:k_]]
        if extra:
            outer = outer + [(e, []) for e in extra]
            pre = [("assign", e, [], lit(r.randint(3, 9))) for e in extra if r.random() < 0.7]
            post = [("assign", "t", [], add(var("t"), var(e))) for e in extra]
            caller = pre + caller + post
        case = {"outer": outer, "own": own, "caller": caller, "formals": formals, "locals": locals_, "body": body,
                "kinds": kinds, "malformed": malformed or ""}
        if malformed:
            break_case(case, malformed, r)
        return case

    @staticmethod
    def _idx_vars(a):
        out = []

        def ex(e):
            if e[0] == "var":
                out.append(e[1])
            elif e[0] == "bin":
                ex(e[2])
                ex(e[3])
        if a[0] == "idx":
            for x in a[2]:
                ex(x)
        elif a[0] == "sec":
            for d in a[2]:
                for x in d[1:]:
                    if x is not None:
                        ex(x)
        elif a[0] == "bin":
            ex(a)
        return out

    def body(self, formals, kinds, locals_, r):
        scal_locals = [n for n, b, _ in locals_ if not b]
        arr_locals = [n for n, b, _ in locals_ if b]
        init = set()
        stmts = []
        readable = [fn for (fn, fd), k in zip(formals, kinds) if k in ("sin", "sio")]

        def rexpr(depth=0):
            c = r.random()
            cands = readable + sorted(init)
            if depth >= 2 or c < 0.35 or not cands:
                if cands and r.random() < 0.7:
                    return var(r.choice(cands))
                return lit(r.randint(-2, 6))
            if c < 0.5:
                arrs = [(fn, fd) for (fn, fd), k in zip(formals, kinds) if k in ("arr1", "arr2")]
                if arrs:
                    fn, fd = r.choice(arrs)
                    return ("idx", fn, [lit(self.flb(d) + r.randint(0, E - 1)) for d in fd])
            return ("bin", r.choice(["Add", "Sub", "Mul", "Add"]), rexpr(depth + 1), rexpr(depth + 1))

        # initialise some scalar locals first
        loopvars = []
        for n in scal_locals:
            if r.random() < 0.55:
                stmts.append(("assign", n, [], rexpr()))
                init.add(n)
            else:
                loopvars.append(n)
        nst = r.randint(2, 5)
        for _ in range(nst):
            c = r.random()
            wr = [(fn, fd, k) for (fn, fd), k in zip(formals, kinds) if k != "sin"]
            if not wr:
                break
            fn, fd, k = r.choice(wr)
            if k == "sio":
                if c < 0.5:
                    stmts.append(("assign", fn, [], add(var(fn), lit(r.choice([1, 1, 2])))))
                elif c < 0.6 and loopvars and r.random() < 0.3:
                    # formal used as DO variable
                    stmts.append(("do", fn, lit(1), lit(3), lit(1), [("assign", loopvars[0], [], var(fn))]))
                    init.add(loopvars[0])
                else:
                    stmts.append(("assign", fn, [], rexpr()))
            else:
                if c < 0.45 and loopvars:
                    lv = r.choice(loopvars)
                    d0 = fd[0]
                    lo = self.flb(d0)
                    if r.random() < 0.2 and len(fd) == 1:
                        lohi = (("intr", "ILbound", [var(fn), lit(1)]),
                                add(("intr", "ILbound", [var(fn), lit(1)]), lit(E - 1)) if r.random() < 0.5 else
                                ("intr", "IMin", [("intr", "IUbound", [var(fn), lit(1)]),
                                                  add(("intr", "ILbound", [var(fn), lit(1)]), lit(E - 1))]))
                    else:
                        lohi = (lit(lo), lit(lo + E - 1))
                    ix = [var(lv)] + [lit(self.flb(d) + r.randint(0, E - 1)) for d in fd[1:]]
                    inner = [("assign", fn, ix, ("bin", "Add", rexpr(1), var(lv)))]
                    if r.random() < 0.3:
                        inner.insert(0, ("if", ("bin", "Gt", var(lv), lit(lo)), [("assign", fn, ix, lit(0))], []))
                    stmts.append(("do", lv, lohi[0], lohi[1], lit(1), inner))
                    init.add(lv)
                elif c < 0.55 and len(fd) == 1:
                    tgt = r.choice(readable + sorted(init)) if (readable + sorted(init)) else None
                    sio = [f2 for (f2, d2), k2 in zip(formals, kinds) if k2 == "sio"]
                    if sio:
                        stmts.append(("assign", r.choice(sio), [], ("intr", r.choice(["ISize", "IUbound", "ILbound"]), [var(fn), lit(1)])))
                else:
                    ix = [lit(self.flb(d) + r.randint(0, E - 1)) for d in fd]
                    stmts.append(("assign", fn, ix, rexpr()))
            if arr_locals and r.random() < 0.25:
                w = r.choice(arr_locals)
                stmts.append(("assign", w, [lit(2)], rexpr()))
                if wr:
                    fn2, fd2, k2 = r.choice(wr)
                    if k2 == "sio":
                        stmts.append(("assign", fn2, [], add(("idx", w, [lit(2)]), lit(1))))
        c = r.random()
        if c < 0.15:
            stmts.append(("return",))
        elif c < 0.18:
            return []                             # empty routine: the call is just removed
        elif c < 0.21:
            stmts.insert(0, ("return",))          # RETURN first: same
        return stmts

    @staticmethod
    def flb(d):
        return 1 if d[1] is None else d[1]

    def caller_body(self, actuals, scal, arrays1):
        r = self.r
        call = ("call", "s", actuals)
        pre, post = [], []
        for _ in range(r.randint(0, 2)):
            pre.append(("assign", r.choice(["t", "n"]) if r.random() < 0.3 else "t", [], add(var(r.choice(scal)), lit(r.randint(0, 2)))))
        for _ in range(r.randint(0, 2)):
            post.append(("assign", "t", [], add(var("t"), ("idx", r.choice(arrays1), [var("i")]))))
        c = r.random()
        if c < 0.6:
            mid = [call]
        elif c < 0.8:
            mid = [("do", "m", lit(1), lit(2), lit(1), [call])]
        else:
            mid = [("if", ("bin", "Gt", var("n"), lit(0)), [call], [("assign", "t", [], lit(0))])]
        return pre + mid + post

MALFORMED = ["nargs", "rank", "early-return", "exit", "stride", "save", "container-var", "two-returns"]


def break_case(case, how, r):
    """turn a valid case into one InlineTrans.validate must refuse."""
    from copy import deepcopy
    call = None
    for s in case["caller"]:
        if s[0] == "call":
            call = s
        elif s[0] == "do" and s[5] and s[5][0][0] == "call":
            call = s[5][0]
        elif s[0] == "if" and s[2] and s[2][0][0] == "call":
            call = s[2][0]
    acts = call[2]
    if how == "nargs":
        acts.append(("var", "t"))
    elif how == "rank":
        # element passed to an array formal, or whole 2-D array to a 1-D formal
        arrs = [p for p, (fn, fd) in enumerate(case["formals"]) if fd is not None]
        if arrs:
            p = arrs[0]
            acts[p] = ("idx", "a", [("var", "i")]) if r.random() < 0.5 or len(case["formals"][p][1]) == 2 else ("var", "d")
        else:
            case["formals"][0] = (case["formals"][0][0], [("assumed", None)])
            case["body"] = [("assign", case["formals"][0][0], [("lit", 1)], ("lit", 1))]
    elif how == "early-return":
        fn = case["formals"][0][0]
        cond = ("bin", "Gt", ("var", "t"), ("lit", 1)) if False else ("bin", "Gt", ("lit", 2), ("lit", 1))
        sc = [f for f, d in case["formals"] if d is None]
        if sc:
            cond = ("bin", "Gt", ("var", sc[0]), ("lit", 1))
        case["body"] = [("if", cond, [("return",)], [])] + [s for s in case["body"] if s[0] != "return"]
    elif how == "two-returns":
        case["body"] = [s for s in case["body"] if s[0] != "return"] + [("if", ("bin", "Gt", ("lit", 2), ("lit", 1)), [("return",)], []), ("return",)]
    elif how == "exit":
        lv = [n for n, b, _ in case["locals"] if not b]
        if not lv:
            case["locals"].append(("q", [], ""))
            lv = ["q"]
        case["body"] = case["body"] + [("do", lv[0], ("lit", 1), ("lit", 3), ("lit", 1),
                                       [("if", ("bin", "Gt", ("var", lv[0]), ("lit", 1)), [(r.choice(["exit", "cycle"]),)], [])])]
        case["body"] = [s for s in case["body"] if s[0] != "return"]
    elif how == "stride":
        arrs = [p for p, (fn, fd) in enumerate(case["formals"]) if fd is not None and len(fd) == 1]
        if arrs:
            acts[arrs[0]] = ("sec", "a", [("rng", ("lit", 1), ("lit", 7), ("lit", 2))])
        else:
            case["formals"][0] = (case["formals"][0][0], [("assumed", None)])
            case["body"] = [("assign", case["formals"][0][0], [("lit", 1)], ("lit", 1))]
            acts[0] = ("sec", "a", [("rng", ("lit", 1), ("lit", 7), ("lit", 2))])
    elif how == "save":
        case["locals"].append(("sv", [], "save"))
    elif how == "container-var":
        if not case["outer"]:
            case["outer"] = [("g", []), ("h", [(1, 6)])]
        case["locals"] = [l for l in case["locals"] if l[0] != "g"]
        if any(f == "g" for f, _ in case["formals"]):
            return
        sc = [f for (f, d), k in zip(case["formals"], case["kinds"]) if k == "sio"]
        if sc:
            case["body"] = [("assign", sc[0], [], ("var", "g"))] + case["body"]
        else:
            case["body"] = [("assign", "g", [], ("lit", 1))] + case["body"]
    case["malformed"] = how
