"""C07 harness library: caller/callee pairs in one module, Fortran text, extended serialiser
(Call nodes, array-section actuals, bounds inquiries on sections), an interpreter with TRUE Fortran
by-reference call semantics (formal bound to the location selected at the call; expression actuals
evaluated once; callee locals in a fresh frame per call, undefined until written), the reason-code
classifier and the Coq encoder of call sites.

Syntax = vlib.minifort tuples plus
  stmt   ("call", routine, [actual..])
  actual ("var", y)                      scalar variable or whole array
         ("idx", a, [e..])               array element
         ("sec", a, [dim..])             array section, dim = ("rng", lo|None, hi|None) | ("ix", e)
         any other expression            expression / literal actual
A case (dict):
  outer   : [(name, bounds)]   module-level variables            own : [(name, bounds)] caller locals
  caller  : [stmt]             body of the caller `run` (exactly one call to `s`)
  formals : [(name, dims)]     dims = None (scalar) | [("assumed", lb) | ("explicit", lb, ub)]
  locals  : [(name, bounds, flag)]   flag in ("", "save", "param")
  body    : [stmt]             callee body
"""
from vlib import core, minifort as mf


class NonConforming(Exception):
    """the ORIGINAL program is not a conforming Fortran program on this store (out-of-bounds access,
    read of an undefined callee local, write through an expression actual, DO variable redefined)."""


# ----------------------------------------------------------------------------- normalisation
def norm_e(e):
    k = e[0]
    if k == "un":
        x = norm_e(e[2])
        if e[1] == "Neg" and x[0] == "lit":
            return ("lit", -x[1])
        return ("un", e[1], x)
    if k == "bin":
        return ("bin", e[1], norm_e(e[2]), norm_e(e[3]))
    if k in ("idx", "intr"):
        return (k, e[1], [norm_e(x) for x in e[2]])
    if k == "sec":
        return ("sec", e[1], [norm_dim(d) for d in e[2]])
    return e


def norm_dim(d):
    if d[0] == "ix":
        return ("ix", norm_e(d[1]))
    step = tuple(norm_e(x) for x in d[3:])
    if step == (("lit", 1),):
        step = ()
    return ("rng", None if d[1] is None else norm_e(d[1]), None if d[2] is None else norm_e(d[2])) + step


def norm_s(ss):
    out = []
    for s in ss:
        k = s[0]
        if k == "assign":
            out.append(("assign", s[1], [norm_e(x) for x in s[2]], norm_e(s[3])))
        elif k == "if":
            out.append(("if", norm_e(s[1]), norm_s(s[2]), norm_s(s[3])))
        elif k == "do":
            out.append(("do", s[1], norm_e(s[2]), norm_e(s[3]), norm_e(s[4]), norm_s(s[5])))
        elif k == "call":
            out.append(("call", s[1], [norm_e(a) for a in s[2]]))
        else:
            out.append(s)
    return out


def canon_secs(ss, bnds):
    """section bounds equal to the declared bounds are the same as omitted ones."""
    def act(a):
        if a[0] != "sec" or a[1] not in bnds or len(bnds[a[1]]) != len(a[2]):
            return a
        ds = []
        for d, (lb, ub) in zip(a[2], bnds[a[1]]):
            if d[0] == "rng":
                st = tuple(d[3:])
                if st == (("lit", 1),):
                    st = ()
                # (bounds equal to the declared ones are only dropped for forward sections, as the reader does)
                d = ("rng", None if d[1] == ("lit", lb) else d[1], None if d[2] == ("lit", ub) else d[2]) + st
            ds.append(d)
        return ("sec", a[1], ds)
    out = []
    for s in ss:
        if s[0] == "call":
            out.append(("call", s[1], [act(a) for a in s[2]]))
        elif s[0] == "if":
            out.append(("if", s[1], canon_secs(s[2], bnds), canon_secs(s[3], bnds)))
        elif s[0] == "do":
            out.append(("do",) + tuple(s[1:5]) + (canon_secs(s[5], bnds),))
        else:
            out.append(s)
    return out


# ----------------------------------------------------------------------------- Fortran text
def actual_to_fortran(a):
    if a[0] == "sec":
        ds = []
        for d in a[2]:
            if d[0] == "ix":
                ds.append(mf.expr_to_fortran(d[1]))
            else:
                ds.append("%s:%s" % ("" if d[1] is None else mf.expr_to_fortran(d[1]),
                                     "" if d[2] is None else mf.expr_to_fortran(d[2])) +
                          (":" + mf.expr_to_fortran(d[3]) if len(d) > 3 else ""))
        return "%s(%s)" % (a[1], ", ".join(ds))
    return mf.expr_to_fortran(a)


def stmts_to_fortran(ss, ind="  "):
    out = []
    for s in ss:
        k = s[0]
        if k == "call":
            out.append("%scall %s(%s)" % (ind, s[1], ", ".join(actual_to_fortran(a) for a in s[2])))
        elif k == "if":
            out.append("%sif (%s) then" % (ind, mf.expr_to_fortran(s[1])))
            out += stmts_to_fortran(s[2], ind + "  ")
            if s[3]:
                out.append(ind + "else")
                out += stmts_to_fortran(s[3], ind + "  ")
            out.append(ind + "end if")
        elif k == "do":
            out.append("%sdo %s = %s, %s, %s" % (ind, s[1], mf.expr_to_fortran(s[2]), mf.expr_to_fortran(s[3]),
                                                mf.expr_to_fortran(s[4])))
            out += stmts_to_fortran(s[5], ind + "  ")
            out.append(ind + "end do")
        else:
            out += mf.stmts_to_fortran([s], ind)
    return out


def decl_line(name, bounds, extra=""):
    if bounds:
        return "  integer%s :: %s(%s)" % (extra, name, ", ".join("%d:%d" % b for b in bounds))
    return "  integer%s :: %s" % (extra, name)


def formal_decl(name, dims):
    if dims is None:
        return "  integer :: %s" % name
    ds = []
    for d in dims:
        if d[0] == "assumed":
            ds.append(":" if d[1] is None else "%d:" % d[1])
        else:
            ds.append("%d:%d" % (d[1], d[2]))
    return "  integer :: %s(%s)" % (name, ", ".join(ds))


def case_to_fortran(case):
    L = ["module m"]
    for n, b in case["outer"]:
        L.append(decl_line(n, b))
    L.append("contains")
    L.append("subroutine run()")
    for n, b in case["own"]:
        L.append(decl_line(n, b))
    L += stmts_to_fortran(case["caller"])
    L.append("end subroutine run")
    L.append("subroutine s(%s)" % ", ".join(n for n, _ in case["formals"]))
    for n, d in case["formals"]:
        L.append(formal_decl(n, d))
    for n, b, flag in case["locals"]:
        if flag == "save":
            L.append(decl_line(n, b) + " = 4")
        elif flag == "param":
            L.append("  integer, parameter :: %s = 3" % n)
        else:
            L.append(decl_line(n, b))
    L += stmts_to_fortran(case["body"])
    L.append("end subroutine s")
    L.append("end module m")
    return "\n".join(L) + "\n"


# ----------------------------------------------------------------------------- extended serialiser
def _inq_on_section(node):
    """LBOUND/UBOUND/SIZE(a(ranges..), d) -> equivalent MiniFortran expression (a section has lower
    bound 1 and upper bound = size = max(0, hi-lo+1) in each ranged dimension)."""
    from psyclone.psyir import nodes as N
    nm = node.intrinsic.name
    arr = node.arguments[0]
    if len(node.arguments) != 2 or node.argument_names[0] or (node.argument_names[1] or "dim").lower() != "dim":
        raise mf.OutOfSubset("inquiry without dim")
    d = expr_x(node.arguments[1])
    if d[0] != "lit":
        raise mf.OutOfSubset("inquiry with non-literal dim")
    rngs = [c for c in arr.indices if isinstance(c, N.Range)]
    if d[1] < 1 or d[1] > len(rngs):
        raise mf.OutOfSubset("inquiry dim out of range")
    r = rngs[d[1] - 1]
    if nm == "LBOUND":
        return ("lit", 1)
    lo, hi = expr_x(r.start), expr_x(r.stop)
    return ("intr", "IMax", [("lit", 0), ("bin", "Add", ("bin", "Sub", hi, lo), ("lit", 1))])


def expr_x(node):
    """minifort.expr_from_psyir extended with inquiries on array sections."""
    from psyclone.psyir import nodes as N
    if isinstance(node, N.IntrinsicCall) and node.intrinsic.name in ("LBOUND", "UBOUND", "SIZE") \
            and isinstance(node.arguments[0], N.ArrayReference) \
            and any(isinstance(c, N.Range) for c in node.arguments[0].indices):
        return _inq_on_section(node)
    if isinstance(node, N.ArrayReference):
        ix = []
        for c in node.indices:
            if isinstance(c, N.Range):
                raise mf.OutOfSubset("array range")
            ix.append(expr_x(c))
        return ("idx", node.name.lower(), ix)
    if isinstance(node, N.UnaryOperation):
        o = node.operator.name
        e = expr_x(node.children[0])
        if o == "MINUS":
            return ("un", "Neg", e)
        if o == "PLUS":
            return e
        if o == "NOT":
            return ("un", "Not", e)
    if isinstance(node, N.BinaryOperation):
        o = node.operator.name
        if o == "REM":
            return ("intr", "IMod", [expr_x(c) for c in node.children])
        if o in mf.BINOPS:
            return ("bin", mf.BINOPS[o], expr_x(node.children[0]), expr_x(node.children[1]))
    if isinstance(node, N.IntrinsicCall):
        nm = node.intrinsic.name
        named = [a for a in node.argument_names if a]
        dim_only = (nm in ("LBOUND", "UBOUND", "SIZE") and len(node.arguments) == 2 and
                    [a.lower() for a in named] == ["dim"] and node.argument_names[0] is None)
        if nm in mf.INTRS and (not named or dim_only):
            args = [expr_x(c) if not (i == 0 and nm in ("LBOUND", "UBOUND", "SIZE")) else
                    _inq_head(c) for i, c in enumerate(node.arguments)]
            return ("intr", mf.INTRS[nm], args)
    return mf.expr_from_psyir(node)


def _inq_head(c):
    from psyclone.psyir import nodes as N
    if type(c) is not N.Reference:
        raise mf.OutOfSubset("inquiry on %s" % type(c).__name__)
    return ("var", c.name.lower())


def actual_x(node):
    from psyclone.psyir import nodes as N
    if isinstance(node, N.ArrayReference) and any(isinstance(c, N.Range) for c in node.indices):
        dims = []
        for pos, c in enumerate(node.indices):
            if isinstance(c, N.Range):
                lo = None if node.is_lower_bound(pos) else expr_x(c.start)
                hi = None if node.is_upper_bound(pos) else expr_x(c.stop)
                if not (isinstance(c.step, N.Literal) and c.step.value == "1"):
                    dims.append(("rng", lo, hi, expr_x(c.step)))
                else:
                    dims.append(("rng", lo, hi))
            else:
                dims.append(("ix", expr_x(c)))
        return ("sec", node.name.lower(), dims)
    return expr_x(node)


def stmts_x(nodes):
    from psyclone.psyir import nodes as N
    out = []
    for n in nodes:
        if isinstance(n, N.Call) and not isinstance(n, N.IntrinsicCall):
            if any(n.argument_names):
                raise mf.OutOfSubset("named argument")
            out.append(("call", n.routine.name.lower(), [actual_x(a) for a in n.arguments]))
        elif isinstance(n, N.Assignment):
            lhs = n.lhs
            if isinstance(lhs, N.ArrayReference):
                e = expr_x(lhs)
                out.append(("assign", e[1], e[2], expr_x(n.rhs)))
            elif type(lhs) is N.Reference:
                out.append(("assign", lhs.name.lower(), [], expr_x(n.rhs)))
            else:
                raise mf.OutOfSubset("lhs %s" % type(lhs).__name__)
        elif isinstance(n, N.IfBlock):
            out.append(("if", expr_x(n.condition), stmts_x(n.if_body.children),
                        stmts_x(n.else_body.children) if n.else_body else []))
        elif isinstance(n, N.Loop):
            out.append(("do", n.variable.name.lower(), expr_x(n.start_expr), expr_x(n.stop_expr),
                        expr_x(n.step_expr), stmts_x(n.loop_body.children)))
        else:
            out.append(mf.stmt_from_psyir(n))
    return out


# ----------------------------------------------------------------------------- interpreter (by reference)
class State:
    def __init__(self, vals, bnds):
        self.vals = dict(vals)       # (name, idx) -> int ; callee locals live under ("name#k", idx)
        self.bnds = dict(bnds)       # declared bounds of caller / module arrays (and locals "name#k")
        self.fuel = 20000
        self.ncall = 0
        self.strict = True           # bounds / undefined checks (original program only)


class Frame:
    """name resolution of one routine activation.  Caller frame: identity."""

    def __init__(self, binds=None):
        self.b = binds               # None = caller frame

    def resolve(self, S, name, ix, write=False):
        if self.b is None:
            self._check(S, name, ix)
            return (name, ix)
        if name not in self.b:
            raise NonConforming("callee uses unknown name " + name)
        k = self.b[name]
        if k[0] == "var":            # scalar variable or (identity-indexed) whole thing
            self._check(S, k[1], ix)
            return (k[1], ix)
        if k[0] == "loc":
            if ix:
                raise NonConforming("scalar formal indexed")
            return k[1]
        if k[0] == "tmp":
            if write:
                raise NonConforming("write through an expression actual")
            if ix:
                raise NonConforming("scalar formal indexed")
            return (k[1], ())
        if k[0] == "view":           # ("view", gname, dims, fb) dims: ("fix", v) | ("off", o); fb: formal bounds
            _, g, dims, fb = k
            if len(ix) != len(fb):
                raise NonConforming("rank")
            if S.strict:
                for v, (lb, ub) in zip(ix, fb):
                    if not lb <= v <= ub:
                        raise NonConforming("formal index out of bounds")
            out, j = [], 0
            for d in dims:
                if d[0] == "fix":
                    out.append(d[1])
                elif d[0] == "lin":              # strided section: x(k) is a(lo + (k - lb_x) * stride)
                    out.append(d[1] + (ix[j] - d[3]) * d[2])
                    j += 1
                else:
                    out.append(ix[j] + d[1])
                    j += 1
            self._check(S, g, tuple(out))
            return (g, tuple(out))
        raise ValueError(k)

    @staticmethod
    def _check(S, name, ix):
        if not S.strict:
            return
        b = S.bnds.get(name)
        if b is None:
            b = []
        if len(ix) != len(b):
            raise NonConforming("rank mismatch on " + name)
        for v, (lb, ub) in zip(ix, b):
            if not lb <= v <= ub:
                raise NonConforming("index out of bounds on " + name)

    def bounds(self, S, name):
        if self.b is None:
            return S.bnds.get(name, [])
        k = self.b.get(name)
        if k is None:
            raise NonConforming("unknown " + name)
        if k[0] == "view":
            return k[3]
        if k[0] == "var":
            return S.bnds.get(k[1], [])
        return []


def ev(e, fr, S):
    k = e[0]
    if k == "lit":
        return e[1]
    if k in ("var", "idx"):
        vs = tuple(ev(x, fr, S) for x in e[2]) if k == "idx" else ()
        loc = fr.resolve(S, e[1], vs)
        if loc not in S.vals:
            if S.strict and "#" in loc[0]:
                raise NonConforming("read of undefined callee local " + loc[0])
            return 0
        return S.vals[loc]
    if k == "un":
        a = ev(e[2], fr, S)
        return -a if e[1] == "Neg" else (1 if a == 0 else 0)
    if k == "bin":
        a = ev(e[2], fr, S)
        b = ev(e[3], fr, S)
        o = e[1]
        if o == "Div":
            if b == 0:
                raise mf.FaultExc("div0")
            return mf._quot(a, b)
        if o == "Pow":
            if b < 0:
                raise mf.FaultExc("negexp")
            return a ** b
        return {"Add": a + b, "Sub": a - b, "Mul": a * b, "Eq": int(a == b), "Ne": int(a != b), "Lt": int(a < b),
                "Le": int(a <= b), "Gt": int(a > b), "Ge": int(a >= b), "And": int(a != 0 and b != 0),
                "Or": int(a != 0 or b != 0)}[o]
    if k == "intr":
        f = e[1]
        if f in ("ILbound", "IUbound", "ISize"):
            if not e[2] or e[2][0][0] != "var":
                raise mf.FaultExc("inquiry")
            vs = [ev(x, fr, S) for x in e[2][1:]]
            bs = fr.bounds(S, e[2][0][1])
            if len(vs) != 1 or vs[0] < 1 or vs[0] - 1 >= len(bs):
                raise mf.FaultExc("inquiry")
            lb, ub = bs[vs[0] - 1]
            return lb if f == "ILbound" else ub if f == "IUbound" else max(0, ub - lb + 1)
        vs = [ev(x, fr, S) for x in e[2]]
        if f == "IMin" and vs:
            return min(vs)
        if f == "IMax" and vs:
            return max(vs)
        if f == "IMod" and len(vs) == 2:
            if vs[1] == 0:
                raise mf.FaultExc("mod0")
            return mf._rem(vs[0], vs[1])
        if f == "IAbs" and len(vs) == 1:
            return abs(vs[0])
        if f == "ISign" and len(vs) == 2:
            return abs(vs[0]) if vs[1] >= 0 else -abs(vs[0])
        raise mf.FaultExc("intr")
    raise ValueError(e)


def bind_call(case, actuals, fr, S):
    """Fortran argument association at the call: returns the callee Frame."""
    formals = case["formals"]
    if len(formals) != len(actuals):
        raise NonConforming("argument count")
    S.ncall += 1
    tag = "#%d" % S.ncall
    b = {}
    for (fn, fdims), a in zip(formals, actuals):
        if fdims is None:                       # scalar formal
            if a[0] == "var":
                if fr.bounds(S, a[1]):
                    raise NonConforming("array passed to scalar formal")
                b[fn] = ("loc", fr.resolve(S, a[1], ()))
            elif a[0] == "idx":
                vs = tuple(ev(x, fr, S) for x in a[2])
                b[fn] = ("loc", fr.resolve(S, a[1], vs))
            elif a[0] == "sec":
                raise NonConforming("section passed to scalar formal")
            else:
                v = ev(a, fr, S)
                S.vals[("%s%s!" % (fn, tag), ())] = v
                b[fn] = ("tmp", "%s%s!" % (fn, tag))
            continue
        # array formal
        if a[0] == "var":
            ab = fr.bounds(S, a[1])
            if not ab:
                raise NonConforming("scalar passed to array formal")
            if fr.b is not None:
                raise NonConforming("nested calls unsupported")
            dims = [("rng", None, None)] * len(ab)
            g = a[1]
        elif a[0] == "sec":
            if fr.b is not None:
                raise NonConforming("nested calls unsupported")
            g, dims = a[1], a[2]
            ab = fr.bounds(S, g)
            if len(ab) != len(dims):
                raise NonConforming("rank")
        else:
            raise NonConforming("non-array actual for array formal")
        vd, ext = [], []
        for d, (lb, ub) in zip(dims, ab):
            if d[0] == "ix":
                v = ev(d[1], fr, S)
                if S.strict and not lb <= v <= ub:
                    raise NonConforming("section index out of bounds")
                vd.append(("fix", v))
            else:
                lo = lb if d[1] is None else ev(d[1], fr, S)
                hi = ub if d[2] is None else ev(d[2], fr, S)
                step = ev(d[3], fr, S) if len(d) > 3 else 1
                if step == 0:
                    raise NonConforming("zero stride")
                n_el = max(0, mf._quot(hi - lo + step, step))
                if S.strict and n_el > 0:
                    last = lo + (n_el - 1) * step
                    if not (lb <= lo <= ub and lb <= last <= ub):
                        raise NonConforming("section out of bounds")
                vd.append(("rng", lo, step))
                ext.append(n_el)
        if len(ext) != len(fdims):
            raise NonConforming("rank mismatch")
        fb, vdims, j = [], [], 0
        for d in vd:
            if d[0] == "fix":
                vdims.append(d)
                continue
            fd = fdims[j]
            flb = 1 if fd[1] is None else fd[1]
            if fd[0] == "assumed":
                fb.append((flb, flb + ext[j] - 1))
            else:
                if S.strict and fd[2] - flb + 1 > ext[j]:
                    raise NonConforming("explicit-shape formal larger than actual")
                fb.append((flb, fd[2]))
            vdims.append(("off", d[1] - flb) if d[2] == 1 else ("lin", d[1], d[2], flb))
            j += 1
        b[fn] = ("view", g, vdims, fb)
    for ln, lb, flag in case["locals"]:
        u = ln + tag
        b[ln] = ("var", u)
        S.bnds[u] = list(lb)
        if flag in ("save", "param"):
            S.vals[(u, ())] = 4 if flag == "save" else 3
    return Frame(b)


def run(stmts, fr, S, case):
    for st in stmts:
        S.fuel -= 1
        if S.fuel <= 0:
            raise mf.OutOfFuel()
        k = st[0]
        if k == "assign":
            vs = tuple(ev(x, fr, S) for x in st[2])
            v = ev(st[3], fr, S)
            S.vals[fr.resolve(S, st[1], vs, write=True)] = v
        elif k == "if":
            c = ev(st[1], fr, S)
            ctl = run(st[2] if c != 0 else st[3], fr, S, case)
            if ctl != "N":
                return ctl
        elif k == "do":
            lo, hi, stp = ev(st[2], fr, S), ev(st[3], fr, S), ev(st[4], fr, S)
            if stp == 0:
                raise mf.FaultExc("zerostep")
            n = max(0, mf._quot(hi - lo + stp, stp))
            x = fr.resolve(S, st[1], (), write=True)
            done = False
            for kk in range(n):
                S.vals[x] = lo + kk * stp
                ctl = run(st[5], fr, S, case)
                if S.strict and S.vals[x] != lo + kk * stp:
                    raise NonConforming("DO variable redefined in its loop")
                if ctl == "X":
                    done = True
                    break
                if ctl == "R":
                    return "R"
            if not done:
                S.vals[x] = lo + n * stp
        elif k == "exit":
            return "X"
        elif k == "cycle":
            return "C"
        elif k == "return":
            return "R"
        elif k == "call":
            if st[1] != "s":
                raise NonConforming("unknown routine")
            cf = bind_call(case, st[2], fr, S)
            ctl = run(case["body"], cf, S, case)
            if ctl in ("X", "C"):
                raise NonConforming("EXIT/CYCLE leaves the routine")
        elif k in ("region", "dir"):
            ctl = run(st[2], fr, S, case)
            if ctl != "N":
                return ctl
        else:
            raise ValueError(st)
    return "N"


def interp(case, stmts, vals, bnds, strict):
    """-> ("ok", {loc: v} restricted to caller-visible names) | ("fault", why) | ("fuel",) ;
    raises NonConforming (strict only)."""
    S = State(vals, bnds)
    S.strict = strict
    try:
        run(stmts, Frame(None), S, case)
    except mf.FaultExc as e:
        return ("fault", str(e))
    except mf.OutOfFuel:
        return ("fuel",)
    vis = {n for n, _ in case["outer"] + case["own"]}
    return ("ok", {l: v for l, v in S.vals.items() if l[0] in vis})


def caller_bounds(case):
    return {n: list(b) for n, b in case["outer"] + case["own"]}


# ----------------------------------------------------------------------------- implementation
def run_impl(case, text=None):
    """-> dict(verdict="accepted"|"refused"|"crash"|"oos", msg, inlined=[stmt], new_names=[..], orig=[stmt])"""
    from psyclone.psyir.frontend.fortran import FortranReader
    from psyclone.psyir.nodes import Call, Routine, IntrinsicCall
    from psyclone.psyir.transformations import InlineTrans, TransformationError
    text = text or case_to_fortran(case)
    psy = FortranReader().psyir_from_source(text)
    caller = [r for r in psy.walk(Routine) if r.name.lower() == "run"][0]
    res = {"text": text}
    res["orig"] = norm_s(stmts_x(caller.children))
    before = set(caller.symbol_table.symbols_dict.keys())
    res["own_names"] = [n.lower() for n in caller.symbol_table.symbols_dict.keys()]
    outer_names, tab = [], caller.symbol_table.parent_symbol_table()
    while tab is not None:
        outer_names += [n.lower() for n in tab.symbols_dict.keys()]
        tab = tab.parent_symbol_table()
    res["outer_names"] = outer_names
    calls = [c for c in caller.walk(Call) if not isinstance(c, IntrinsicCall)]
    try:
        InlineTrans().apply(calls[0])
    except TransformationError as e:
        res.update(verdict="refused", msg=str(e.value))
        return res
    except Exception as e:                                    # noqa
        res.update(verdict="crash", msg="%s: %s" % (type(e).__name__, e))
        return res
    try:
        res["inlined"] = norm_s(stmts_x(caller.children))
    except mf.OutOfSubset as e:
        res.update(verdict="oos", msg=str(e))
        return res
    res["verdict"] = "accepted"
    res["msg"] = ""
    res["table"] = [n.lower() for n in caller.symbol_table.symbols_dict.keys()]
    res["new_names"] = [n.lower() for n in caller.symbol_table.symbols_dict.keys() if n not in before]
    return res


REFUSAL_CLASSES = [
    ("Return statements", "return"), ("CodeBlocks", "codeblock"), ("named argument", "named-arg"),
    ("UnknownInterface", "unknown-interface"), ("static (Fortran SAVE)", "static"), ("UnsupportedType", "unsupported-type"),
    ("cannot be added to the table", "clash"), ("parent container", "container-var"),
    ("cannot be found in any of the containers", "unresolved"), ("number of arguments", "nargs"),
    ("is not a Reference or a Literal", "array-formal-expr-actual"), ("is unknown", "actual-type-unknown"),
    ("reshapes an argument", "rank"), ("indirect access", "indirect-range"), ("non-unit stride", "stride"),
    ("Failed to find the source", "no-source"),
]


def refusal_class(msg):
    for pat, c in REFUSAL_CLASSES:
        if pat in msg:
            return c
    return "other"


# ----------------------------------------------------------------------------- static analysis / reasons
def e_names(e, acc):
    k = e[0]
    if k == "sec":
        acc.add(e[1])
        for d in e[2]:
            for x in d[1:]:
                if x is not None:
                    e_names(x, acc)
        return acc
    return mf.expr_names(e, acc)


def body_writes(ss, acc=None):
    """names assigned / used as DO variable."""
    acc = set() if acc is None else acc
    for s in ss:
        if s[0] == "assign":
            acc.add(s[1])
        elif s[0] == "if":
            body_writes(s[2], acc)
            body_writes(s[3], acc)
        elif s[0] == "do":
            acc.add(s[1])
            body_writes(s[5], acc)
        elif s[0] in ("region", "dir"):
            body_writes(s[2], acc)
    return acc


def do_vars(ss, acc=None):
    acc = set() if acc is None else acc
    for s in ss:
        if s[0] == "do":
            acc.add(s[1])
            do_vars(s[5], acc)
        elif s[0] == "if":
            do_vars(s[2], acc)
            do_vars(s[3], acc)
    return acc


def inquiry_heads(ss, acc=None):
    acc = set() if acc is None else acc

    def ex(e):
        if e[0] == "intr":
            if e[1] in ("ILbound", "IUbound", "ISize") and e[2] and e[2][0][0] == "var":
                acc.add(e[2][0][1])
                for x in e[2][1:]:
                    ex(x)
            else:
                for x in e[2]:
                    ex(x)
        elif e[0] == "idx":
            for x in e[2]:
                ex(x)
        elif e[0] == "un":
            ex(e[2])
        elif e[0] == "bin":
            ex(e[2])
            ex(e[3])
    for s in ss:
        if s[0] == "assign":
            for x in s[2]:
                ex(x)
            ex(s[3])
        elif s[0] == "if":
            ex(s[1])
            inquiry_heads(s[2], acc)
            inquiry_heads(s[3], acc)
        elif s[0] == "do":
            for x in s[2:5]:
                ex(x)
            inquiry_heads(s[5], acc)
    return acc


def find_call(ss):
    for s in ss:
        if s[0] == "call":
            return s
        if s[0] == "if":
            r = find_call(s[2]) or find_call(s[3])
            if r:
                return r
        if s[0] == "do":
            r = find_call(s[5])
            if r:
                return r
    return None


def reasons(case):
    """Reason codes (gap between what InlineTrans accepts and the proved-safe condition) that apply
    to this call site, computed statically.  Order = reporting priority."""
    call = find_call(case["caller"])
    formals = case["formals"]
    actuals = call[2]
    out = []
    if len(formals) != len(actuals):
        return out
    wr_formals = body_writes(case["body"])
    # caller names written by the callee (through formals): the head variable of the actual
    written = set()
    for (fn, fd), a in zip(formals, actuals):
        if fn in wr_formals and a[0] in ("var", "idx", "sec"):
            written.add(a[1])
    idx_names, expr_names_, sec_names = set(), set(), set()
    for (fn, fd), a in zip(formals, actuals):
        if a[0] == "idx":
            for x in a[2]:
                e_names(x, idx_names)
        elif a[0] == "sec":
            for d in a[2]:
                for x in d[1:]:
                    if x is not None:
                        e_names(x, sec_names)
        elif a[0] != "var":
            e_names(a, expr_names_)
    if idx_names & written:
        out.append("actual-index-modified-by-callee")
    if expr_names_ & written:
        out.append("expression-actual-reevaluated")
    if sec_names & written:
        out.append("section-bound-modified-by-callee")
    fnames = {fn for fn, _ in formals}
    if do_vars(case["body"]) & fnames:
        out.append("formal-is-loop-variable")
    inq = inquiry_heads(case["body"]) & {fn for fn, fd in formals if fd is not None}
    if inq:
        out.append("bounds-inquiry-on-formal")
    own = {n for n, _ in case["own"]}
    outer = {n for n, _ in case["outer"]}
    if any(ln in outer and ln not in own for ln, _, _ in case["locals"]):
        out.append("local-captures-container-variable")
    return out


# ----------------------------------------------------------------------------- Coq encoding
def dims_of_actual(case, a):
    """array actual -> list of Coq adim terms, or None when not representable."""
    bnds = caller_bounds(case)
    if a[0] == "var":
        return [("full", lb) for lb, _ in bnds.get(a[1], [])]
    out = []
    for d, (lb, ub) in zip(a[2], bnds.get(a[1], [])):
        if d[0] == "ix":
            out.append(("fix", d[1]))
        elif d[1] is None or d[1] == ("lit", lb):
            out.append(("full", lb))
        else:
            out.append(("from", d[1]))
    return out


def in_model_fragment(case):
    """what coq/C07/Model.v can represent (everything else is evaluated by the harness only)."""
    call = find_call(case["caller"])
    fnames = {fn for fn, fd in case["formals"]}
    if inquiry_heads(case["body"]):
        return False, "inquiry-in-callee"
    bnds = caller_bounds(case)
    for a in call[2]:
        if a[0] == "sec" and a[1] not in bnds:
            return False, "unknown-array"
    for (fn, fd) in case["formals"]:
        if fd is not None and any(d[1] is not None and d[1] < 0 for d in fd):
            return False, "negative-lower-bound"
    return True, ""


def encode_callsite(case, nm, own_names=None, outer_names=None):
    """-> Coq term of type callsite (coq/C07/Model.v).  own_names / outer_names: the names really
    present in the calling routine's symbol table / in its enclosing scopes."""
    call = find_call(case["caller"])
    bnds = caller_bounds(case)
    fs = []
    for fn, fd in case["formals"]:
        lbs = [] if fd is None else [(1 if d[1] is None else d[1]) for d in fd]
        fs.append("(%d%%nat, [%s])" % (nm.get(fn), "; ".join("(%d)" % z for z in lbs)))
    acts = []
    for a in call[2]:
        if a[0] == "var":
            if bnds.get(a[1]):
                acts.append("(AArr %d%%nat [%s] true)" % (nm.get(a[1]), "; ".join("DFull (%d)" % lb for lb, _ in bnds[a[1]])))
            else:
                acts.append("(AVar %d%%nat)" % nm.get(a[1]))
        elif a[0] == "idx":
            acts.append("(AElem %d%%nat [%s])" % (nm.get(a[1]), "; ".join(mf.expr_to_coq(x, nm) for x in a[2])))
        elif a[0] == "sec":
            ds = []
            for k, v in dims_of_actual(case, a):
                ds.append("DFull (%d)" % v if k == "full" else "D%s %s" % ("Fix" if k == "fix" else "From", mf.expr_to_coq(v, nm)))
            acts.append("(AArr %d%%nat [%s] %s)" % (nm.get(a[1]), "; ".join(ds), "true" if all(len(d) == 3 or d[3] == ("lit", 1) for d in a[2] if d[0] == "rng") else "false"))
        else:
            acts.append("(AExpr %s)" % mf.expr_to_coq(a, nm))
    locs = "; ".join("(%d%%nat, %s)" % (nm.get(ln), "true" if flag == "save" else "false") for ln, _, flag in case["locals"])
    if own_names is None:
        own_names = [n for n, _ in case["own"]] + ["run"]
    if outer_names is None:
        outer_names = [n for n, _ in case["outer"]] + ["run", "s"]
    own = "; ".join("%d%%nat" % nm.get(n) for n in own_names)
    outer = "; ".join("%d%%nat" % nm.get(n) for n in outer_names)
    return "(mkCS [%s] [%s] %s [%s] [%s] [%s])" % ("; ".join(fs), locs, mf.stmts_to_coq(case["body"], nm),
                                                   "; ".join(acts), own, outer)


def pair_renaming(locals_, new_names):
    """which symbol merged into the caller is which callee local: an unrenamed local keeps its name;
    a renamed one is `<name>_<k>` (next_available_name).  Independent of symbol-table order.
    -> [(local, new_name)] in the order of `locals_`, or None when no unambiguous pairing exists."""
    import re
    left = list(new_names)
    out = {}
    for l in locals_:
        if l in left:
            out[l] = l
            left.remove(l)
    for l in locals_:
        if l in out:
            continue
        cands = [n for n in left if re.fullmatch(re.escape(l) + r"_\d+", n)]
        if len(cands) != 1:
            return None
        out[l] = cands[0]
        left.remove(cands[0])
    if left:
        return None
    return [(l, out[l]) for l in locals_]


def splice(caller, repl):
    """replace the (first) call statement of `caller` by the statement list `repl`."""
    out, done = [], [False]

    def go(ss):
        res = []
        for s in ss:
            if done[0]:
                res.append(s)
            elif s[0] == "call":
                done[0] = True
                res.extend(repl)
            elif s[0] == "if":
                th = go(s[2])
                el = go(s[3])
                res.append(("if", s[1], th, el))
            elif s[0] == "do":
                res.append(("do",) + tuple(s[1:5]) + (go(s[5]),))
            else:
                res.append(s)
        return res
    out = go(caller)
    return out


def extract_inlined(orig, inl):
    """Given the caller before and after inlining (same structure around the call), return the
    statements that replaced the call, or None when the structures do not line up."""
    i = 0
    while i < len(orig) and i < len(inl) and orig[i] == inl[i] and orig[i][0] != "call":
        i += 1
    if i >= len(orig):
        return None
    o = orig[i]
    if o[0] == "call":
        tail = len(orig) - i - 1
        if tail and inl[len(inl) - tail:] != orig[i + 1:]:
            return None
        if len(inl) - tail < i:
            return None
        return inl[i:len(inl) - tail]
    if i >= len(inl) or inl[i][0] != o[0]:
        return None
    n = inl[i]
    if orig[i + 1:] != inl[i + 1:]:
        return None
    if o[0] == "if":
        if o[1] != n[1]:
            return None
        if find_call(o[2]):
            return extract_inlined(o[2], n[2]) if o[3] == n[3] else None
        return extract_inlined(o[3], n[3]) if o[2] == n[2] else None
    if o[0] == "do":
        if o[1:5] != n[1:5]:
            return None
        return extract_inlined(o[5], n[5])
    return None
