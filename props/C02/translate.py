"""C02 translator: regenerates coq/C02/Gen.v from the working tree under test (core.REPO).

Dynamic part (import psyclone from $VERIF_REPO/src): for every PSyIR unary/binary operator the
Fortran spelling `FortranWriter.get_operator(op)` and `precedence(spelling)`.
Static part (ast over src/psyclone/psyir/backend/fortran.py): (a) the `fortran_precedence`
list literal of precedence() is read and cross-checked against the dynamic table; (b) the
normalised AST of binaryoperation_node / unaryoperation_node is hashed: a known hash selects the
bracket rules (unchanged snapshot -> rules_orig, props/C02/fix.patch -> rules_patch, the complete
repair -> r_un_left); an unknown
hash is NOTICED (shape_known := false) and the rules are then determined by probing the writer on
discriminating trees -- the correspondence of check.py decides whether the model still fits.
Fail-closed: unknown operators, operators without spelling/precedence, an unreadable precedence
table or missing methods raise TranslateError.
"""
import ast
import hashlib
import sys

from vlib import core

UN = {"Neg": "MINUS", "Pos": "PLUS", "Not": "NOT"}
BIN = {"Add": "ADD", "Sub": "SUB", "Mul": "MUL", "Div": "DIV", "Pow": "POW", "Eq": "EQ", "Ne": "NE",
       "Lt": "LT", "Le": "LE", "Gt": "GT", "Ge": "GE", "And": "AND", "Or": "OR", "Eqv": "EQV",
       "Neqv": "NEQV"}
NO_FORTRAN_OPERATOR = {"REM"}      # BinaryOperation.Operator.REM: the writer raises VisitorError

class TranslateError(Exception):
    pass


def _strip_doc(fn):
    body = fn.body
    if body and isinstance(body[0], ast.Expr) and isinstance(getattr(body[0], "value", None), ast.Constant) \
            and isinstance(body[0].value.value, str):
        fn.body = body[1:]
    return fn


def method_hash(src_text, names=("binaryoperation_node", "unaryoperation_node")):
    tree = ast.parse(src_text)
    cls = [n for n in tree.body if isinstance(n, ast.ClassDef) and n.name == "FortranWriter"]
    if len(cls) != 1:
        raise TranslateError("class FortranWriter not found in fortran.py")
    dumps = []
    for name in names:
        fns = [n for n in cls[0].body if isinstance(n, ast.FunctionDef) and n.name == name]
        if len(fns) != 1:
            raise TranslateError("method FortranWriter.%s not found" % name)
        dumps.append(ast.dump(_strip_doc(fns[0]), include_attributes=False))
    return hashlib.sha256("\n".join(dumps).encode()).hexdigest()


def static_precedence(src_text):
    """{operator string: index} from the `fortran_precedence = [[...], ...]` literal."""
    tree = ast.parse(src_text)
    fns = [n for n in tree.body if isinstance(n, ast.FunctionDef) and n.name == "precedence"]
    if len(fns) != 1:
        raise TranslateError("function precedence() not found")
    table = None
    for node in ast.walk(fns[0]):
        if isinstance(node, ast.Assign) and len(node.targets) == 1 and \
                isinstance(node.targets[0], ast.Name) and node.targets[0].id == "fortran_precedence":
            table = node.value
    if not isinstance(table, ast.List):
        raise TranslateError("fortran_precedence list literal not found in precedence()")
    out = {}
    for idx, sub in enumerate(table.elts):
        if not isinstance(sub, ast.List):
            raise TranslateError("fortran_precedence: element %d is not a list literal" % idx)
        for elt in sub.elts:
            if not (isinstance(elt, ast.Constant) and isinstance(elt.value, str)):
                raise TranslateError("fortran_precedence: non-string entry at level %d" % idx)
            if elt.value in out:
                raise TranslateError("fortran_precedence: %r listed twice" % elt.value)
            out[elt.value] = idx
    return out


# sha256 of the normalised AST (docstrings removed) of the two methods, for the two known source states
SHAPE_ORIG = "21043ebed9599fffa02feb7183ff24eba5b2916efb481e0233c1067bbc94e33a"    # unchanged methods
SHAPE_PATCH = "8426306fa795a050b531394dd1848f2d95e50ac294ae215d8e435e1e34289f6f"   # snapshot + props/C02/fix.patch
SHAPE_COMPLETE = "5cdcc117378bce64f379345e1676e607b335b0e12f28738dfa5f48a730d50b1a"   # snapshot + props/C02/fix_complete.patch.txt
KNOWN_SHAPES = {SHAPE_ORIG: ("orig", (False, False, False, False, False)),
                SHAPE_PATCH: ("patch", (True, True, False, True, True)),
                SHAPE_COMPLETE: ("complete", (True, True, True, False, False))}


def probe_rules():
    """Determine the three bracket decisions by running the writer (used when the source shape
    is not one of the two known ones)."""
    from psyclone.psyir.backend.fortran import FortranWriter
    from psyclone.psyir.nodes import BinaryOperation, UnaryOperation, Reference
    from psyclone.psyir.symbols import DataSymbol, REAL_TYPE
    w = FortranWriter()
    B, U = BinaryOperation.create, UnaryOperation.create
    BO, UO = BinaryOperation.Operator, UnaryOperation.Operator

    def r(n):
        return Reference(DataSymbol(n, REAL_TYPE))
    pow_left = w(B(BO.POW, B(BO.POW, r("a"), r("b")), r("c"))) == "(a ** b) ** c"
    rel_left = w(B(BO.EQ, B(BO.LT, r("a"), r("b")), r("c"))) == "(a < b) == c"
    un = [w(B(BO.MUL, U(UO.MINUS, r("a")), r("b"))) == "(-a) * b",
          w(B(BO.DIV, U(UO.PLUS, r("a")), r("b"))) == "(+a) / b",
          w(B(BO.POW, U(UO.PLUS, r("a")), r("b"))) == "(+a) ** b",
          w(B(BO.EQ, U(UO.NOT, r("a")), r("b"))) == "(.NOT.a) == b",
          w(B(BO.ADD, U(UO.NOT, r("a")), r("b"))) == "(.NOT.a) + b"]
    deep = w(B(BO.ADD, r("a"), B(BO.MUL, B(BO.MUL, U(UO.MINUS, r("b")), r("c")), r("d")))) == "a + (-b) * c * d"
    plus = w(B(BO.ADD, r("a"), B(BO.MUL, U(UO.PLUS, r("b")), r("c")))) == "a + (+b) * c"
    if all(un):
        # every unary left operand of a tighter operator is bracketed: the two remaining
        # decisions cannot be observed (and do not matter)
        deep = plus = False
    return ((pow_left, rel_left, all(un), deep, plus),
            {"pow_left": pow_left, "rel_left": rel_left, "un_left_probes": un, "deep": deep, "plus": plus})


def run():
    """Regenerate Gen.v.  Returns an info dict (rules, shape hash, tables)."""
    src_path = core.REPO / "src" / "psyclone" / "psyir" / "backend" / "fortran.py"
    src_text = src_path.read_text()
    from psyclone.psyir.backend import fortran as fmod
    if not str(fmod.__file__).startswith(str(core.REPO)):
        raise TranslateError("psyclone imported from %s, not from the tree under test %s" % (fmod.__file__, core.REPO))
    from psyclone.psyir.nodes import BinaryOperation, UnaryOperation
    writer = fmod.FortranWriter()
    # ---- operator sets: fail closed on anything new
    un_names = {o.name for o in UnaryOperation.Operator}
    bin_names = {o.name for o in BinaryOperation.Operator}
    if un_names != set(UN.values()):
        raise TranslateError("UnaryOperation.Operator changed: %s" % sorted(un_names ^ set(UN.values())))
    if bin_names - NO_FORTRAN_OPERATOR != set(BIN.values()):
        raise TranslateError("BinaryOperation.Operator changed: %s"
                             % sorted((bin_names - NO_FORTRAN_OPERATOR) ^ set(BIN.values())))
    static = static_precedence(src_text)
    un_str, un_prec, bin_str, bin_prec = {}, {}, {}, {}
    for table, enum, strs, precs in ((UN, UnaryOperation.Operator, un_str, un_prec),
                                     (BIN, BinaryOperation.Operator, bin_str, bin_prec)):
        for mine, theirs in table.items():
            try:
                s = writer.get_operator(enum[theirs])
                p = fmod.precedence(s)
            except KeyError as err:
                raise TranslateError("operator %s has no Fortran spelling / precedence" % theirs) from err
            if not isinstance(s, str) or not isinstance(p, int) or p < 0 or '"' in s:
                raise TranslateError("unexpected spelling/precedence for %s: %r %r" % (theirs, s, p))
            if static.get(s) != p:
                raise TranslateError("precedence(%r) = %d but the fortran_precedence literal says %r"
                                     % (s, p, static.get(s)))
            strs[mine], precs[mine] = s, p
    for name in NO_FORTRAN_OPERATOR & bin_names:
        try:
            writer.get_operator(BinaryOperation.Operator[name])
        except KeyError:
            continue
        raise TranslateError("operator %s now has a Fortran spelling: extend the model" % name)
    # ---- shape of the bracket code
    h = method_hash(src_text)
    probed, probe_detail = probe_rules()
    if h in KNOWN_SHAPES:
        state, rules = KNOWN_SHAPES[h]
        known = True
    else:
        state, rules, known = "unknown", probed, False
    if known and probed != rules:
        raise TranslateError("bracket code has a known shape (%s) but the writer behaves differently: %s"
                             % (h[:12], probe_detail))
    b = lambda x: "true" if x else "false"   # noqa: E731
    lines = ["(* GENERATED by props/C02/translate.py from %s -- do not edit *)" % "the tree under test",
             "From Coq Require Import String List.", "From PV Require Import C02.Syntax.",
             "Open Scope string_scope.",
             "Definition prec_bin (o : binop) : nat :=", "  match o with"]
    lines += ["  | %s => %d" % (k, bin_prec[k]) for k in BIN]
    lines += ["  end.", "Definition prec_un (o : unop) : nat :=", "  match o with"]
    lines += ["  | %s => %d" % (k, un_prec[k]) for k in UN]
    lines += ["  end.", "Definition bin_str (o : binop) : string :=", "  match o with"]
    lines += ["  | %s => %s" % (k, core.coq_str(bin_str[k])) for k in BIN]
    lines += ["  end.", "Definition un_str (o : unop) : string :=", "  match o with"]
    lines += ["  | %s => %s" % (k, core.coq_str(un_str[k])) for k in UN]
    lines += ["  end.",
              "Definition impl_rules : rules := mkRules %s %s %s %s %s." % tuple(b(x) for x in rules),
              "Definition shape_known : bool := %s." % b(known), ""]
    changed = core.write_if_changed(core.COQ / "C02" / "Gen.v", "\n".join(lines))
    return {"rules": rules, "shape_known": known, "shape_hash": h, "probe": probe_detail,
            "bin_str": bin_str, "bin_prec": bin_prec, "un_str": un_str, "un_prec": un_prec,
            "gen_changed": changed,
            "state": state}


if __name__ == "__main__":
    if len(sys.argv) > 1 and sys.argv[1] == "--hash":
        print(method_hash(open(sys.argv[2]).read()))
    else:
        info = run()
        print("C02 translate: state=%s rules=%s gen_changed=%s" % (info["state"], info["rules"], info["gen_changed"]))
