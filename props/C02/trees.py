"""C02 harness library: expression trees as nested tuples, PSyIR builder / encoder, Coq printer,
generators, failure classifier.

Tree forms (mirrors coq/C02/Syntax.v):
  ("lit", kind, value, prec)      kind in INT/REAL/BOOL/CHAR; prec: "U" | "S" | "D" | ("K", n) | ("Y", name)
  ("acc", name, [items], sub)     sub: None or another ("acc", ...)
  ("call", NAME, [items])         items may be ("named", name, e)
  ("named", name, e)   ("rng", lo, hi, step)   ("un", op, e)   ("bin", op, l, r)
"""
from vlib import core

UNOPS = ["Neg", "Pos", "Not"]
BINOPS = ["Add", "Sub", "Mul", "Div", "Pow", "Eq", "Ne", "Lt", "Le", "Gt", "Ge", "And", "Or", "Eqv", "Neqv"]
LVL = {"Eqv": 0, "Neqv": 0, "Or": 1, "And": 2, "Eq": 4, "Ne": 4, "Lt": 4, "Le": 4, "Gt": 4, "Ge": 4,
       "Add": 6, "Sub": 6, "Mul": 7, "Div": 7, "Pow": 8}
PREMAX = {"Neg": 6, "Pos": 6, "Not": 3}
PSY_UN = {"Neg": "MINUS", "Pos": "PLUS", "Not": "NOT"}
PSY_BIN = {"Add": "ADD", "Sub": "SUB", "Mul": "MUL", "Div": "DIV", "Pow": "POW", "Eq": "EQ", "Ne": "NE",
           "Lt": "LT", "Le": "LE", "Gt": "GT", "Ge": "GE", "And": "AND", "Or": "OR", "Eqv": "EQV",
           "Neqv": "NEQV"}
UN_PSY = {v: k for k, v in PSY_UN.items()}
BIN_PSY = {v: k for k, v in PSY_BIN.items()}
INTRINSICS = ["ABS", "SQRT", "EXP", "MAX", "MIN", "MOD", "SIGN", "REAL", "INT", "SUM", "SIZE", "NINT"]

SCALARS = ["a", "b", "c", "d", "x", "y"]
INTS = ["i", "j", "n"]
KINDS = ["wp", "r_def"]


# ----------------------------------------------------------------------------- symbol table
class Env:
    """One symbol table used both to build the trees and to re-read the written text."""

    def __init__(self):
        from psyclone.psyir.symbols import (SymbolTable, DataSymbol, REAL_TYPE, INTEGER_TYPE, ArrayType,
                                            DataTypeSymbol, StructureType, Symbol)
        st = SymbolTable()
        for n in SCALARS:
            st.add(DataSymbol(n, REAL_TYPE))
        for n in INTS:
            st.add(DataSymbol(n, INTEGER_TYPE))
        for n in KINDS:
            st.add(DataSymbol(n, INTEGER_TYPE, is_constant=True, initial_value=8))
        ext = ArrayType.Extent.DEFERRED
        st.add(DataSymbol("arr", ArrayType(REAL_TYPE, [ext, ext])))
        st.add(DataSymbol("v", ArrayType(REAL_TYPE, [ext])))
        pub = Symbol.Visibility.PUBLIC
        gt = DataTypeSymbol("grid_t", StructureType.create([
            ("nx", INTEGER_TYPE, pub, None), ("data", ArrayType(REAL_TYPE, [ext]), pub, None)]))
        st.add(gt)
        ft = DataTypeSymbol("field_t", StructureType.create([
            ("grid", gt, pub, None), ("vals", ArrayType(REAL_TYPE, [ext, ext]), pub, None),
            ("subs", ArrayType(gt, [ext]), pub, None), ("dx", REAL_TYPE, pub, None)]))
        st.add(ft)
        st.add(DataSymbol("f", ft))
        st.add(DataSymbol("fs", ArrayType(ft, [ext])))
        st.add(DataSymbol("res_", REAL_TYPE))
        self.st = st
        from psyclone.psyir.backend.fortran import FortranWriter
        from psyclone.psyir.frontend.fortran import FortranReader
        self.writer = FortranWriter()
        self.reader = FortranReader()

    # ---- tree -> PSyIR
    def build(self, t):
        from psyclone.psyir.nodes import (Literal, Reference, ArrayReference, StructureReference,
                                          ArrayOfStructuresReference, IntrinsicCall, Range,
                                          UnaryOperation, BinaryOperation)
        from psyclone.psyir.symbols import ScalarType
        k = t[0]
        if k == "lit":
            intr = {"INT": ScalarType.Intrinsic.INTEGER, "REAL": ScalarType.Intrinsic.REAL,
                    "BOOL": ScalarType.Intrinsic.BOOLEAN, "CHAR": ScalarType.Intrinsic.CHARACTER}[t[1]]
            p = t[3]
            if p == "U":
                prec = ScalarType.Precision.UNDEFINED
            elif p == "S":
                prec = ScalarType.Precision.SINGLE
            elif p == "D":
                prec = ScalarType.Precision.DOUBLE
            elif p[0] == "K":
                prec = int(p[1])
            else:
                prec = self.st.lookup(p[1])
            return Literal(t[2], ScalarType(intr, prec))
        if k == "acc":
            sym = self.st.lookup(t[1])
            idx = [self.build(x) for x in t[2]]
            if t[3] is None:
                return ArrayReference.create(sym, idx) if idx else Reference(sym)
            members = []
            s = t[3]
            while s is not None:
                members.append((s[1], [self.build(x) for x in s[2]]) if s[2] else s[1])
                s = s[3]
            if idx:
                return ArrayOfStructuresReference.create(sym, idx, members)
            return StructureReference.create(sym, members)
        if k == "call":
            args = []
            for x in t[2]:
                if x[0] == "named":
                    args.append((x[1], self.build(x[2])))
                else:
                    args.append(self.build(x))
            return IntrinsicCall.create(IntrinsicCall.Intrinsic[t[1]], args)
        if k == "rng":
            return Range.create(self.build(t[1]), self.build(t[2]), self.build(t[3]))
        if k == "un":
            return UnaryOperation.create(UnaryOperation.Operator[PSY_UN[t[1]]], self.build(t[2]))
        if k == "bin":
            return BinaryOperation.create(BinaryOperation.Operator[PSY_BIN[t[1]]], self.build(t[2]),
                                          self.build(t[3]))
        raise ValueError("cannot build %r" % (t,))

    # ---- PSyIR -> tree (None when a node kind is outside the modelled forms, e.g. CodeBlock)
    def encode(self, node):
        from psyclone.psyir import nodes as N
        from psyclone.psyir.symbols import ScalarType, DataSymbol
        ty = type(node)
        if ty is N.Literal:
            dt = node.datatype
            if not isinstance(dt, ScalarType):
                return None
            kind = {"INTEGER": "INT", "REAL": "REAL", "BOOLEAN": "BOOL", "CHARACTER": "CHAR"}[dt.intrinsic.name]
            p = dt.precision
            if isinstance(p, ScalarType.Precision):
                prec = {"UNDEFINED": "U", "SINGLE": "S", "DOUBLE": "D"}[p.name]
            elif isinstance(p, int):
                prec = ("K", p)
            elif isinstance(p, DataSymbol):
                prec = ("Y", p.name)
            else:
                return None
            return ("lit", kind, node.value, prec)
        if ty is N.Reference:
            return ("acc", node.symbol.name, [], None)
        if ty is N.ArrayReference:
            return self._acc(node.symbol.name, node.children, None)
        if ty is N.StructureReference:
            return self._acc(node.symbol.name, [], node.children[0])
        if ty is N.ArrayOfStructuresReference:
            return self._acc(node.symbol.name, node.children[1:], node.children[0])
        if ty is N.Member:
            return ("acc", node.name, [], None)
        if ty is N.ArrayMember:
            return self._acc(node.name, node.children, None)
        if ty is N.StructureMember:
            return self._acc(node.name, [], node.children[0])
        if ty is N.ArrayOfStructuresMember:
            return self._acc(node.name, node.children[1:], node.children[0])
        if ty is N.Range:
            parts = [self.encode(c) for c in node.children]
            return None if None in parts else ("rng",) + tuple(parts)
        if ty is N.IntrinsicCall:
            items = []
            for name, arg in zip(node.argument_names, node.arguments):
                a = self.encode(arg)
                if a is None:
                    return None
                items.append(("named", name, a) if name else a)
            return ("call", node.routine.name.upper(), items)
        if ty is N.UnaryOperation:
            a = self.encode(node.children[0])
            return None if a is None else ("un", UN_PSY[node.operator.name], a)
        if ty is N.BinaryOperation:
            if node.operator.name not in BIN_PSY:
                return None
            a, b = self.encode(node.children[0]), self.encode(node.children[1])
            return None if a is None or b is None else ("bin", BIN_PSY[node.operator.name], a, b)
        return None

    def _acc(self, name, idx, sub):
        items = [self.encode(c) for c in idx]
        s = self.encode(sub) if sub is not None else None
        if None in items or (sub is not None and s is None):
            return None
        return ("acc", name, items, s)

    # ---- the implementation under test
    def write(self, t):
        """Text of the expression as FortranWriter prints it on the right of an assignment."""
        from psyclone.psyir.nodes import Assignment, Reference
        node = self.build(t)
        assign = Assignment.create(Reference(self.st.lookup("res_")), node)
        line = self.writer(assign)
        lhs, text = line.split(" = ", 1)
        assert lhs.strip() == "res_"
        return node, text.rstrip("\n")

    def read(self, text):
        """(psyir or None, tree or None, error string or None)"""
        try:
            node = self.reader.psyir_from_expression(text, self.st)
        except Exception as err:   # noqa: the reader refuses the text (ValueError) or breaks
            return None, None, "%s: %s" % (type(err).__name__, str(err)[:120])
        return node, self.encode(node), None

    def roundtrip(self, t):
        """Run writer then reader.  Returns dict(text, reread, impl_ok, error)."""
        try:
            node, text = self.write(t)
        except Exception as err:  # noqa: writer refuses the tree
            return {"text": None, "reread": None, "impl_ok": False,
                    "error": "writer %s: %s" % (type(err).__name__, str(err)[:120])}
        back, enc, err = self.read(text)
        same_psyir = back is not None and back == node
        same_enc = enc is not None and enc == t
        return {"text": text, "reread": enc, "impl_ok": same_enc, "psyir_eq": same_psyir, "error": err}


# ----------------------------------------------------------------------------- Coq printer
def coq_prec(p):
    if p == "U":
        return "PUndef"
    if p == "S":
        return "PSingle"
    if p == "D":
        return "PDouble"
    if p[0] == "K":
        return "(PKind %d%%N)" % p[1]
    return "(PSym %s)" % core.coq_str(p[1])


def coq_expr(t):
    k = t[0]
    if k == "lit":
        return "(Lit (mkLit %s %s %s))" % ({"INT": "KInt", "REAL": "KReal", "BOOL": "KBool", "CHAR": "KChar"}[t[1]],
                                            core.coq_str(t[2]), coq_prec(t[3]))
    if k == "acc":
        return "(Acc %s %s %s)" % (core.coq_str(t[1]), core.coq_list(coq_expr(x) for x in t[2]),
                                   "None" if t[3] is None else "(Some %s)" % coq_expr(t[3]))
    if k == "call":
        return "(Call %s %s)" % (core.coq_str(t[1]), core.coq_list(coq_expr(x) for x in t[2]))
    if k == "named":
        return "(Named %s %s)" % (core.coq_str(t[1]), coq_expr(t[2]))
    if k == "rng":
        return "(Rng %s %s %s)" % (coq_expr(t[1]), coq_expr(t[2]), coq_expr(t[3]))
    if k == "un":
        return "(Un %s %s)" % (t[1], coq_expr(t[2]))
    if k == "bin":
        return "(Bin %s %s %s)" % (t[1], coq_expr(t[2]), coq_expr(t[3]))
    raise ValueError(t)


def coq_case(t, res):
    if res["reread"] is None:
        rr = "RNone"
    elif res["reread"] == t:
        rr = "RSame"
    else:
        rr = "(RTree %s)" % coq_expr(res["reread"])
    return "(%s, %s, %s, %s)" % (coq_expr(t), core.coq_str(res["text"] or "<writer raised>"), rr,
                                 "true" if res["impl_ok"] else "false")


# ----------------------------------------------------------------------------- tree utilities
def freeze(t):
    if isinstance(t, (list, tuple)):
        return tuple(freeze(x) for x in t)
    return t


def children(t):
    k = t[0]
    if k == "lit":
        return []
    if k == "acc":
        return list(t[2]) + ([t[3]] if t[3] is not None else [])
    if k == "call":
        return list(t[2])
    if k == "named":
        return [t[2]]
    if k == "rng":
        return [t[1], t[2], t[3]]
    if k == "un":
        return [t[2]]
    return [t[2], t[3]]


def size(t):
    return 1 + sum(size(c) for c in children(t))


def depth(t):
    return 1 + max([depth(c) for c in children(t)] or [0])


def is_op(t):
    return t[0] in ("un", "bin")


def subterms(t):
    yield t
    for c in children(t):
        yield from subterms(c)


def show(t):
    """compact readable form for logs / replays"""
    k = t[0]
    if k == "lit":
        p = t[3] if isinstance(t[3], str) else "%s%s" % t[3]
        return "%s<%s,%s>" % (t[2], t[1], p)
    if k == "acc":
        s = t[1] + ("(" + ",".join(show(x) for x in t[2]) + ")" if t[2] else "")
        return s + ("%" + show(t[3]) if t[3] is not None else "")
    if k == "call":
        return t[1] + "(" + ", ".join(show(x) for x in t[2]) + ")"
    if k == "named":
        return t[1] + "=" + show(t[2])
    if k == "rng":
        return "%s:%s:%s" % (show(t[1]), show(t[2]), show(t[3]))
    if k == "un":
        return "%s[%s]" % (t[1], show(t[2]))
    return "%s[%s, %s]" % (t[1], show(t[2]), show(t[3]))


V = lambda n: ("acc", n, [], None)      # noqa: E731
ILIT = lambda s: ("lit", "INT", s, "U")  # noqa: E731
ONE = ILIT("1")


# ----------------------------------------------------------------------------- python mirror of the side conditions
def lit_ok(t):
    _, kind, val, prec = t
    signed = val[:1] in ("+", "-")
    if kind == "INT":
        return not signed and prec not in ("S", "D")
    if kind == "REAL":
        has_e = "e" in val
        if signed or not ("." in val or has_e):
            return False
        if prec == "U":
            return not has_e
        if prec in ("S", "D"):
            return has_e
        return True
    return prec not in ("S", "D")


def shape_reasons(t, rules=(False, False, False)):
    """reason codes of the sub-terms that make shape_ok false (empty list = shape_ok)"""
    out = []
    for s in subterms(t):
        if s[0] == "bin":
            o, l = s[1], s[2]
            if l[0] == "bin" and LVL[l[1]] == LVL[o]:
                if LVL[o] == 8 and not rules[0]:
                    out.append("binop/pow-left-nested")
                if LVL[o] == 4 and not rules[1]:
                    out.append("binop/relational-chained")
            if l[0] == "un" and not (LVL[o] <= PREMAX[l[1]] or rules[2] or (o == "Pow" and l[1] == "Neg")):
                out.append("unop/%s-left-of-tighter-binop" % ("not" if l[1] == "Not" else "sign"))
    return out


def wf_lits(t):
    return all(lit_ok(s) for s in subterms(t) if s[0] == "lit")


def unit_step_ok(t):
    for s in subterms(t):
        if s[0] == "rng" and s[3][0] == "lit" and s[3][1] == "INT" and s[3][2] == "1" and s[3] != ONE:
            return False
    return True
