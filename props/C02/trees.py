"""C02 harness library: expression trees as nested tuples, PSyIR builder / encoder, Coq printer,
generators, failure classifier.

Tree forms (mirrors coq/C02/Syntax.v):
  ("lit", kind, value, prec)      kind in INT/REAL/BOOL/CHAR; prec: "U" | "S" | "D" | ("K", n) | ("Y", name)
  ("acc", name, [items], sub)     sub: None or another ("acc", ...)
  ("call", NAME, [items])         items may be ("named", name, e)
  ("named", name, e)   ("rng", lo, hi, step)   ("un", op, e)   ("bin", op, l, r)
"""
from vlib import core

UNOPS = ["Neg", "Pos", "Not"]
BINOPS = ["Add", "Sub", "Mul", "Div", "Pow", "Eq", "Ne", "Lt", "Le", "Gt", "Ge", "And", "Or", "Eqv", "Neqv"]
LVL = {"Eqv": 0, "Neqv": 0, "Or": 1, "And": 2, "Eq": 4, "Ne": 4, "Lt": 4, "Le": 4, "Gt": 4, "Ge": 4,
       "Add": 6, "Sub": 6, "Mul": 7, "Div": 7, "Pow": 8}
PREMAX = {"Neg": 6, "Pos": 6, "Not": 3}
PSY_UN = {"Neg": "MINUS", "Pos": "PLUS", "Not": "NOT"}
PSY_BIN = {"Add": "ADD", "Sub": "SUB", "Mul": "MUL", "Div": "DIV", "Pow": "POW", "Eq": "EQ", "Ne": "NE",
           "Lt": "LT", "Le": "LE", "Gt": "GT", "Ge": "GE", "And": "AND", "Or": "OR", "Eqv": "EQV",
           "Neqv": "NEQV"}
UN_PSY = {v: k for k, v in PSY_UN.items()}
BIN_PSY = {v: k for k, v in PSY_BIN.items()}
INTRINSICS = ["ABS", "SQRT", "EXP", "MAX", "MIN", "MOD", "SIGN", "REAL", "INT", "SUM", "SIZE", "NINT"]

SCALARS = ["a", "b", "c", "d", "x", "y"]
INTS = ["i", "j", "n"]
KINDS = ["wp", "r_def"]


# ----------------------------------------------------------------------------- symbol table
class Env:
    """One symbol table used both to build the trees and to re-read the written text."""

    def __init__(self):
        from psyclone.psyir.symbols import (SymbolTable, DataSymbol, REAL_TYPE, INTEGER_TYPE, ArrayType,
                                            DataTypeSymbol, StructureType, Symbol)
        st = SymbolTable()
        for n in SCALARS:
            st.add(DataSymbol(n, REAL_TYPE))
        for n in INTS:
            st.add(DataSymbol(n, INTEGER_TYPE))
        for n in KINDS:
            st.add(DataSymbol(n, INTEGER_TYPE, is_constant=True, initial_value=8))
        ext = ArrayType.Extent.DEFERRED
        st.add(DataSymbol("arr", ArrayType(REAL_TYPE, [ext, ext])))
        st.add(DataSymbol("v", ArrayType(REAL_TYPE, [ext])))
        pub = Symbol.Visibility.PUBLIC
        gt = DataTypeSymbol("grid_t", StructureType.create([
            ("nx", INTEGER_TYPE, pub, None), ("data", ArrayType(REAL_TYPE, [ext]), pub, None)]))
        st.add(gt)
        ft = DataTypeSymbol("field_t", StructureType.create([
            ("grid", gt, pub, None), ("vals", ArrayType(REAL_TYPE, [ext, ext]), pub, None),
            ("subs", ArrayType(gt, [ext]), pub, None), ("dx", REAL_TYPE, pub, None)]))
        st.add(ft)
        st.add(DataSymbol("f", ft))
        st.add(DataSymbol("fs", ArrayType(ft, [ext])))
        st.add(DataSymbol("res_", REAL_TYPE))
        self.st = st
        from psyclone.psyir.backend.fortran import FortranWriter
        from psyclone.psyir.frontend.fortran import FortranReader
        self.writer = FortranWriter()
        self.reader = FortranReader()

    # ---- tree -> PSyIR
    def build(self, t):
        from psyclone.psyir.nodes import (Literal, Reference, ArrayReference, StructureReference,
                                          ArrayOfStructuresReference, IntrinsicCall, Range,
                                          UnaryOperation, BinaryOperation)
        from psyclone.psyir.symbols import ScalarType
        k = t[0]
        if k == "lit":
            intr = {"INT": ScalarType.Intrinsic.INTEGER, "REAL": ScalarType.Intrinsic.REAL,
                    "BOOL": ScalarType.Intrinsic.BOOLEAN, "CHAR": ScalarType.Intrinsic.CHARACTER}[t[1]]
            p = t[3]
            if p == "U":
                prec = ScalarType.Precision.UNDEFINED
            elif p == "S":
                prec = ScalarType.Precision.SINGLE
            elif p == "D":
                prec = ScalarType.Precision.DOUBLE
            elif p[0] == "K":
                prec = int(p[1])
            else:
                prec = self.st.lookup(p[1])
            return Literal(t[2], ScalarType(intr, prec))
        if k == "acc":
            sym = self.st.lookup(t[1])
            idx = [self.build(x) for x in t[2]]
            if t[3] is None:
                return ArrayReference.create(sym, idx) if idx else Reference(sym)
            members = []
            s = t[3]
            while s is not None:
                members.append((s[1], [self.build(x) for x in s[2]]) if s[2] else s[1])
                s = s[3]
            if idx:
                return ArrayOfStructuresReference.create(sym, idx, members)
            return StructureReference.create(sym, members)
        if k == "call":
            args = []
            for x in t[2]:
                if x[0] == "named":
                    args.append((x[1], self.build(x[2])))
                else:
                    args.append(self.build(x))
            return IntrinsicCall.create(IntrinsicCall.Intrinsic[t[1]], args)
        if k == "rng":
            return Range.create(self.build(t[1]), self.build(t[2]), self.build(t[3]))
        if k == "un":
            return UnaryOperation.create(UnaryOperation.Operator[PSY_UN[t[1]]], self.build(t[2]))
        if k == "bin":
            return BinaryOperation.create(BinaryOperation.Operator[PSY_BIN[t[1]]], self.build(t[2]),
                                          self.build(t[3]))
        raise ValueError("cannot build %r" % (t,))

    # ---- PSyIR -> tree (None when a node kind is outside the modelled forms, e.g. CodeBlock)
    def encode(self, node):
        from psyclone.psyir import nodes as N
        from psyclone.psyir.symbols import ScalarType, DataSymbol
        ty = type(node)
        if ty is N.Literal:
            dt = node.datatype
            if not isinstance(dt, ScalarType):
                return None
            kind = {"INTEGER": "INT", "REAL": "REAL", "BOOLEAN": "BOOL", "CHARACTER": "CHAR"}[dt.intrinsic.name]
            p = dt.precision
            if isinstance(p, ScalarType.Precision):
                prec = {"UNDEFINED": "U", "SINGLE": "S", "DOUBLE": "D"}[p.name]
            elif isinstance(p, int):
                prec = ("K", p)
            elif isinstance(p, DataSymbol):
                prec = ("Y", p.name)
            else:
                return None
            return ("lit", kind, node.value, prec)
        if ty is N.Reference:
            return ("acc", node.symbol.name, [], None)
        if ty is N.ArrayReference:
            return self._acc(node.symbol.name, node.children, None)
        if ty is N.StructureReference:
            return self._acc(node.symbol.name, [], node.children[0])
        if ty is N.ArrayOfStructuresReference:
            return self._acc(node.symbol.name, node.children[1:], node.children[0])
        if ty is N.Member:
            return ("acc", node.name, [], None)
        if ty is N.ArrayMember:
            return self._acc(node.name, node.children, None)
        if ty is N.StructureMember:
            return self._acc(node.name, [], node.children[0])
        if ty is N.ArrayOfStructuresMember:
            return self._acc(node.name, node.children[1:], node.children[0])
        if ty is N.Range:
            parts = [self.encode(c) for c in node.children]
            return None if None in parts else ("rng",) + tuple(parts)
        if ty is N.IntrinsicCall:
            items = []
            for name, arg in zip(node.argument_names, node.arguments):
                a = self.encode(arg)
                if a is None:
                    return None
                items.append(("named", name, a) if name else a)
            return ("call", node.routine.name.upper(), items)
        if ty is N.UnaryOperation:
            a = self.encode(node.children[0])
            return None if a is None else ("un", UN_PSY[node.operator.name], a)
        if ty is N.BinaryOperation:
            if node.operator.name not in BIN_PSY:
                return None
            a, b = self.encode(node.children[0]), self.encode(node.children[1])
            return None if a is None or b is None else ("bin", BIN_PSY[node.operator.name], a, b)
        return None

    def _acc(self, name, idx, sub):
        items = [self.encode(c) for c in idx]
        s = self.encode(sub) if sub is not None else None
        if None in items or (sub is not None and s is None):
            return None
        return ("acc", name, items, s)

    # ---- the implementation under test
    def write(self, t):
        """Text of the expression as FortranWriter prints it on the right of an assignment."""
        from psyclone.psyir.nodes import Assignment, Reference
        node = self.build(t)
        assign = Assignment.create(Reference(self.st.lookup("res_")), node)
        line = self.writer(assign)
        lhs, text = line.split(" = ", 1)
        assert lhs.strip() == "res_"
        return node, text.rstrip("\n")

    def read(self, text):
        """(psyir or None, tree or None, error string or None)"""
        try:
            node = self.reader.psyir_from_expression(text, self.st)
        except Exception as err:   # noqa: the reader refuses the text (ValueError) or breaks
            return None, None, "%s: %s" % (type(err).__name__, str(err)[:120])
        return node, self.encode(node), None

    def roundtrip(self, t):
        """Run writer then reader.  Returns dict(text, reread, impl_ok, error)."""
        try:
            node, text = self.write(t)
        except Exception as err:  # noqa: writer refuses the tree
            return {"text": None, "reread": None, "impl_ok": False,
                    "error": "writer %s: %s" % (type(err).__name__, str(err)[:120])}
        back, enc, err = self.read(text)
        same_psyir = back is not None and back == node
        same_enc = enc is not None and enc == t
        return {"text": text, "reread": enc, "impl_ok": same_enc, "psyir_eq": same_psyir, "error": err}


# ----------------------------------------------------------------------------- Coq printer
def coq_prec(p):
    if p == "U":
        return "PUndef"
    if p == "S":
        return "PSingle"
    if p == "D":
        return "PDouble"
    if p[0] == "K":
        return "(PKind %d%%N)" % p[1]
    return "(PSym %s)" % core.coq_str(p[1])


def coq_expr(t):
    k = t[0]
    if k == "lit":
        return "(Lit (mkLit %s %s %s))" % ({"INT": "KInt", "REAL": "KReal", "BOOL": "KBool", "CHAR": "KChar"}[t[1]],
                                            core.coq_str(t[2]), coq_prec(t[3]))
    if k == "acc":
        return "(Acc %s %s %s)" % (core.coq_str(t[1]), core.coq_list(coq_expr(x) for x in t[2]),
                                   "None" if t[3] is None else "(Some %s)" % coq_expr(t[3]))
    if k == "call":
        return "(Call %s %s)" % (core.coq_str(t[1]), core.coq_list(coq_expr(x) for x in t[2]))
    if k == "named":
        return "(Named %s %s)" % (core.coq_str(t[1]), coq_expr(t[2]))
    if k == "rng":
        return "(Rng %s %s %s)" % (coq_expr(t[1]), coq_expr(t[2]), coq_expr(t[3]))
    if k == "un":
        return "(Un %s %s)" % (t[1], coq_expr(t[2]))
    if k == "bin":
        return "(Bin %s %s %s)" % (t[1], coq_expr(t[2]), coq_expr(t[3]))
    raise ValueError(t)


def coq_case(t, res):
    if res["reread"] is None:
        rr = "RNone"
    elif res["reread"] == t:
        rr = "RSame"
    else:
        rr = "(RTree %s)" % coq_expr(res["reread"])
    return "(%s, %s, %s, %s)" % (coq_expr(t), core.coq_str(res["text"] or "<writer raised>"), rr,
                                 "true" if res["impl_ok"] else "false")


# ----------------------------------------------------------------------------- tree utilities
def freeze(t):
    if isinstance(t, (list, tuple)):
        return tuple(freeze(x) for x in t)
    return t


def children(t):
    k = t[0]
    if k == "lit":
        return []
    if k == "acc":
        return list(t[2]) + ([t[3]] if t[3] is not None else [])
    if k == "call":
        return list(t[2])
    if k == "named":
        return [t[2]]
    if k == "rng":
        return [t[1], t[2], t[3]]
    if k == "un":
        return [t[2]]
    return [t[2], t[3]]


def size(t):
    return 1 + sum(size(c) for c in children(t))


def depth(t):
    return 1 + max([depth(c) for c in children(t)] or [0])


def is_op(t):
    return t[0] in ("un", "bin")


def subterms(t):
    yield t
    for c in children(t):
        yield from subterms(c)


def show(t):
    """compact readable form for logs / replays"""
    k = t[0]
    if k == "lit":
        p = t[3] if isinstance(t[3], str) else "%s%s" % t[3]
        return "%s<%s,%s>" % (t[2], t[1], p)
    if k == "acc":
        s = t[1] + ("(" + ",".join(show(x) for x in t[2]) + ")" if t[2] else "")
        return s + ("%" + show(t[3]) if t[3] is not None else "")
    if k == "call":
        return t[1] + "(" + ", ".join(show(x) for x in t[2]) + ")"
    if k == "named":
        return t[1] + "=" + show(t[2])
    if k == "rng":
        return "%s:%s:%s" % (show(t[1]), show(t[2]), show(t[3]))
    if k == "un":
        return "%s[%s]" % (t[1], show(t[2]))
    return "%s[%s, %s]" % (t[1], show(t[2]), show(t[3]))


V = lambda n: ("acc", n, [], None)      # noqa: E731
ILIT = lambda s: ("lit", "INT", s, "U")  # noqa: E731
ONE = ILIT("1")


# ----------------------------------------------------------------------------- python mirror of the side conditions
def lit_ok(t):
    _, kind, val, prec = t
    signed = val[:1] in ("+", "-")
    if kind == "INT":
        return not signed and prec not in ("S", "D")
    if kind == "REAL":
        has_e = "e" in val
        if signed or not ("." in val or has_e):
            return False
        if prec == "U":
            return not has_e
        if prec in ("S", "D"):
            return has_e
        return True
    return prec not in ("S", "D")


def shape_reasons(t, rules=(False, False, False)):
    """reason codes of the sub-terms that make shape_ok false (empty list = shape_ok)"""
    out = []
    for s in subterms(t):
        if s[0] == "bin":
            o, l = s[1], s[2]
            if l[0] == "bin" and LVL[l[1]] == LVL[o]:
                if LVL[o] == 8 and not rules[0]:
                    out.append("binop/pow-left-nested")
                if LVL[o] == 4 and not rules[1]:
                    out.append("binop/relational-chained")
            if l[0] == "un" and not (LVL[o] <= PREMAX[l[1]] or rules[2] or (o == "Pow" and l[1] == "Neg")):
                out.append("unop/%s-left-of-tighter-binop" % ("not" if l[1] == "Not" else "sign"))
    return out


def wf_lits(t):
    return all(lit_ok(s) for s in subterms(t) if s[0] == "lit")


def unit_step_ok(t):
    for s in subterms(t):
        if s[0] == "rng" and s[3][0] == "lit" and s[3][1] == "INT" and s[3][2] == "1" and s[3] != ONE:
            return False
    return True


# ----------------------------------------------------------------------------- finding keys
K_POW = "binaryoperation_node/pow-left-nested"
K_REL = "binaryoperation_node/relational-chained"
K_SIGN = "unaryoperation_node/sign-left-of-tighter-binop"
K_NOT = "unaryoperation_node/not-left-of-tighter-binop"
K_SIGN_BAD = "unaryoperation_node/sign-follows-binop-invalid-text"
K_LSIGN = "literal_node/signed-value"
K_LNOPT = "literal_node/real-without-point"
K_LDBL = "literal_node/real-double-no-exponent"
K_LSGL = "literal_node/real-single-no-exponent"
K_LEXP = "literal_node/real-default-with-exponent"
K_LPREC = "literal_node/nonreal-single-double-precision"
K_STEP = "range_node/unit-step-kind-dropped"


def lit_reasons(t):
    """the (single, primary) reason a literal is not read back unchanged"""
    _, kind, val, prec = t
    if kind in ("INT", "REAL") and val[:1] in ("+", "-"):
        return [K_LSIGN]
    if kind == "REAL":
        has_e = "e" in val
        if not ("." in val or has_e):
            return [K_LNOPT]
        if prec == "D" and not has_e:
            return [K_LDBL]
        if prec == "S" and not has_e:
            return [K_LSGL]
        if prec == "U" and has_e:
            return [K_LEXP]
        return []
    return [K_LPREC] if prec in ("S", "D") else []


def reasons(t):
    """Keys of every known failure shape present in t (pure shape detection, independent of the
    rules the tree under test implements)."""
    out = []
    for s in subterms(t):
        if s[0] == "bin":
            o, l = s[1], s[2]
            if l[0] == "bin" and LVL[l[1]] == LVL[o] and LVL[o] == 8:
                out.append(K_POW)
            if l[0] == "bin" and LVL[l[1]] == LVL[o] and LVL[o] == 4:
                out.append(K_REL)
            if l[0] == "un" and LVL[o] > PREMAX[l[1]] and not (o == "Pow" and l[1] == "Neg"):
                out.append(K_NOT if l[1] == "Not" else K_SIGN)
        elif s[0] == "lit":
            out += lit_reasons(s)
        elif s[0] == "rng":
            st = s[3]
            if st[0] == "lit" and st[1] == "INT" and st[2] == "1" and st != ONE:
                out.append(K_STEP)
    return out


def nontrivial(t):
    """a bracket / text-form decision is really exercised: an operation under an operation, or a
    literal, call or indexed access under an operation"""
    for s in subterms(t):
        if s[0] in ("un", "bin"):
            for c in children(s):
                if c[0] in ("un", "bin", "lit", "call") or (c[0] == "acc" and (c[2] or c[3])):
                    return True
    return t[0] == "lit" and t[3] != "U"


# ----------------------------------------------------------------------------- shrinking
def _items_exprs(items):
    out = []
    for x in items:
        if x[0] == "rng":
            out += [x[1], x[2], x[3]]
        elif x[0] == "named":
            out.append(x[2])
        else:
            out.append(x)
    return out


def _expr_children(t):
    """sub-trees that are expressions on their own (can replace t)"""
    k = t[0]
    out = []
    if k in ("un", "bin"):
        out += children(t)
    elif k == "call":
        out += _items_exprs(t[2])
    elif k == "acc":
        s = t
        while s is not None:
            out += _items_exprs(s[2])
            s = s[3]
    return [c for c in out if c[0] not in ("named", "rng")]


def _simpler_items(items):
    for i, x in enumerate(items):
        if x[0] == "rng":
            for j in (1, 2, 3):
                if x[j] not in (ONE, V("i")):
                    yield items[:i] + [x[:j] + (ONE if j == 3 else V("i"),) + x[j + 1:]] + items[i + 1:]
                for c in _simpler(x[j]):
                    yield items[:i] + [x[:j] + (c,) + x[j + 1:]] + items[i + 1:]
        elif x[0] == "named":
            for c in _simpler(x[2]):
                yield items[:i] + [("named", x[1], c)] + items[i + 1:]
        else:
            if x != V("i"):
                yield items[:i] + [V("i")] + items[i + 1:]
            for c in _simpler(x):
                yield items[:i] + [c] + items[i + 1:]


def _simpler(t):
    """t with one proper sub-expression replaced by a leaf"""
    k = t[0]
    if k == "un":
        if t[2] != V("a"):
            yield ("un", t[1], V("a"))
        for c in _simpler(t[2]):
            yield ("un", t[1], c)
    elif k == "bin":
        for i in (2, 3):
            leaf = V("a") if i == 2 else V("b")
            if t[i] != leaf:
                yield t[:i] + (leaf,) + t[i + 1:]
            for c in _simpler(t[i]):
                yield t[:i] + (c,) + t[i + 1:]
    elif k == "call":
        for items in _simpler_items(t[2]):
            if t[1] == "REAL" and items[0][0] != "acc":
                continue
            yield ("call", t[1], items)
    elif k == "acc":
        for items in _simpler_items(t[2]):
            yield ("acc", t[1], items, t[3])
        if t[3] is not None:
            for c in _simpler(t[3]):
                yield ("acc", t[1], t[2], c)


def shrink(t, fails, budget=400):
    """greedy: replace t by a failing sub-expression or by a failing simplification"""
    cur = t
    while budget > 0:
        progressed = False
        for cand in _expr_children(cur) + list(_simpler(cur)):
            budget -= 1
            if (size(cand), len(repr(cand))) < (size(cur), len(repr(cur))) and fails(cand):
                cur, progressed = cand, True
                break
            if budget <= 0:
                break
        if not progressed:
            break
    return cur


# ----------------------------------------------------------------------------- generators
def depth3_all():
    """every tree with at most two operator levels over all 3 unary / 15 binary operators
    (distinct leaf names): 1 + 18 + 3*19 + 15*19*19 - (dups) trees"""
    A = [V("a")] + [("un", u, V("a")) for u in UNOPS] + [("bin", o, V("a"), V("b")) for o in BINOPS]
    B = [V("c")] + [("un", u, V("c")) for u in UNOPS] + [("bin", o, V("c"), V("d")) for o in BINOPS]
    out = [("un", u, x) for u in UNOPS for x in A]
    out += [("bin", o, x, y) for o in BINOPS for x in A for y in B]
    return out


def same_operands():
    """left operand structurally equal to the right one (`parent.children[1] == node`)"""
    out = []
    for o in BINOPS:
        for o2 in BINOPS:
            x = ("bin", o2, V("a"), V("b"))
            out.append(("bin", o, x, x))
        for u in UNOPS:
            x = ("un", u, V("a"))
            out.append(("bin", o, x, x))
    return out


CHAIN_STEPS = [("un", u) for u in UNOPS] + [("binL", o) for o in BINOPS] + [("binR", o) for o in BINOPS]


def chain(steps):
    """operator chain: only one operand of every operator is an operator (outermost first)"""
    names = iter(["b", "c", "d", "x", "y", "i", "j", "n"])
    t = V("a")
    for kind, op in reversed(steps):
        if kind == "un":
            t = ("un", op, t)
        elif kind == "binL":
            t = ("bin", op, t, V(next(names)))
        else:
            t = ("bin", op, V(next(names)), t)
    return t


def all_chains(k):
    import itertools
    for steps in itertools.product(CHAIN_STEPS, repeat=k):
        yield chain(steps)


CANON_LITS = (
    [("lit", "INT", v, p) for v in ("0", "1", "2", "7", "42") for p in ("U", ("K", 4), ("K", 8), ("Y", "wp"))] +
    [("lit", "REAL", v, p) for v in ("1.0", "0.5", "2.", "3.25") for p in ("U", ("K", 8), ("Y", "r_def"))] +
    [("lit", "REAL", v, p) for v in ("1.5e3", "2.0e-2", "1e5", "4.e+1") for p in ("S", "D", ("K", 4), ("Y", "wp"))] +
    [("lit", "BOOL", v, p) for v in ("true", "false") for p in ("U", ("K", 4))] +
    [("lit", "CHAR", v, p) for v in ("hi", "it's", 'say "x"', "", "a b") for p in ("U", ("K", 1), ("Y", "wp"))])
ODD_LITS = (
    [("lit", "INT", v, p) for v in ("-1", "+2", "-30") for p in ("U", ("K", 8))] +
    [("lit", "REAL", v, p) for v in ("-1.0", "+0.5", "-2.5e1") for p in ("U", "D", ("K", 8))] +
    [("lit", "REAL", "3", p) for p in ("U", ("K", 8), "D")] +
    [("lit", "REAL", v, p) for v in ("1.0", "2.") for p in ("S", "D")] +
    [("lit", "REAL", v, "U") for v in ("1.5e3", "1e5")] +
    [("lit", "INT", "3", p) for p in ("S", "D")] +
    [("lit", "BOOL", "true", p) for p in ("S", "D")] + [("lit", "CHAR", "hi", p) for p in ("S", "D")])


def literal_cases():
    out = []
    for l in CANON_LITS + ODD_LITS:
        out += [l, ("bin", "Mul", V("a"), l), ("bin", "Add", l, V("b")), ("un", "Neg", l),
                ("bin", "Pow", l, ("bin", "Sub", l, V("c")))]
    return out


def rand_leaf(rng, odd=0.08):
    r = rng.random()
    if r < 0.55:
        return V(rng.choice(SCALARS + INTS))
    if r < 0.55 + odd:
        return rng.choice(ODD_LITS)
    return rng.choice(CANON_LITS)


INT_LITS = [l for l in CANON_LITS if l[1] == "INT"]
ODD_INT_LITS = [l for l in ODD_LITS if l[1] == "INT"]


def int_pos(rng, e, odd):
    """an expression used directly as a subscript / range bound: literals there must be INTEGER
    (Range.create refuses others; fparser2 reads v(1.0) as a structure constructor)"""
    if e[0] == "lit" and e[1] != "INT":
        return rng.choice(ODD_INT_LITS) if (odd and rng.random() < odd) else rng.choice(INT_LITS)
    return e


def rand_index(rng, d, odd):
    if rng.random() < 0.3:
        r = rng.random()
        if r < 0.55:
            st = ONE
        elif r < 0.6 and odd > 0:
            st = ("lit", "INT", "1", ("K", 8))
        elif r < 0.8:
            st = ("lit", "INT", "2", "U")
        else:
            st = int_pos(rng, rand_expr(rng, min(d, 2), odd), odd)
        return ("rng", int_pos(rng, rand_expr(rng, min(d, 2), odd), odd),
                int_pos(rng, rand_expr(rng, min(d, 2), odd), odd), st)
    return int_pos(rng, rand_expr(rng, d, odd), odd)


def rand_expr(rng, d, odd=0.08):
    if d <= 0 or rng.random() < 0.18:
        return rand_leaf(rng, odd)
    r = rng.random()
    if r < 0.22:
        return ("un", rng.choice(UNOPS), rand_expr(rng, d - 1, odd))
    if r < 0.78:
        # skew the depth to one side half of the time (deep left / right spines)
        dl, dr = (d - 1, d - 1) if rng.random() < 0.5 else rng.choice([(d - 1, max(0, d - 3)), (max(0, d - 3), d - 1)])
        return ("bin", rng.choice(BINOPS), rand_expr(rng, dl, odd), rand_expr(rng, dr, odd))
    if r < 0.88:
        f = rng.choice(["ABS", "SQRT", "EXP", "NINT", "MAX", "MIN", "MOD", "SIGN", "REAL", "INT"])
        if f in ("ABS", "SQRT", "EXP", "NINT"):
            args = [rand_expr(rng, d - 1, odd)]
        elif f in ("MOD", "SIGN"):
            args = [rand_expr(rng, d - 1, odd), rand_expr(rng, d - 2, odd)]
        elif f in ("MAX", "MIN"):
            args = [rand_expr(rng, d - 1, odd) for _ in range(rng.choice([2, 2, 3]))]
        else:
            # IntrinsicCall.create: REAL takes a Reference as its positional argument
            args = [V(rng.choice(SCALARS + INTS))] if f == "REAL" else [rand_expr(rng, d - 1, odd)]
            if rng.random() < 0.6:
                args.append(("named", "kind", rng.choice([V("wp"), ("lit", "INT", "8", "U")])))
        return ("call", f, args)
    if r < 0.94:
        if rng.random() < 0.5:
            return ("acc", "arr", [rand_index(rng, d - 1, odd), rand_index(rng, d - 2, odd)], None)
        return ("acc", "v", [rand_index(rng, d - 1, odd)], None)
    c = rng.randrange(6)
    if c == 0:
        return ("acc", "f", [], ("acc", "dx", [], None))
    if c == 1:
        return ("acc", "f", [], ("acc", "grid", [], ("acc", "nx", [], None)))
    if c == 2:
        return ("acc", "f", [], ("acc", "vals", [rand_index(rng, d - 1, odd), rand_index(rng, d - 2, odd)], None))
    if c == 3:
        return ("acc", "f", [], ("acc", "subs", [int_pos(rng, rand_expr(rng, d - 1, odd), odd)],
                                 ("acc", "data", [rand_index(rng, d - 2, odd)], None)))
    if c == 4:
        return ("acc", "fs", [int_pos(rng, rand_expr(rng, d - 1, odd), odd)],
                ("acc", "grid", [], ("acc", "data", [int_pos(rng, rand_expr(rng, d - 2, odd), odd)], None)))
    return ("acc", "fs", [int_pos(rng, rand_expr(rng, d - 1, odd), odd)], ("acc", "dx", [], None))


# ----------------------------------------------------------------------------- grammar strings
OPTOK_TEXT = {"OPlus": "+", "OMinus": "-", "OStar": "*", "OSlash": "/", "OPow": "**", "OEq": "==", "ONe": "/=",
              "OLt": "<", "OLe": "<=", "OGt": ">", "OGe": ">=", "ONot": ".NOT.", "OAnd": ".AND.", "OOr": ".OR.",
              "OEqv": ".EQV.", "ONeqv": ".NEQV."}
ALT_TEXT = {"OEq": ".eq.", "ONe": ".ne.", "OLt": ".lt.", "OLe": ".le.", "OGt": ".gt.", "OGe": ".ge.",
            "ONot": ".not.", "OAnd": ".and.", "OOr": ".or.", "OEqv": ".eqv.", "ONeqv": ".neqv."}
BIN_TOKS = [k for k in OPTOK_TEXT if k != "ONot"]
G_LITS = [("1", "(TLit (mkForm CInt \"1\" false KNone))"), ("2_8", "(TLit (mkForm CInt \"2\" false (KNum 8%N)))"),
          ("2.5", "(TLit (mkForm CReal \"2.5\" false KNone))"), ("1.0d0", "(TLit (mkForm CReal \"1.0d0\" false KNone))"),
          (".true.", "(TLit (mkForm CBool \"true\" false KNone))")]


def rand_tokens(rng, d):
    """(text pieces, coq tokens) of an operator string: operand (binop operand)*; mostly valid,
    sometimes a prefix operator directly after a binary one, doubled prefixes, chained relationals"""
    text, toks = [], []

    def emit(t, c):
        text.append(t)
        toks.append(c)

    def op(k):
        spell = ALT_TEXT[k] if k in ALT_TEXT and rng.random() < 0.3 else OPTOK_TEXT[k]
        emit(spell, "(TOp %s)" % k)

    def primary(dd):
        r = rng.random()
        if dd > 0 and r < 0.28:
            emit("(", "TLP")
            flat(dd - 1)
            emit(")", "TRP")
        elif dd > 0 and r < 0.38:
            name, n = rng.choice([("MAX", 2), ("ABS", 1), ("arr", 2), ("v", 1)])
            emit(name, "(TName %s)" % core.coq_str(name))
            emit("(", "TLP")
            for i in range(n):
                if i:
                    emit(",", "TComma")
                mark = len(toks)
                flat(dd - 1)
                if name in ("arr", "v") and len(toks) == mark + 1 and "TLit" in toks[mark] and "CInt" not in toks[mark]:
                    # fparser2 reads name(<non-integer literal>) as a structure constructor
                    text[-1], toks[-1] = "j", '(TName "j")'
            emit(")", "TRP")
        elif r < 0.5:
            t, c = rng.choice(G_LITS)
            emit(t, c)
        else:
            n = rng.choice(SCALARS + INTS)
            emit(n, "(TName %s)" % core.coq_str(n))

    def operand(dd):
        r = rng.random()
        if r < 0.3:
            op(rng.choice(["OMinus", "OMinus", "OPlus", "ONot", "ONot"]))
            if rng.random() < 0.08:
                op(rng.choice(["OMinus", "ONot"]))
        primary(dd)

    def flat(dd):
        operand(dd)
        for _ in range(rng.choice([0, 1, 1, 2, 2, 3])):
            op(rng.choice(BIN_TOKS))
            operand(dd)

    flat(d)
    return " ".join(text), toks
