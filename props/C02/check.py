"""C02 — Written expressions keep the operation order of the PSyIR tree.

Tie: translator (props/C02/translate.py -> coq/C02/Gen.v: precedence table, operator spellings,
bracket rules recognised from the source shape) + correspondence (this file).

Model: coq/C02/Model.v (`wrd`/`write` = FortranWriter on expressions, `parse` = Fortran 2008
expression grammar).  Theorems: coq/Properties/C02.v.  For every generated tree the real
FortranWriter text is compared character by character with the model's text, the tree built by
the real FortranReader from that text with the model's `parse`, and the property itself
(re-read tree == original tree) is evaluated on the implementation.  Every concrete failure is
shrunk to a minimal tree and classified; classes listed open in known_findings.json print
KNOWN-FINDING, anything else is a VIOLATION."""
import json
import sys
import time
from pathlib import Path

from vlib import core

HERE = Path(__file__).resolve().parent
sys.path.insert(0, str(HERE))
import trees as T          # noqa: E402
import translate           # noqa: E402

HEADER = ("From PV Require Import C02.Syntax C02.Gen C02.Model.\n"
          "Require Import Coq.Strings.String Coq.NArith.NArith. Open Scope string_scope.")


def jsonable(t):
    if isinstance(t, (list, tuple)):
        return [jsonable(x) for x in t]
    return t


def from_json(t):
    """inverse of jsonable for tree tuples (lists of items stay lists)"""
    if not isinstance(t, list):
        return t
    k = t[0]
    if k == "lit":
        p = t[3]
        return ("lit", t[1], t[2], p if isinstance(p, str) else (p[0], p[1]))
    if k == "acc":
        return ("acc", t[1], [from_json(x) for x in t[2]], None if t[3] is None else from_json(t[3]))
    if k == "call":
        return ("call", t[1], [from_json(x) for x in t[2]])
    if k == "named":
        return ("named", t[1], from_json(t[2]))
    if k == "rng":
        return ("rng", from_json(t[1]), from_json(t[2]), from_json(t[3]))
    if k == "un":
        return ("un", t[1], from_json(t[2]))
    return ("bin", t[1], from_json(t[2]), from_json(t[3]))


def shape_ok_py(t, rules):
    """python mirror of Model.shape_ok (only used for the evidence histogram)"""
    for s in T.subterms(t):
        if s[0] == "bin":
            o, l = s[1], s[2]
            if l[0] == "bin" and T.LVL[l[1]] == T.LVL[o] and (
                    (T.LVL[o] == 8 and not rules[0]) or (T.LVL[o] == 4 and not rules[1])):
                return False
            if l[0] == "un" and not (T.LVL[o] <= T.PREMAX[l[1]] or rules[2] or (o == "Pow" and l[1] == "Neg")):
                return False
    return True


def generate(ctx):
    """[(family, tree)]"""
    rng = ctx.rng("gen")
    cases = [("depth3-all-ops", t) for t in T.depth3_all()]
    cases += [("same-operands", t) for t in T.same_operands()]
    cases += [("literals", t) for t in T.literal_cases()]
    chains3 = list(T.all_chains(3))
    if ctx.thorough:
        cases += [("chains3", t) for t in chains3]
    else:
        cases += [("chains3", t) for t in rng.sample(chains3, 1200)]
    for _ in range(ctx.pick(600, 15000)):
        k = rng.choice([4, 4, 5])
        cases.append(("chains%d" % k, T.chain([rng.choice(T.CHAIN_STEPS) for _ in range(k)])))
    for _ in range(ctx.pick(1000, 20000)):
        odd = 0.08 if rng.random() < 0.25 else 0.0
        cases.append(("random", T.rand_expr(rng, rng.choice([2, 3, 4, 4, 5, 6]), odd)))
    # corpus: witnesses of the known findings and earlier minimal failures run first
    corpus = []
    for f in sorted((HERE / "corpus").glob("*.json")) if (HERE / "corpus").exists() else []:
        for t in json.loads(f.read_text()):
            corpus.append(("corpus", from_json(t)))
    return corpus + cases


def run(ctx):
    ctx.cov["rule"] = (
        "expression trees over all 3 unary / 15 binary PSyIR operators: every tree with <= 2 operator "
        "levels (5472, exhaustive), left operand == right operand trees, operator chains of length 3 "
        "(sampled quick / all 35937 thorough) and 4-5 (sampled), random trees to depth 6 with literals "
        "of every kind and precision, intrinsic calls with named arguments, array / structure / "
        "array-of-structure accesses and ranges; non-trivial = an operation, literal, call or indexed "
        "access sits under an operation (a bracket or text-form decision is exercised); distinct = "
        "distinct tree; plus random operator strings parsed by the model grammar and by fparser2")
    ctx.cov["trusted_base"] = core.BASE_TRUST + [
        "coq/C02/Model.v is hand-written; tied to fortran.py on every run by translate.py (precedence table, "
        "operator spellings, AST hash of binaryoperation_node/unaryoperation_node) and by the correspondence",
        "the Fortran 2008 expression grammar in Model.v (parse) is my formalisation of R1002-R1022; fparser2 is "
        "compared with it on every written text and on random operator strings (one-directional: fparser2 "
        "accepts more, e.g. '.NOT. .NOT. a')",
        "tokenisation of the written text is not modelled: the model writer emits (token, text) pairs; the "
        "text is compared with the implementation's string, the tokens are what `parse` reads",
        "PSyIR builder/encoder of props/C02/trees.py (tree <-> PSyIR nodes) is trusted glue; the encoder's "
        "equality is cross-checked against PSyIR's own == on every case"]
    ctx.assumptions = [
        "fparser2_grammar: on text that is in the Fortran 2008 expression grammar, FortranReader/fparser2 builds "
        "the tree the grammar prescribes (checked on every case, not proved)",
        "domain: language-level PSyIR expressions (Reference, ArrayReference, structure accesses, Literal, "
        "IntrinsicCall, Range with explicit bounds, Unary/BinaryOperation); BinaryOperation.Operator.REM and "
        "character literals containing both quote characters are refused by the writer and are outside the domain"]
    # ------------------------------------------------------------------ translator
    try:
        info = translate.run()
    except translate.TranslateError as err:
        info = None
        ctx.log("translator refused the source: %s" % err)
        translate_error = str(err)
    else:
        translate_error = None
        ctx.log("translator: source shape=%s rules=%s" % (info["state"], info["rules"]))
        ctx.notes["source_shape"] = info["state"]
        ctx.notes["impl_rules"] = dict(zip(["pow_left", "rel_left", "un_left", "deep", "plus"], info["rules"]))
        ctx.notes["precedence_table"] = {"binary": info["bin_prec"], "unary": info["un_prec"]}
    # ------------------------------------------------------------------ proofs
    ok, rep = ctx.prove()
    ctx.log("proof ok=%s discharged=%d/%d" % (ok, ctx.cov["discharged"], ctx.cov["obligations"]))
    model_usable = translate_error is None and _model_builds(ctx)
    rules3 = tuple(info["rules"][:3]) if info else (False, False, False)
    # ------------------------------------------------------------------ implementation runs
    env = T.Env()
    cases = generate(ctx)
    seen, uniq = set(), []
    for fam, t in cases:
        key = T.freeze(t)
        if key in seen:
            continue
        seen.add(key)
        uniq.append((fam, t))
    t0 = time.time()
    results = []
    for fam, t in uniq:
        res = env.roundtrip(t)
        results.append(res)
        ctx.count(T.freeze(t), T.nontrivial(t))
        ctx.hist("family", fam)
        ctx.hist("depth", T.depth(t))
        ctx.hist("root", t[0] if t[0] not in ("un", "bin") else t[1])
        covered = T.wf_lits(t) and T.unit_step_ok(t) and shape_ok_py(t, rules3)
        ctx.hist("theorem_coverage", "covered-by-partial-theorem" if covered else "outside(side-condition false)")
        ctx.hist("impl_roundtrip", "ok" if res["impl_ok"] else ("reader-raised" if res["text"] and res["error"] else
                                                            "writer-raised" if res["text"] is None else "different-tree"))
        if res.get("psyir_eq") is not None and res["psyir_eq"] != res["impl_ok"]:
            ctx.hist("encoder_vs_psyir_eq", "DIFFER")
            ctx.notes.setdefault("encoder_vs_psyir_eq_examples", []).append(T.show(t))
    ctx.log("implementation: %d distinct trees in %.1fs" % (len(uniq), time.time() - t0))
    for fam in ("depth3-all-ops", "chains4", "random", "literals"):
        for (f, t), res in zip(uniq, results):
            if f == fam and T.depth(t) >= 3:
                ctx.sample({"family": fam, "tree": T.show(t), "written": res["text"],
                            "reread_equal": res["impl_ok"]}, limit=8)
                break
    # ------------------------------------------------------------------ the property on the implementation
    failing = [i for i, r in enumerate(results) if not r["impl_ok"]]
    concrete = classify_and_report(ctx, env, uniq, results, failing)
    # replay the witnesses of the open findings (also when the generators did not hit them)
    replay_known(ctx, env)
    # ------------------------------------------------------------------ model vs implementation
    disagree, nonstd = [], []
    if model_usable:
        coq_cases = [T.coq_case(t, r) for (_, t), r in zip(uniq, results)]
        t0 = time.time()
        shard = max(400, -(-len(coq_cases) // (4 * ctx.pick(1, 10))))
        strict_bad = ctx.coq_eval_failing(HEADER, "case", "agrees_strict_impl", coq_cases, shard=shard, timeout=1800)
        if strict_bad:
            # which of them are real disagreements, which only non-standard text the reader accepted
            sub = ctx.coq_eval_failing(HEADER, "case", "agrees_impl", [coq_cases[i] for i in strict_bad],
                                       shard=3000, timeout=1800)
            disagree = [strict_bad[j] for j in sub]
            nonstd = [i for i in strict_bad if i not in set(disagree)]
        ctx.log("model/implementation: %d cases evaluated by coqc in %.1fs, %d disagreements, %d with text "
                "outside the standard grammar that the reader accepted" % (len(coq_cases), time.time() - t0,
                                                                           len(disagree), len(nonstd)))
        ctx.cov["disagreements_checked"] = len(disagree)
        if report_nonstandard(ctx, uniq, results, nonstd, rules3):
            concrete = True
        if report_unexplained(ctx, env, uniq, results, disagree):
            concrete = True
        gbad = grammar_cases(ctx, env)
    else:
        gbad = []
    # ------------------------------------------------------------------ verdict
    if (disagree or gbad or not ok or translate_error) and not concrete:
        first = None
        if disagree:
            i = disagree[0]
            shown = ctx.coq_eval_show(HEADER, ["write_text impl_rules %s" % T.coq_expr(uniq[i][1]),
                                               "parse (write impl_rules %s)" % T.coq_expr(uniq[i][1])])
            first = {"tree": T.show(uniq[i][1]), "tree_json": jsonable(uniq[i][1]),
                     "implementation": results[i], "model_text_and_parse": shown}
        ctx.violation({"property": "C02",
                       "broken": ("translator refused the source: " + translate_error) if translate_error else
                                 "correspondence Model.wrd/parse = FortranWriter/FortranReader" if disagree else
                                 "fparser2 disagrees with the grammar model on an operator string" if gbad else
                                 "proof obligations of Properties/C02.v (after regenerating Gen.v)",
                       "proof_report": rep if not ok else None, "first_differing_case": first,
                       "n_differing": len(disagree), "grammar_disagreements": gbad[:3],
                       "note": "no tree was found on which the re-read expression differs from the original "
                               "other than the known classes"}, no_input=True)


def _model_builds(ctx):
    okm, out = ctx.coq_make(["C02/Model.vo"], timeout=900)
    if not okm:
        ctx.log("Model.vo does not build:\n" + out[-1500:])
    return okm


def minimal_key(env, t):
    """shrink a failing tree, keeping its failure mode (text the reader refuses / a different tree),
    and classify the minimal one"""
    unreadable = env.roundtrip(t)["reread"] is None

    def fails(c):
        r = env.roundtrip(c)
        return (not r["impl_ok"]) and ((r["reread"] is None) == unreadable)
    small = T.shrink(t, fails)
    rs = sorted(set(T.reasons(small)))
    if len(rs) == 1:
        key = rs[0]
        if key == T.K_SIGN and unreadable:
            key = T.K_SIGN_BAD      # the sign ends up directly after a binary operator
        return small, key
    return small, "unclassified/%s" % ("+".join(rs) if rs else "no-known-shape")


def classify_and_report(ctx, env, uniq, results, failing):
    """Every failing case -> key of its minimal failing sub-tree.  Cases are grouped by the set of
    known shapes they contain; per group a few are shrunk; cases without any known shape are all
    shrunk.  Returns True when a violation with a concrete input was reported."""
    groups = {}
    for i in failing:
        groups.setdefault(tuple(sorted(set(T.reasons(uniq[i][1])))), []).append(i)
    reported = False
    for rs, idxs in sorted(groups.items()):
        idxs.sort(key=lambda i: T.size(uniq[i][1]))
        ctx.hist("failure_class", "+".join(rs) if rs else "no-known-shape", len(idxs))
        # a few per failure mode (text refused by the reader / different tree), all if unexplained
        bad_text = [i for i in idxs if results[i]["reread"] is None]
        other = [i for i in idxs if results[i]["reread"] is not None]
        todo = (bad_text[:2] + other[:2]) if rs else idxs[:8]
        for i in todo:
            small, key = minimal_key(env, uniq[i][1])
            res = env.roundtrip(small)
            replay = {"property": "C02", "tree": T.show(small), "tree_json": jsonable(small),
                      "written": res["text"], "reread": T.show(res["reread"]) if res["reread"] else None,
                      "reader_error": res["error"], "found_from": T.show(uniq[i][1]),
                      "replay": "props/C02/trees.py: Env().roundtrip(tree) (FortranWriter on `res_ = <tree>`, "
                                "then FortranReader.psyir_from_expression on the text; compare trees)"}
            what = "tree %s is written '%s' and read back as %s" % (
                T.show(small), res["text"], T.show(res["reread"]) if res["reread"] else "an error (%s)" % res["error"])
            if ctx.finding(key, what, replay):
                reported = True
    return reported


def report_unexplained(ctx, env, uniq, results, disagree):
    """Disagreeing cases on which the implementation's round trip FAILS although the model of the
    recognised writer says the tree is read back: a failure that the known classes do not explain,
    whatever shape it shrinks to.  Reported with the concrete (shrunk) tree."""
    reported = 0
    todo = sorted((i for i in disagree if not results[i]["impl_ok"]), key=lambda i: T.size(uniq[i][1]))
    for i in todo[:12]:
        if reported >= 3:
            break
        t = uniq[i][1]
        unreadable = results[i]["reread"] is None

        def fails(cand):
            r = env.roundtrip(cand)
            return (not r["impl_ok"]) and ((r["reread"] is None) == unreadable)
        small = T.shrink(t, fails)
        verdict = ctx.coq_eval_show(HEADER, ["model_rt impl_rules %s" % T.coq_expr(small)])[0]
        if not verdict.lstrip("= ").startswith("true"):
            continue     # the model explains this failure (a known class); the disagreement is elsewhere
        res = env.roundtrip(small)
        ctx.violation({"property": "C02", "key": "unexplained/" + ("+".join(sorted(set(T.reasons(small)))) or "no-known-shape"),
                       "tree": T.show(small), "tree_json": jsonable(small), "written": res["text"],
                       "reread": T.show(res["reread"]) if res["reread"] else None, "reader_error": res["error"],
                       "found_from": T.show(t),
                       "what": "the implementation does not read this tree back although the model of the writer "
                               "recognised by translate.py does",
                       "replay": "props/C02/trees.py: Env().roundtrip(tree)"})
        reported += 1
    return reported > 0


_SHAPE_KEY = {"binop/pow-left-nested": T.K_POW, "binop/relational-chained": T.K_REL,
              "unop/not-left-of-tighter-binop": T.K_NOT, "unop/sign-left-of-tighter-binop": T.K_SIGN}


def live_reasons(t, rules3):
    """Keys of the known shapes present in t that the writer under test still leaves unbracketed
    (bracket rules recognised by translate.py), plus the literal / range shapes.  A shape whose
    bracket rule is implemented is written with brackets and cannot be what makes the text
    non-standard, so it is not blamed (it was: seed 3 attributed a .NOT.-left-of-'-' text inside a
    bracketed relational chain to the repaired relational-chained key)."""
    shape = set(_SHAPE_KEY.values())
    out = {_SHAPE_KEY[r] for r in T.shape_reasons(t, rules3)}
    out |= {r for r in T.reasons(t) if r not in shape}
    return sorted(out)


def report_nonstandard(ctx, uniq, results, nonstd, rules3=(False, False, False)):
    """trees whose written text is not in the Fortran grammar although fparser2 read it back:
    the property asks for standard-conforming text.  By the partial theorem such a tree contains
    one of the known shapes; each shape present is reported under its key."""
    reported = False
    for i in nonstd[:6]:
        t = uniq[i][1]
        rs = live_reasons(t, rules3) or ["unclassified/non-standard-text"]
        ctx.hist("failure_class", "non-standard-text:" + "+".join(rs))
        for key in rs:
            if ctx.finding(key, "tree %s is written '%s', which is not in the Fortran 2008 expression grammar"
                           % (T.show(t), results[i]["text"]),
                           {"property": "C02", "tree": T.show(t), "tree_json": jsonable(t),
                            "written": results[i]["text"], "why": "model grammar rejects the text; fparser2 accepts it"}):
                reported = True
    return reported


def replay_known(ctx, env):
    for k in ctx.known_findings():
        if k.get("status") != "open" or "tree_json" not in k.get("witness", {}):
            continue
        t = from_json(k["witness"]["tree_json"])
        res = env.roundtrip(t)
        ctx.hist("known_finding_replay", "%s:%s" % (k["key"], "reproduces" if not res["impl_ok"] else "fixed"))
        if not res["impl_ok"]:
            small, key = minimal_key(env, t)
            if key == k["key"]:
                ctx.finding(key, k.get("what", ""), {"tree": T.show(small), "written": res["text"]})


def grammar_cases(ctx, env):
    """model grammar vs fparser2 (through FortranReader) on random operator strings"""
    rng = ctx.rng("grammar")
    items, seen = [], set()
    for _ in range(ctx.pick(350, 5000)):
        text, toks = T.rand_tokens(rng, rng.choice(ctx.pick([1, 1, 2, 2], [1, 2, 2, 3])))
        if text in seen:
            continue
        seen.add(text)
        _, enc, err = env.read(text)
        items.append((text, toks, enc, err))
    coq = ["(%s, %s)" % (core.coq_list(toks), "None" if enc is None else "(Some %s)" % T.coq_expr(enc))
           for _, toks, enc, _ in items]
    bad = ctx.coq_eval_failing(HEADER, "gcase", "gagrees", coq, shard=4000, timeout=1800)
    lenient = ctx.coq_eval_failing(HEADER, "gcase", "gstrict", coq, shard=4000, timeout=1800) if ctx.thorough else []
    accepted = sum(1 for it in items if it[2] is not None)
    ctx.cov["evaluations"] += len(items)
    ctx.hist("grammar_strings", "accepted-by-fparser2", accepted)
    ctx.hist("grammar_strings", "refused-by-fparser2", len(items) - accepted)
    ctx.hist("grammar_strings", "accepted-by-fparser2-but-not-in-standard-grammar", len(lenient))
    ctx.notes["grammar_lenient_examples"] = [items[i][0] for i in lenient[:4]]
    ctx.log("grammar: %d strings, %d accepted by fparser2, %d where fparser2 differs from the model, "
            "%d accepted by fparser2 only" % (len(items), accepted, len(bad), len(lenient)))
    return [{"text": items[i][0], "fparser2_tree": T.show(items[i][2]) if items[i][2] else None} for i in bad]
