"""C06 extension of the shared MiniFortran glue (vlib/minifort.py): array sections, whole-array
references, array-valued expressions with true Fortran array-assignment semantics (the whole
right-hand side is evaluated before any element is stored), reductions SUM/PRODUCT/MINVAL/MAXVAL
with MASK/DIM, DOT_PRODUCT, MATMUL, HUGE.

Extended tuple forms (a superset of vlib.minifort's):
  index inside ("idx", a, [..]) :  expr | ("rng", lo, hi, st)
  ("var", a) with `a` an array         : the whole array (declared bounds)
  ("assign", a, [], rhs) with `a` array: whole-array assignment
  ("red", K, arr, dim|None, mask|None) : K in Sum Product Minval Maxval
  ("intr", "IDot", [v1, v2]) ("intr", "IMatmul", [m1, m2])
  ("huge",)                            : HUGE(x) -- a constant larger than every value in play
Plain programs (no extended form) are interpreted exactly as vlib.minifort.interp does (checked by
the harness on every transformed program that lies in the plain subset).
"""
from vlib import minifort as mf

OutOfSubset = mf.OutOfSubset
HUGE = 10 ** 30
REDS = {"SUM": "Sum", "PRODUCT": "Product", "MINVAL": "Minval", "MAXVAL": "Maxval"}
ELEMENTAL = ("IMin", "IMax", "IMod", "IAbs", "ISign")


# ------------------------------------------------------------------ PSyIR -> tuples
def _named_args(node):
    """-> (positional list, {name: node})"""
    pos, named = [], {}
    for nm, arg in zip(node.argument_names, node.arguments):
        if nm:
            named[nm.lower()] = arg
        else:
            pos.append(arg)
    return pos, named


def expr_from_psyir(node):
    from psyclone.psyir import nodes as N
    if isinstance(node, N.Literal):
        return mf._lit(node)
    if isinstance(node, N.Range):
        return ("rng", expr_from_psyir(node.start), expr_from_psyir(node.stop), expr_from_psyir(node.step))
    if isinstance(node, N.ArrayReference):
        return ("idx", node.name.lower(), [expr_from_psyir(c) for c in node.indices])
    if isinstance(node, N.Reference) and type(node) is N.Reference:
        return ("var", node.name.lower())
    if isinstance(node, N.UnaryOperation):
        o = node.operator.name
        e = expr_from_psyir(node.children[0])
        if o == "MINUS":
            return ("un", "Neg", e)
        if o == "PLUS":
            return e
        if o == "NOT":
            return ("un", "Not", e)
    if isinstance(node, N.BinaryOperation):
        o = node.operator.name
        if o == "REM":
            return ("intr", "IMod", [expr_from_psyir(c) for c in node.children])
        if o in mf.BINOPS:
            return ("bin", mf.BINOPS[o], expr_from_psyir(node.children[0]), expr_from_psyir(node.children[1]))
    if isinstance(node, N.IntrinsicCall):
        nm = node.intrinsic.name
        pos, named = _named_args(node)
        if nm in ("LBOUND", "UBOUND", "SIZE"):
            arr = pos[0]
            dim = pos[1] if len(pos) > 1 else named.get("dim")
            if type(arr) is not N.Reference or dim is None or set(named) - {"dim"}:
                raise OutOfSubset("inquiry form")
            return ("intr", mf.INTRS[nm], [("var", arr.name.lower()), expr_from_psyir(dim)])
        if nm in mf.INTRS and not named:
            return ("intr", mf.INTRS[nm], [expr_from_psyir(c) for c in pos])
        if nm in REDS:
            order = ["array", "dim", "mask"]
            slots = {}
            for i, a in enumerate(pos):
                slots[order[i]] = a
            for k, a in named.items():
                if k not in order or k in slots:
                    raise OutOfSubset("reduction argument " + k)
                slots[k] = a
            return ("red", REDS[nm], expr_from_psyir(slots["array"]),
                    expr_from_psyir(slots["dim"]) if "dim" in slots else None,
                    expr_from_psyir(slots["mask"]) if "mask" in slots else None)
        if nm == "DOT_PRODUCT" and not named and len(pos) == 2:
            return ("intr", "IDot", [expr_from_psyir(c) for c in pos])
        if nm == "MATMUL" and not named and len(pos) == 2:
            return ("intr", "IMatmul", [expr_from_psyir(c) for c in pos])
        if nm == "HUGE" and len(pos) == 1:
            return ("huge",)
    raise OutOfSubset("expression node %s" % type(node).__name__)


def stmts_from_psyir(nodes):
    return [stmt_from_psyir(n) for n in nodes]


def stmt_from_psyir(n):
    from psyclone.psyir import nodes as N
    if isinstance(n, N.Assignment):
        lhs = n.lhs
        if isinstance(lhs, N.ArrayReference):
            e = expr_from_psyir(lhs)
            return ("assign", e[1], e[2], expr_from_psyir(n.rhs))
        if type(lhs) is N.Reference:
            return ("assign", lhs.name.lower(), [], expr_from_psyir(n.rhs))
        raise OutOfSubset("lhs %s" % type(lhs).__name__)
    if isinstance(n, N.IfBlock):
        return ("if", expr_from_psyir(n.condition), stmts_from_psyir(n.if_body.children),
                stmts_from_psyir(n.else_body.children) if n.else_body else [])
    if isinstance(n, N.Loop) and type(n).__name__ == "Loop":
        return ("do", n.variable.name.lower(), expr_from_psyir(n.start_expr), expr_from_psyir(n.stop_expr),
                expr_from_psyir(n.step_expr), stmts_from_psyir(n.loop_body.children))
    raise OutOfSubset("statement node %s" % type(n).__name__)


def from_psyir(routine):
    return stmts_from_psyir(routine.children)


# ------------------------------------------------------------------ tuples -> Fortran
def expr_to_fortran(e):
    k = e[0]
    if k == "rng":
        return "%s:%s:%s" % tuple(expr_to_fortran(x) for x in e[1:4])
    if k == "idx":
        return "%s(%s)" % (e[1], ", ".join(expr_to_fortran(x) for x in e[2]))
    if k == "un":
        return "(-%s)" % expr_to_fortran(e[2]) if e[1] == "Neg" else "(.not. %s)" % expr_to_fortran(e[2])
    if k == "bin":
        return "(%s %s %s)" % (expr_to_fortran(e[2]), mf.F_BIN[e[1]], expr_to_fortran(e[3]))
    if k == "intr":
        f = {"IDot": "DOT_PRODUCT", "IMatmul": "MATMUL"}.get(e[1]) or mf.F_INTR[e[1]]
        return "%s(%s)" % (f, ", ".join(expr_to_fortran(x) for x in e[2]))
    if k == "red":
        args = [expr_to_fortran(e[2])]
        if e[3] is not None:
            args.append("dim=" + expr_to_fortran(e[3]))
        if e[4] is not None:
            args.append("mask=" + expr_to_fortran(e[4]))
        return "%s(%s)" % ({v: k2 for k2, v in REDS.items()}[e[1]], ", ".join(args))
    if k == "huge":
        return "HUGE(1.0)"
    return mf.expr_to_fortran(e)


def stmts_to_fortran(ss, ind="  "):
    out = []
    for s in ss:
        k = s[0]
        if k == "assign":
            lhs = s[1] if not s[2] else "%s(%s)" % (s[1], ", ".join(expr_to_fortran(x) for x in s[2]))
            out.append("%s%s = %s" % (ind, lhs, expr_to_fortran(s[3])))
        elif k == "if":
            out.append("%sif (%s) then" % (ind, expr_to_fortran(s[1])))
            out += stmts_to_fortran(s[2], ind + "  ")
            if s[3]:
                out.append(ind + "else")
                out += stmts_to_fortran(s[3], ind + "  ")
            out.append(ind + "end if")
        elif k == "do":
            out.append("%sdo %s = %s, %s, %s" % (ind, s[1], expr_to_fortran(s[2]), expr_to_fortran(s[3]),
                                                expr_to_fortran(s[4])))
            out += stmts_to_fortran(s[5], ind + "  ")
            out.append(ind + "end do")
        else:
            raise ValueError(s)
    return out


def to_fortran(name, stmts, decls):
    """decls: list of (var, 'integer'|'real'|'logical', [(lb,ub)..])."""
    lines = ["subroutine %s()" % name]
    for v, ty, bs in decls:
        if bs:
            lines.append("  %s, dimension(%s) :: %s" % (ty, ", ".join("%d:%d" % b for b in bs), v))
        else:
            lines.append("  %s :: %s" % (ty, v))
    lines += stmts_to_fortran(stmts)
    lines.append("end subroutine %s" % name)
    return "\n".join(lines) + "\n"


# ------------------------------------------------------------------ interpreter with array values
class Fault(Exception):
    pass


class Arr:
    """array value: shape (extents) and data in column-major order"""
    __slots__ = ("shape", "data")

    def __init__(self, shape, data):
        self.shape = tuple(shape)
        self.data = list(data)


def _colmajor(lists):
    res = [()]
    for lst in lists:
        res = [t + (i,) for i in lst for t in res]   # new dimension is the slowest so far
    return res


def _range_values(lo, hi, st):
    if st == 0:
        raise Fault("zerostep")
    n = max(0, mf._quot(hi - lo + st, st))
    return [lo + k * st for k in range(n)]


def _lift(f, *vals):
    """elemental application with scalar broadcast; shapes must conform."""
    shp = None
    for v in vals:
        if isinstance(v, Arr):
            if shp is None:
                shp = v.shape
            elif shp != v.shape:
                raise Fault("shape")
    if shp is None:
        return f(*vals)
    n = 1
    for x in shp:
        n *= x
    return Arr(shp, [f(*[(v.data[i] if isinstance(v, Arr) else v) for v in vals]) for i in range(n)])


def _bin(o, a, b):
    if o == "Add":
        return a + b
    if o == "Sub":
        return a - b
    if o == "Mul":
        return a * b
    if o == "Div":
        if b == 0:
            raise Fault("div0")
        return mf._quot(a, b)
    if o == "Pow":
        if b < 0:
            raise Fault("negexp")
        return a ** b
    if o == "Eq":
        return int(a == b)
    if o == "Ne":
        return int(a != b)
    if o == "Lt":
        return int(a < b)
    if o == "Le":
        return int(a <= b)
    if o == "Gt":
        return int(a > b)
    if o == "Ge":
        return int(a >= b)
    if o == "And":
        return int(a != 0 and b != 0)
    if o == "Or":
        return int(a != 0 or b != 0)
    raise ValueError(o)


def _elem(f, vs):
    if f == "IMin" and vs:
        return min(vs)
    if f == "IMax" and vs:
        return max(vs)
    if f == "IMod" and len(vs) == 2:
        if vs[1] == 0:
            raise Fault("mod0")
        return mf._rem(vs[0], vs[1])
    if f == "IAbs" and len(vs) == 1:
        return abs(vs[0])
    if f == "ISign" and len(vs) == 2:
        return abs(vs[0]) if vs[1] >= 0 else -abs(vs[0])
    raise Fault("intr")


class Machine:
    """store + bounds-checked access.  `oob` collects out-of-bounds accesses instead of faulting when
    strict is False (used for transformed programs: an out-of-bounds access is a symptom to report)."""

    def __init__(self, vals, bnds, strict=True):
        self.vals = dict(vals)
        self.bnds = bnds
        self.strict = strict
        self.oob = []
        self.fuel = 400000

    def tick(self):
        self.fuel -= 1
        if self.fuel <= 0:
            raise Fault("fuel")

    def check(self, a, ix):
        bs = self.bnds.get(a)
        if bs is None:
            if ix:
                raise Fault("index-on-scalar " + a)
            return
        if len(bs) != len(ix) or any(not (lb <= i <= ub) for i, (lb, ub) in zip(ix, bs)):
            if self.strict:
                raise Fault("oob %s%s" % (a, ix))
            self.oob.append((a, ix))

    def get(self, a, ix):
        self.check(a, ix)
        return self.vals.get((a, ix), 0)

    def put(self, a, ix, v):
        self.check(a, ix)
        self.vals[(a, ix)] = v

    # ---- designators
    def locs(self, a, ixs):
        """index expressions -> (shape, list of index tuples in column-major order)"""
        lists, shape = [], []
        for x in ixs:
            if x[0] == "rng":
                lo, hi, st = (self.scalar(y) for y in x[1:4])
                vs = _range_values(lo, hi, st)
                lists.append(vs)
                shape.append(len(vs))
            else:
                v = self.ev(x)
                if isinstance(v, Arr):
                    raise Fault("vector-subscript")
                lists.append([v])
        return tuple(shape), _colmajor(lists)

    def whole(self, a):
        bs = self.bnds[a]
        lists = [list(range(lb, ub + 1)) for lb, ub in bs]
        return tuple(len(x) for x in lists), _colmajor(lists)

    def scalar(self, e):
        v = self.ev(e)
        if isinstance(v, Arr):
            raise Fault("array-where-scalar")
        return v

    # ---- expressions
    def ev(self, e):
        self.tick()
        k = e[0]
        if k == "lit":
            return e[1]
        if k == "huge":
            return HUGE
        if k == "var":
            if e[1] in self.bnds:
                shp, locs = self.whole(e[1])
                return Arr(shp, [self.get(e[1], l) for l in locs])
            return self.vals.get((e[1], ()), 0)
        if k == "idx":
            shp, locs = self.locs(e[1], e[2])
            if not shp:
                return self.get(e[1], locs[0])
            return Arr(shp, [self.get(e[1], l) for l in locs])
        if k == "un":
            a = self.ev(e[2])
            return _lift((lambda x: -x) if e[1] == "Neg" else (lambda x: 1 if x == 0 else 0), a)
        if k == "bin":
            a = self.ev(e[2])
            b = self.ev(e[3])
            return _lift(lambda x, y: _bin(e[1], x, y), a, b)
        if k == "intr":
            f = e[1]
            if f in ("ILbound", "IUbound", "ISize"):
                if e[2][0][0] != "var" or e[2][0][1] not in self.bnds:
                    raise Fault("inquiry")
                d = self.scalar(e[2][1])
                bs = self.bnds[e[2][0][1]]
                if not 1 <= d <= len(bs):
                    raise Fault("inquiry")
                lb, ub = bs[d - 1]
                return lb if f == "ILbound" else ub if f == "IUbound" else max(0, ub - lb + 1)
            if f == "IDot":
                a, b = self.ev(e[2][0]), self.ev(e[2][1])
                if not (isinstance(a, Arr) and isinstance(b, Arr) and len(a.shape) == 1 and a.shape == b.shape):
                    raise Fault("shape")
                return sum(x * y for x, y in zip(a.data, b.data))
            if f == "IMatmul":
                a, b = self.ev(e[2][0]), self.ev(e[2][1])
                if not (isinstance(a, Arr) and isinstance(b, Arr) and len(a.shape) == 2):
                    raise Fault("shape")
                p, n = a.shape
                if len(b.shape) == 1:
                    if b.shape[0] != n:
                        raise Fault("shape")
                    return Arr((p,), [sum(a.data[i + p * kk] * b.data[kk] for kk in range(n)) for i in range(p)])
                if len(b.shape) == 2:
                    if b.shape[0] != n:
                        raise Fault("shape")
                    m = b.shape[1]
                    return Arr((p, m), [sum(a.data[i + p * kk] * b.data[kk + n * j] for kk in range(n))
                                        for j in range(m) for i in range(p)])
                raise Fault("shape")
            vs = [self.ev(x) for x in e[2]]
            return _lift(lambda *xs: _elem(f, list(xs)), *vs)
        if k == "red":
            return self.reduce(e)
        raise ValueError(e)

    def reduce(self, e):
        _, kind, arr, dim, mask = e
        a = self.ev(arr)
        if not isinstance(a, Arr):
            raise Fault("reduction-of-scalar")
        m = self.ev(mask) if mask is not None else 1
        if isinstance(m, Arr) and m.shape != a.shape:
            raise Fault("shape")

        def mk(i):
            return (m.data[i] if isinstance(m, Arr) else m) != 0

        def fold(items):
            if kind == "Sum":
                return sum(items)
            if kind == "Product":
                r = 1
                for x in items:
                    r *= x
                return r
            if kind == "Minval":
                return min(items) if items else HUGE
            return max(items) if items else -HUGE
        n = len(a.data)
        if dim is None:
            return fold([a.data[i] for i in range(n) if mk(i)])
        d = self.scalar(dim)
        rank = len(a.shape)
        if not 1 <= d <= rank:
            raise Fault("dim")
        if rank == 1:
            return fold([a.data[i] for i in range(n) if mk(i)])
        # result has the shape of `a` with dimension d removed
        strides = [1]
        for x in a.shape[:-1]:
            strides.append(strides[-1] * x)
        rshape = a.shape[:d - 1] + a.shape[d:]
        out = []
        for rt in _colmajor([list(range(x)) for x in rshape]):
            items = []
            for kk in range(a.shape[d - 1]):
                full = rt[:d - 1] + (kk,) + rt[d - 1:]
                i = sum(c * s for c, s in zip(full, strides))
                if mk(i):
                    items.append(a.data[i])
            out.append(fold(items))
        return Arr(rshape, out)

    # ---- statements
    def run(self, stmts):
        for st in stmts:
            self.tick()
            k = st[0]
            if k == "assign":
                a, ixs = st[1], st[2]
                if not ixs and a in self.bnds:
                    shp, locs = self.whole(a)
                elif not ixs:
                    shp, locs = (), None
                else:
                    shp, locs = self.locs(a, ixs)
                v = self.ev(st[3])            # the WHOLE right-hand side first
                if locs is None:
                    if isinstance(v, Arr):
                        raise Fault("shape")
                    self.vals[(a, ())] = v
                elif not shp and not (not ixs and a in self.bnds):
                    if isinstance(v, Arr):
                        raise Fault("shape")
                    self.put(a, locs[0], v)
                else:
                    if isinstance(v, Arr):
                        if v.shape != shp:
                            raise Fault("shape")
                        for l, x in zip(locs, v.data):
                            self.put(a, l, x)
                    else:
                        for l in locs:
                            self.put(a, l, v)
            elif k == "if":
                c = self.scalar(st[1])
                self.run(st[2] if c != 0 else st[3])
            elif k == "do":
                lo, hi, stp = self.scalar(st[2]), self.scalar(st[3]), self.scalar(st[4])
                if stp == 0:
                    raise Fault("zerostep")
                n = max(0, mf._quot(hi - lo + stp, stp))
                for kk in range(n):
                    self.vals[(st[1], ())] = lo + kk * stp
                    self.run(st[5])
                self.vals[(st[1], ())] = lo + n * stp
            else:
                raise ValueError(st)


def interp(stmts, vals, bnds, strict=True):
    """-> ("ok", vals, oob list) | ("fault", reason)"""
    m = Machine(vals, bnds, strict)
    try:
        m.run(stmts)
    except Fault as e:
        return ("fault", str(e))
    return ("ok", m.vals, m.oob)


# ------------------------------------------------------------------ helpers on tuples
def is_plain_expr(e):
    k = e[0]
    if k in ("lit", "var"):
        return True
    if k == "idx":
        return all(x[0] != "rng" and is_plain_expr(x) for x in e[2])
    if k == "un":
        return is_plain_expr(e[2])
    if k == "bin":
        return is_plain_expr(e[2]) and is_plain_expr(e[3])
    if k == "intr":
        return e[1] in mf.F_INTR and all(is_plain_expr(x) for x in e[2])
    return False


def is_plain(stmts, arrays):
    """True when the program lies in the shared MiniFortran subset (no sections / array values)."""
    for s in stmts:
        k = s[0]
        if k == "assign":
            if (not s[2] and s[1] in arrays) or not all(x[0] != "rng" and is_plain_expr(x) for x in s[2]) \
                    or not is_plain_expr(s[3]) or _mentions_whole(s[3], arrays):
                return False
        elif k == "if":
            if not is_plain_expr(s[1]) or not is_plain(s[2], arrays) or not is_plain(s[3], arrays):
                return False
        elif k == "do":
            if not all(is_plain_expr(x) for x in s[2:5]) or not is_plain(s[5], arrays):
                return False
        else:
            return False
    return True


def _mentions_whole(e, arrays):
    k = e[0]
    if k == "var":
        return e[1] in arrays
    if k == "idx":
        return any(_mentions_whole(x, arrays) for x in e[2])
    if k == "un":
        return _mentions_whole(e[2], arrays)
    if k == "bin":
        return _mentions_whole(e[2], arrays) or _mentions_whole(e[3], arrays)
    if k == "intr":
        args = e[2][1:] if e[1] in ("ILbound", "IUbound", "ISize") else e[2]
        return any(_mentions_whole(x, arrays) for x in args)
    return False


def subexprs(e):
    """pre-order walk of an expression (ranges included as nodes)."""
    yield e
    k = e[0]
    if k == "rng":
        for x in e[1:4]:
            yield from subexprs(x)
    elif k == "idx":
        for x in e[2]:
            yield from subexprs(x)
    elif k == "un":
        yield from subexprs(e[2])
    elif k == "bin":
        yield from subexprs(e[2])
        yield from subexprs(e[3])
    elif k == "intr":
        for x in e[2]:
            yield from subexprs(x)
    elif k == "red":
        yield from subexprs(e[2])
        if e[3] is not None:
            yield from subexprs(e[3])
        if e[4] is not None:
            yield from subexprs(e[4])


# ------------------------------------------------------------------ typed Fortran printer
class Printer:
    """Prints extended tuples as Fortran with literals typed by context (REAL data, INTEGER indices)."""

    def __init__(self, decls):
        self.ty = {v: t for v, t, _ in decls}

    def ty_of(self, e):
        k = e[0]
        if k in ("var", "idx"):
            return self.ty.get(e[1])
        if k == "un":
            return "logical" if e[1] == "Not" else self.ty_of(e[2])
        if k == "bin":
            if e[1] in ("Eq", "Ne", "Lt", "Le", "Gt", "Ge", "And", "Or"):
                return "logical"
            return self.ty_of(e[2]) or self.ty_of(e[3])
        if k == "intr":
            if e[1] in ("ILbound", "IUbound", "ISize"):
                return "integer"
            for x in e[2]:
                t = self.ty_of(x)
                if t:
                    return t
            return None
        if k == "red":
            return self.ty_of(e[2])
        if k == "huge":
            return "real"
        return None

    def lit(self, z, ty):
        if ty == "logical":
            return ".true." if z else ".false."
        s = "%d.0" % z if ty == "real" else "%d" % z
        return s if z >= 0 else "(%s)" % s

    def pe(self, e, ty):
        k = e[0]
        if k == "lit":
            return self.lit(e[1], ty)
        if k == "huge":
            return "HUGE(1.0)"
        if k == "var":
            return e[1]
        if k == "rng":
            return "%s:%s:%s" % tuple(self.pe(x, "integer") for x in e[1:4])
        if k == "idx":
            return "%s(%s)" % (e[1], ", ".join(self.pe(x, "integer") for x in e[2]))
        if k == "un":
            if e[1] == "Neg":
                return "(-%s)" % self.pe(e[2], ty)
            return "(.not. %s)" % self.pe(e[2], "logical")
        if k == "bin":
            o = e[1]
            if o in ("And", "Or"):
                return "(%s %s %s)" % (self.pe(e[2], "logical"), mf.F_BIN[o], self.pe(e[3], "logical"))
            if o in ("Eq", "Ne", "Lt", "Le", "Gt", "Ge"):
                t = self.ty_of(e[2]) or self.ty_of(e[3]) or "real"
                return "(%s %s %s)" % (self.pe(e[2], t), mf.F_BIN[o], self.pe(e[3], t))
            t = ty if ty in ("real", "integer") else (self.ty_of(e) or "real")
            return "(%s %s %s)" % (self.pe(e[2], t), mf.F_BIN[o], self.pe(e[3], t))
        if k == "intr":
            f = e[1]
            if f in ("ILbound", "IUbound", "ISize"):
                return "%s(%s, %s)" % (mf.F_INTR[f], e[2][0][1], self.pe(e[2][1], "integer"))
            if f in ("IDot", "IMatmul"):
                return "%s(%s)" % ({"IDot": "DOT_PRODUCT", "IMatmul": "MATMUL"}[f],
                                   ", ".join(self.pe(x, "real") for x in e[2]))
            t = ty if ty in ("real", "integer") else (self.ty_of(e) or "real")
            return "%s(%s)" % (mf.F_INTR[f], ", ".join(self.pe(x, t) for x in e[2]))
        if k == "red":
            t = self.ty_of(e[2]) or "real"
            args = [self.pe(e[2], t)]
            if e[3] is not None:
                args.append("dim=" + self.pe(e[3], "integer"))
            if e[4] is not None:
                args.append("mask=" + self.pe(e[4], "logical"))
            return "%s(%s)" % ({v: k2 for k2, v in REDS.items()}[e[1]], ", ".join(args))
        raise ValueError(e)

    def ps(self, ss, ind="  "):
        out = []
        for s in ss:
            k = s[0]
            if k == "assign":
                t = self.ty.get(s[1], "real")
                lhs = s[1] if not s[2] else "%s(%s)" % (s[1], ", ".join(self.pe(x, "integer") for x in s[2]))
                out.append("%s%s = %s" % (ind, lhs, self.pe(s[3], t)))
            elif k == "if":
                out.append("%sif (%s) then" % (ind, self.pe(s[1], "logical")))
                out += self.ps(s[2], ind + "  ")
                if s[3]:
                    out.append(ind + "else")
                    out += self.ps(s[3], ind + "  ")
                out.append(ind + "end if")
            elif k == "do":
                out.append("%sdo %s = %s, %s, %s" % (ind, s[1], self.pe(s[2], "integer"), self.pe(s[3], "integer"),
                                                    self.pe(s[4], "integer")))
                out += self.ps(s[5], ind + "  ")
                out.append(ind + "end do")
            else:
                raise ValueError(s)
        return out


def decl_line(v, ty, bs, form, arg):
    """form: None / ("explicit",) | ("assumed", [lb or None per dimension]) | ("alloc",)"""
    attrs = []
    if bs:
        kind = form[0] if form else "explicit"
        if kind == "explicit":
            attrs.append("dimension(%s)" % ", ".join("%d:%d" % b for b in bs))
        elif kind == "assumed":
            attrs.append("dimension(%s)" % ", ".join(":" if lb is None else "%d:" % lb for lb in form[1]))
        elif kind == "alloc":
            attrs = ["allocatable", "dimension(%s)" % ", ".join(":" for _ in bs)]
        else:
            raise ValueError(form)
    if arg:
        attrs.append("intent(inout)")
    return "  %s :: %s" % (", ".join([ty] + attrs), v)


def fortran_text(name, stmts, decls, forms=None, args=False):
    """A routine whose variables are locals (args=False) or all dummy arguments (args=True); `forms` gives the
    declaration form of the arrays (assumed-shape / explicit lower bound / allocatable need args=True)."""
    forms = forms or {}
    lines = ["subroutine %s(%s)" % (name, ", ".join(v for v, _, _ in decls) if args else "")]
    for v, ty, bs in decls:
        lines.append(decl_line(v, ty, bs, forms.get(v), args))
    lines += Printer(decls).ps(stmts)
    lines.append("end subroutine %s" % name)
    return "\n".join(lines) + "\n"
