"""gfortran cross-check (thorough tier): for a sample of accepted cases compile the ORIGINAL and the
TRANSFORMED routine bodies as programs (gfortran -fcheck=all), run them from one initial store and
compare stdout (the property's stated observation point) with each other and with props/C06/ext.py:
  * original (gfortran) == ext.interp(original)      -- validates the harness' array semantics;
  * [transformed (gfortran) == original (gfortran)]  ==  [ext.interp verdict]  -- validates the verdicts."""
import ext
from vlib import core

CLIP = 10 ** 9
HELPERS = """contains
  subroutine outr(v)
    real, intent(in) :: v
    if (abs(v) > 1.0e9) then
      print *, 999999999
    else
      print *, nint(v)
    end if
  end subroutine outr
"""


def new_type(name):
    return "integer" if name.startswith("idx") or name in ("i", "j", "ii") or name.startswith(("i_", "j_", "ii_")) \
        else "real"


def all_locs(bs):
    out = [()]
    for lb, ub in bs:
        out = [t + (i,) for i in range(lb, ub + 1) for t in out]
    return out


SHIFT = 3      # actual arguments of assumed-shape dummies are declared with other bounds (same extents)


def program_text(name, stmts, decls, extra, vals, forms=None, args=False):
    """module with the routine (new symbols `extra` are locals) + a driver that owns the actual data, calls the
    routine and prints every original variable.  With args=False the routine body is inlined in the program."""
    forms = forms or {}
    ty = {v: t for v, t, _ in decls}
    all_decls = list(decls) + [(v, new_type(v), []) for v in extra]
    body = ext.Printer(all_decls).ps(stmts)
    lines = []
    if args:
        lines += ["module kern_%s" % name, "  implicit none", "contains",
                  "  subroutine sub(%s)" % ", ".join(v for v, _, _ in decls)]
        for v, t, bs in decls:
            lines.append("  " + ext.decl_line(v, t, bs, forms.get(v), True))
        for v in extra:
            lines.append("    %s :: %s" % (new_type(v), v))
        lines += ["  " + l for l in body]
        lines += ["  end subroutine sub", "end module kern_%s" % name]
    lines += ["program %s" % name]
    if args:
        lines.append("  use kern_%s, only: sub" % name)
    lines.append("  implicit none")
    shift = {}
    allocs = []
    for v, t, bs in decls:
        kind = forms.get(v, ("explicit",))[0] if (bs and args) else "explicit"
        shift[v] = SHIFT if kind == "assumed" else 0
        if kind == "alloc":
            lines.append("  %s, allocatable, dimension(%s) :: %s" % (t, ", ".join(":" for _ in bs), v))
            allocs.append("  allocate(%s(%s))" % (v, ", ".join("%d:%d" % b for b in bs)))
        else:
            lines.append("  %s%s :: %s" % (t, ", dimension(%s)" % ", ".join(
                "%d:%d" % (lb + shift[v], ub + shift[v]) for lb, ub in bs) if bs else "", v))
    if not args:
        for v in extra:
            lines.append("  %s :: %s" % (new_type(v), v))
    lines.append("  integer :: vq1__, vq2__, vq3__")
    lines += allocs
    for v, t, bs in decls:
        for loc in (all_locs(bs) if bs else [()]):
            z = vals.get((v, loc), 0)
            tgt = v if not loc else "%s(%s)" % (v, ", ".join(str(i + shift[v]) for i in loc))
            if t == "real":
                lines.append("  %s = %d.0" % (tgt, z))
            elif t == "integer":
                lines.append("  %s = %d" % (tgt, z))
            else:
                lines.append("  %s = %s" % (tgt, ".true." if z else ".false."))
    if args:
        lines.append("  call sub(%s)" % ", ".join(v for v, _, _ in decls))
    else:
        lines += body
    for v, t, bs in decls:
        ref = v
        ind = "  "
        loops = []
        if bs:
            vars_ = ["vq1__", "vq2__", "vq3__"][:len(bs)]
            ref = "%s(%s)" % (v, ", ".join(vars_))
            # first dimension innermost (column-major order)
            for q, (lb, ub) in reversed(list(zip(vars_, bs))):
                loops.append("%sdo %s = %d, %d" % (ind, q, lb + shift[v], ub + shift[v]))
                ind += "  "
        lines += loops
        if t == "real":
            lines.append("%scall outr(%s)" % (ind, ref))
        elif t == "integer":
            lines.append("%sprint *, %s" % (ind, ref))
        else:
            lines.append("%sprint *, merge(1, 0, %s)" % (ind, ref))
        for _ in loops:
            ind = ind[:-2]
            lines.append("%send do" % ind)
    lines.append(HELPERS + "end program %s" % name)
    return "\n".join(lines) + "\n"


def expected(decls, vals):
    out = []
    for v, t, bs in decls:
        for loc in (all_locs(bs) if bs else [()]):
            z = vals.get((v, loc), 0)
            out.append(z if abs(z) <= CLIP or t != "real" else 999999999)
    return out


def crosscheck(ctx, items):
    """items: list of (case, res, vals, python_differs).  Returns list of problems (dicts)."""
    d = ctx.scratch / "gf"
    d.mkdir(exist_ok=True)
    for i, (case, res, vals, _) in enumerate(items):
        fa = (case.get("forms"), case.get("args", False))
        (d / ("o%d.f90" % i)).write_text(program_text("o%d" % i, res["orig"], case["decls"], [], vals, *fa))
        (d / ("t%d.f90" % i)).write_text(program_text("t%d" % i, res["out"], case["decls"], res["new_names"], vals, *fa))
    core.sh("ls *.f90 | xargs -P 8 -I{} sh -c 'mkdir -p m_{} && gfortran -fcheck=all -ffree-line-length-none -O0 -w -J m_{} -o {}.x {} 2>{}.err'", cwd=d, timeout=1500)
    problems, n_ok, n_diff = [], 0, 0

    def run(tag, i):
        x = d / ("%s%d.f90.x" % (tag, i))
        if not x.exists():
            return ("compile-error", (d / ("%s%d.f90.err" % (tag, i))).read_text()[-400:])
        rc, out = core.sh([str(x)], timeout=20)
        if rc != 0:
            return ("runtime-error", out[-300:])
        try:
            return ("ok", [int(t) for t in out.split()])
        except ValueError:
            return ("bad-output", out[-300:])
    for i, (case, res, vals, py_differs) in enumerate(items):
        o = run("o", i)
        t = run("t", i)
        r0 = ext.interp(res["orig"], vals, case["arrays"], strict=True)
        exp = expected(case["decls"], r0[1]) if r0[0] == "ok" else None
        if o[0] != "ok" or exp is None or o[1] != exp:
            problems.append({"what": "gfortran run of the ORIGINAL differs from props/C06/ext.py", "gfortran": o,
                             "ext.interp": exp, "text": (d / ("o%d.f90" % i)).read_text()})
            continue
        gf_differs = t[0] != "ok" or t[1] != o[1]
        if gf_differs != py_differs:
            problems.append({"what": "gfortran verdict (transformed vs original) differs from the harness verdict",
                             "gfortran_differs": gf_differs, "harness_differs": py_differs, "transformed_run": t,
                             "original_run": o, "text": (d / ("t%d.f90" % i)).read_text()})
            continue
        n_ok += 1
        n_diff += gf_differs
    ctx.notes["gfortran_crosscheck"] = {"programs": 2 * len(items), "cases_consistent": n_ok,
                                        "cases_where_transformed_differs": n_diff, "problems": len(problems)}
    return problems
