"""Seeded generators of C06 cases.  A case is a dict
   {kind, trans, decls, arrays, stmts (extended tuples), target (how to find the node), int_stream}
Programs are single routines: optional leading scalar statements, the target statement (possibly
inside a DO / IF context), optional trailing statement.  Array data is REAL (integer-valued, exactly
representable); n, m, k are INTEGER scalars; x, y, z REAL scalars; lm a LOGICAL array."""

L = lambda z: ("lit", z)
V = lambda x: ("var", x)


def lb_of(a, d=1):
    return ("intr", "ILbound", [V(a), L(d)])


def ub_of(a, d=1):
    return ("intr", "IUbound", [V(a), L(d)])


def add(e, c):
    if c == 0:
        return e
    return ("bin", "Add" if c > 0 else "Sub", e, L(abs(c)))


class Gen:
    def __init__(self, rng):
        self.r = rng
        r = rng
        self.arrays = {}
        for a in "abc":
            lb = r.choice([1, 1, 1, 0, 2, 3]) if r.random() < 0.96 else -2
            self.arrays[a] = [(lb, lb + r.choice([6, 8, 10]) - 1)]
        if r.random() < 0.5:
            self.arrays["b"] = list(self.arrays["a"])
        for a in "de":
            lb1, lb2 = r.choice([1, 1, 0, 2]), r.choice([1, 1, 0, 3])
            self.arrays[a] = [(lb1, lb1 + r.choice([3, 4, 5]) - 1), (lb2, lb2 + r.choice([3, 4, 5]) - 1)]
        if r.random() < 0.5:
            self.arrays["e"] = list(self.arrays["d"])
        self.arrays["lm"] = list(self.arrays["a"])
        self.logical = {"lm"}
        self.forms = {}
        # half of the cases: explicit-shape locals only (the shapes covered by the Coq model)
        self.args = r.random() < 0.6
        self.mixed_forms = self.args and r.random() < 0.8
        self.assign_forms(list(self.arrays))
        self.int_arrays = set()
        self.rscalars = ["x", "y", "z"]
        self.iscalars = ["n", "m", "k"]

    def assign_forms(self, names):
        """declaration form per array: explicit shape, assumed shape (with / without explicit lower bounds) or
        allocatable; the EFFECTIVE bounds (self.arrays) are what the routine sees and are not changed."""
        r = self.r
        for a in names:
            if not self.mixed_forms:
                self.forms[a] = ("explicit",)
                continue
            c = r.random()
            if c < 0.35:
                self.forms[a] = ("explicit",)
            elif c < 0.88:
                self.forms[a] = ("assumed", [None if (lb == 1 and r.random() < 0.6) else lb for lb, _ in self.arrays[a]])
            else:
                self.forms[a] = ("alloc",)

    def decls(self):
        d = [(v, "real", []) for v in self.rscalars] + [(v, "integer", []) for v in self.iscalars]
        for a, bs in sorted(self.arrays.items()):
            ty = "logical" if a in self.logical else "integer" if a in self.int_arrays else "real"
            d.append((a, ty, bs))
        return d

    # ------------------------------------------------------------ sections
    def sec1(self, a, dim, cnt, st, form=None):
        """a range over dimension `dim` (1-based) of array a with `cnt` elements and step st, in bounds."""
        r = self.r
        lb, ub = self.arrays[a][dim - 1]
        if cnt == 0:
            s = r.randint(lb, ub)
            e = s - 1 if st > 0 else s + 1
        else:
            span = (cnt - 1) * abs(st)
            if span > ub - lb:
                return None
            if st > 0:
                s = r.randint(lb, ub - span)
                e = s + span
                if st > 1 and e + 1 <= ub and r.random() < 0.3:
                    e += 1            # slack smaller than the step
            else:
                s = r.randint(lb + span, ub)
                e = s - span
        step = L(st) if st > 0 else ("un", "Neg", L(-st))
        se = lb_of(a, dim) if (st > 0 and s == lb and r.random() < 0.6) else L(s)
        ee = ub_of(a, dim) if (st > 0 and e == ub and r.random() < 0.6) else L(e)
        return ("rng", se, ee, step), s

    def sec_at(self, a, dim, s, cnt, st):
        """range starting exactly at s (or None if out of bounds)."""
        lb, ub = self.arrays[a][dim - 1]
        e = s + (cnt - 1) * st
        if cnt == 0:
            e = s - 1 if st > 0 else s + 1
            if not lb <= s <= ub:
                return None
        elif not (lb <= s <= ub and lb <= e <= ub):
            return None
        step = L(st) if st > 0 else ("un", "Neg", L(-st))
        return ("rng", L(s), L(e), step)

    def scalar_term(self):
        r = self.r
        c = r.random()
        if c < 0.4:
            return V(r.choice(self.rscalars))
        if c < 0.7:
            return L(r.randint(-3, 4))
        a = r.choice("abc")
        lb, ub = self.arrays[a][0]
        return ("idx", a, [L(r.randint(lb, ub))])

    # ------------------------------------------------------------ array assignment cases
    def arrassign(self):
        r = self.r
        c = r.random()
        if c < 0.62:
            st = self.arrassign_1d()
        elif c < 0.8:
            st = self.arrassign_var_bounds()
        else:
            st = self.arrassign_2d()
        return st

    def combine(self, terms):
        r = self.r
        e = terms[0]
        for t in terms[1:]:
            e = ("bin", r.choice(["Add", "Sub", "Mul", "Add"]), e, t)
        if r.random() < 0.15:
            e = ("intr", "IAbs", [e])
        elif r.random() < 0.1:
            e = ("intr", r.choice(["IMin", "IMax"]), [e, self.scalar_term()])
        return e

    def arrassign_1d(self):
        r = self.r
        a = r.choice("abc")
        lb, ub = self.arrays[a][0]
        st = r.choice([1, 1, 1, 1, 2, -1, 3])
        maxcnt = (ub - lb) // abs(st) + 1
        cnt = r.choice([0, 1, 2, 3, 5, maxcnt, maxcnt - 1])
        cnt = max(0, min(cnt, maxcnt))
        lhs_rng, s = self.sec1(a, 1, cnt, st)
        terms = []
        for _ in range(r.choice([1, 1, 2, 2, 3])):
            c = r.random()
            if c < 0.3:            # same array, shifted / same section
                off = r.choice([0, 0, 1, -1, 2, -2, 1, -1])
                rg = self.sec_at(a, 1, s + off, cnt, st)
                if rg is None:
                    rg = lhs_rng
                elif off == 0:
                    rg = lhs_rng
                terms.append(("idx", a, [rg]))
            elif c < 0.62:          # other 1-D array
                b = r.choice([x for x in "abc" if x != a])
                st2 = st if r.random() < 0.85 else r.choice([1, 2, -1])
                got = self.sec1(b, 1, cnt, st2)
                if got is None:
                    terms.append(self.scalar_term())
                else:
                    terms.append(("idx", b, [got[0]]))
            elif c < 0.72:          # row/column of a 2-D array
                d = r.choice("de")
                dim = r.choice([1, 2])
                got = self.sec1(d, dim, cnt, st if r.random() < 0.9 else 1)
                if got is None:
                    terms.append(self.scalar_term())
                else:
                    o = 3 - dim
                    lbo, ubo = self.arrays[d][o - 1]
                    ix = [None, None]
                    ix[dim - 1] = got[0]
                    ix[o - 1] = L(r.randint(lbo, ubo))
                    terms.append(("idx", d, ix))
            elif c < 0.8:           # an element of the LHS array
                terms.append(("idx", a, [L(r.randint(lb, ub))]))
            else:
                terms.append(self.scalar_term())
        return ("assign", a, [lhs_rng], self.combine(terms))

    def arrassign_var_bounds(self):
        r = self.r
        a = r.choice("abc")
        form = r.choice(["nm", "nm", "n_plus", "lb_n", "n_ub"])
        if form == "nm":
            lo, hi = V("n"), V("m")
        elif form == "n_plus":
            w = r.choice([1, 2, 4])
            lo, hi = V("n"), add(V("n"), w)
        elif form == "lb_n":
            lo, hi = lb_of(a), V("n")
        else:
            lo, hi = V("n"), ub_of(a)
        lhs = ("rng", lo, hi, L(1))
        terms = []
        for _ in range(r.choice([1, 2])):
            c = r.random()
            if c < 0.6:
                b = r.choice("abc")
                off = r.choice([0, 1, -1, 2, 0])
                if form in ("lb_n", "n_ub") and b != a:
                    off = 0 if self.arrays[b] == self.arrays[a] else off
                lo2 = add(lo, off) if lo[0] != "intr" else (lb_of(b) if off == 0 and b != a else add(lo, off))
                hi2 = add(hi, off) if hi[0] != "intr" else (ub_of(b) if off == 0 and b != a else add(hi, off))
                terms.append(("idx", b, [("rng", lo2, hi2, L(1))]))
            else:
                terms.append(self.scalar_term())
        if not any(t[0] == "idx" and t[2][0][0] == "rng" for t in terms):
            terms.append(("idx", r.choice("abc"), [("rng", lo, hi, L(1))]))
        return ("assign", a, [lhs], self.combine(terms))

    def arrassign_2d(self):
        r = self.r
        d = r.choice("de")
        o = "e" if d == "d" else "d"
        (l1, u1), (l2, u2) = self.arrays[d]
        c = r.random()
        if c < 0.35:               # one column / row
            dim = r.choice([1, 2])
            lbd, ubd = self.arrays[d][dim - 1]
            cnt = r.choice([ubd - lbd + 1, 2, 3, 0])
            cnt = min(cnt, ubd - lbd + 1)
            rg, s = self.sec1(d, dim, cnt, 1)
            fix = 3 - dim
            lbf, ubf = self.arrays[d][fix - 1]
            ix = [None, None]
            ix[dim - 1] = rg
            ix[fix - 1] = r.choice([L(r.randint(lbf, ubf)), V("k")])
            terms = []
            for _ in range(r.choice([1, 2])):
                q = r.random()
                if q < 0.4:        # other array same/other dim
                    src = r.choice([o, d])
                    sdim = r.choice([1, 2])
                    got = self.sec1(src, sdim, cnt, 1)
                    if got:
                        sfix = 3 - sdim
                        lbo, ubo = self.arrays[src][sfix - 1]
                        jx = [None, None]
                        jx[sdim - 1] = got[0]
                        jx[sfix - 1] = L(r.randint(lbo, ubo))
                        terms.append(("idx", src, jx))
                        continue
                if q < 0.7:
                    b = r.choice("abc")
                    got = self.sec1(b, 1, cnt, 1)
                    if got:
                        terms.append(("idx", b, [got[0]]))
                        continue
                terms.append(self.scalar_term())
            return ("assign", d, ix, self.combine(terms))
        # two ranges
        c1 = r.choice([u1 - l1 + 1, 2, 3])
        c1 = min(c1, u1 - l1 + 1)
        c2 = r.choice([u2 - l2 + 1, 2, 1, 0])
        c2 = min(c2, u2 - l2 + 1)
        rg1, s1 = self.sec1(d, 1, c1, 1)
        rg2, s2 = self.sec1(d, 2, c2, 1)
        terms = []
        for _ in range(r.choice([1, 2])):
            q = r.random()
            if q < 0.35:           # same array shifted
                o1, o2 = r.choice([0, 1, -1]), r.choice([0, 1, -1])
                g1 = self.sec_at(d, 1, s1 + o1, c1, 1)
                g2 = self.sec_at(d, 2, s2 + o2, c2, 1)
                if g1 and g2:
                    terms.append(("idx", d, [g1 if o1 else rg1, g2 if o2 else rg2]))
                    continue
            if q < 0.8:
                g1 = self.sec1(o, 1, c1, 1)
                g2 = self.sec1(o, 2, c2, 1)
                if g1 and g2:
                    terms.append(("idx", o, [g1[0], g2[0]]))
                    continue
            terms.append(self.scalar_term())
        return ("assign", d, [rg1, rg2], self.combine(terms))

    # ------------------------------------------------------------ whole-array / constant-index statements
    def whole_array_stmt(self):
        r = self.r
        a, b = r.sample(["a", "b", "c"], 2)
        ext = lambda n: self.arrays[n][0][1] - self.arrays[n][0][0]
        cands = [v for v in "abc" if ext(v) == ext(a)]
        terms = [V(r.choice(cands)) for _ in range(r.choice([1, 2]))]
        if r.random() < 0.5:
            terms.append(self.scalar_term())
        return ("assign", a, [], self.combine(terms))

    def const_index_stmt(self):
        r = self.r
        if r.random() < 0.6:
            a, b = r.choice("abc"), r.choice("abc")
            form = r.choice(["lit", "n", "n-1", "k"])
            if form == "lit":
                lo = max(self.arrays[a][0][0], self.arrays[b][0][0])
                ix = L(lo + r.randint(0, 3))
            elif form == "n":
                ix = V("n")
            elif form == "n-1":
                ix = add(V("n"), -1)
            else:
                ix = V("k")
            ix2 = ix if r.random() < 0.85 else add(ix, 1)
            rhs = ("bin", "Add", ("idx", b, [ix2]), self.scalar_term())
            if r.random() < 0.3:
                rhs = ("bin", "Mul", rhs, ("idx", a, [ix]))
            return ("assign", a, [ix], rhs)
        d = r.choice("de")
        o = "e" if d == "d" else "d"
        i1 = r.choice([L(max(self.arrays["d"][0][0], self.arrays["e"][0][0]) + 1), V("n")])
        i2 = r.choice([L(max(self.arrays["d"][1][0], self.arrays["e"][1][0]) + 1), add(V("n"), -1), V("k")])
        j1 = i1 if r.random() < 0.85 else add(i1, 1)
        return ("assign", d, [i1, i2], ("bin", "Add", ("idx", o, [j1, i2]), self.scalar_term()))

    # ------------------------------------------------------------ scalar intrinsic statements
    def sexpr(self, depth=0, integer=False):
        """scalar REAL expression (integer-valued), or INTEGER expression for the malformed stream."""
        r = self.r
        c = r.random()
        if depth >= 2 or c < 0.35:
            q = r.random()
            if integer:
                return V(r.choice(self.iscalars)) if q < 0.6 else L(r.randint(-4, 5))
            if q < 0.45:
                return V(r.choice(self.rscalars))
            if q < 0.65:
                return L(r.randint(-4, 5))
            a = r.choice("abc")
            lb, ub = self.arrays[a][0]
            return ("idx", a, [r.choice([L(r.randint(lb, ub)), V("k")])])
        if c < 0.8:
            return ("bin", r.choice(["Add", "Sub", "Mul"]), self.sexpr(depth + 1, integer), self.sexpr(depth + 1, integer))
        if c < 0.88:
            x = self.sexpr(depth + 1, integer)
            return ("un", "Neg", x) if x != L(0) else L(1)
        f = r.choice(["IAbs", "ISign", "IMin", "IMax"])
        n = {"IAbs": 1, "ISign": 2}.get(f) or r.choice([2, 2, 3])
        return ("intr", f, [self.sexpr(depth + 1, integer) for _ in range(n)])

    def intrinsic_stmt(self, f, integer=False):
        r = self.r
        n = {"IAbs": 1, "ISign": 2}.get(f) or r.choice([2, 2, 3, 4])
        call = ("intr", f, [self.sexpr(1, integer) for _ in range(n)])
        c = r.random()
        if c < 0.3:
            rhs = call
        elif c < 0.6:
            rhs = ("bin", r.choice(["Add", "Sub", "Mul"]), call, self.sexpr(1, integer))
        elif c < 0.8:
            rhs = ("bin", r.choice(["Add", "Sub", "Mul"]), self.sexpr(1, integer), call)
        else:
            rhs = ("bin", "Add", ("un", "Neg", call), ("intr", f, call[2][:n]))
        if integer:
            if r.random() < 0.5:
                rhs = ("bin", "Div", rhs, L(2))
            return ("assign", r.choice(["n", "m"]), [], rhs)
        if r.random() < 0.25:
            a = r.choice("abc")
            lb, ub = self.arrays[a][0]
            return ("assign", a, [r.choice([L(r.randint(lb, ub)), V("k")])], rhs)
        return ("assign", r.choice(self.rscalars), [], rhs)

    # ------------------------------------------------------------ reductions
    def red_array_expr(self, allow_2d=True):
        """-> (array expression, shape key) built from conformable sections."""
        r = self.r
        c = r.random()
        if c < 0.25:
            a = r.choice("abc")
            return V(a), ("w", a)
        if c < 0.35 and allow_2d:
            d = r.choice("de")
            return V(d), ("w", d)
        if c < 0.45 and allow_2d:
            d = r.choice("de")
            (l1, u1), (l2, u2) = self.arrays[d]
            c1, c2 = r.randint(1, u1 - l1 + 1), r.randint(0, u2 - l2 + 1)
            return ("idx", d, [self.sec1(d, 1, c1, 1)[0], self.sec1(d, 2, c2, 1)[0]]), ("s2", c1, c2)
        a = r.choice("abc")
        lb, ub = self.arrays[a][0]
        st = r.choice([1, 1, 1, 2, -1])
        maxcnt = (ub - lb) // abs(st) + 1
        cnt = min(maxcnt, r.choice([0, 1, 2, 4, maxcnt]))
        if r.random() < 0.2:
            return ("idx", a, [("rng", L(lb), V("n"), L(1))]), ("vn", a)
        return ("idx", a, [self.sec1(a, 1, cnt, st)[0]]), ("s1", cnt, st)

    def conform(self, key, other_than=None):
        """another array expression conformable with shape key (or None)."""
        r = self.r
        if key[0] == "w":
            a = key[1]
            cands = [b for b in self.arrays if b not in self.logical and len(self.arrays[b]) == len(self.arrays[a]) and
                     all(u - l == u2 - l2 for (l, u), (l2, u2) in zip(self.arrays[a], self.arrays[b]))]
            return V(r.choice(cands))
        if key[0] == "s1":
            b = r.choice("abc")
            st2 = key[2] if r.random() < 0.85 else r.choice([1, 2])
            got = self.sec1(b, 1, key[1], st2)
            return ("idx", b, [got[0]]) if got else None
        if key[0] == "s2":
            d = r.choice("de")
            g1, g2 = self.sec1(d, 1, key[1], 1), self.sec1(d, 2, key[2], 1)
            return ("idx", d, [g1[0], g2[0]]) if g1 and g2 else None
        if key[0] == "vn":
            b = r.choice("abc")
            off = r.choice([0, 0, 1])
            return ("idx", b, [("rng", L(self.arrays[key[1]][0][0] + off), add(V("n"), off), L(1))])
        return None

    def reduction_stmt(self, kind, with_dim=False):
        r = self.r
        arr, key = self.red_array_expr()
        c = r.random()
        if c < 0.3:
            o = self.conform(key)
            if o is not None:
                arr = ("bin", r.choice(["Mul", "Add", "Sub"]), arr, o)
        elif c < 0.45:
            arr = ("bin", r.choice(["Mul", "Add"]), arr, self.scalar_term())
        elif c < 0.5:
            arr = ("intr", "IAbs", [arr])
        mask = None
        if r.random() < 0.4:
            mo = self.conform(key) if r.random() < 0.7 else None
            q = r.random()
            if key == ("w", "a") and q < 0.25:
                mask = V("lm")
            elif mo is not None:
                mask = ("bin", r.choice(["Gt", "Lt", "Ge", "Ne"]), mo, self.scalar_term() if r.random() < 0.8 else V("x"))
        dim = L(r.choice([1, 1, 2]) if key[0] in ("w", "s2") and key[1] in ("d", "e") or key[0] == "s2" else 1) \
            if with_dim else None
        call = ("red", kind, arr, dim, mask)
        lhs_arr = None
        q = r.random()
        if with_dim:
            # 1-D array argument: scalar result; 2-D: array result of the remaining extent
            rank2 = key[0] == "s2" or (key[0] == "w" and key[1] in "de")
            if rank2:
                if key[0] == "s2":
                    exts = (key[1], key[2])
                else:
                    exts = tuple(u - l + 1 for l, u in self.arrays[key[1]])
                rext = exts[1] if dim[1] == 1 else exts[0]
                tgt = r.choice("abc")
                got = self.sec1(tgt, 1, rext, 1)
                if got is None:
                    return ("assign", "x", [], ("red", kind, arr, None, mask))
                return ("assign", tgt, [got[0]], call)
            return ("assign", "x", [], call)
        if q < 0.4:
            rhs = call
        elif q < 0.6:
            rhs = ("bin", r.choice(["Add", "Mul", "Sub"]), call, self.sexpr(1))
        elif q < 0.75:
            rhs = ("bin", r.choice(["Add", "Sub"]), self.sexpr(1), call)
        else:
            arr2, key2 = self.red_array_expr()
            other = ("red", kind, arr2, None, None)
            rhs = ("bin", r.choice(["Sub", "Add"]), other, call) if r.random() < 0.5 else \
                ("bin", r.choice(["Sub", "Add"]), call, other)
        q = r.random()
        if q < 0.7:
            return ("assign", r.choice(self.rscalars), [], rhs)
        a = r.choice("abc")
        lb, ub = self.arrays[a][0]
        return ("assign", a, [r.choice([L(r.randint(lb, ub)), V("k")])], rhs)

    # ------------------------------------------------------------ DOT_PRODUCT / MATMUL
    def setup_linear(self):
        """fresh arrays for the linear-algebra cases: v1,v2 vectors; m1,m2 matrices; r1 / r2 results."""
        r = self.r
        p, n, q = r.choice([2, 3, 4]), r.choice([1, 2, 3]), r.choice([2, 3])
        same = r.random() < 0.6
        lbs = [1, 1, 1, 0, 2, 3]
        pick = (lambda: 1) if same and r.random() < 0.5 else (lambda: r.choice(lbs))
        base = pick()
        lbp, lbn, lbq = (base, base, base) if same else (pick(), pick(), pick())

        def B(lb, ext):
            return (lb, lb + ext - 1)
        A = self.arrays
        A["m1"] = [B(lbp, p), B(lbn, n)]
        A["m2"] = [B(lbn if same else pick(), n), B(lbq, q)]
        A["v1"] = [B(lbn if same else pick(), n)]
        A["v2"] = [B(lbn if same or r.random() < 0.5 else pick(), n)]
        A["r1"] = [B(lbp if same else pick(), p)]
        A["r2"] = [B(lbp if same else pick(), p), B(lbq if same else pick(), q)]
        A["m3"] = [B(lbp, p), B(lbn, n), B(1, 2)]
        self.assign_forms(["m1", "m2", "v1", "v2", "r1", "r2", "m3"])

    def dot_stmt(self):
        r = self.r
        self.setup_linear()
        f = r.random()
        def vec(v):
            q = r.random()
            if q < 0.5:
                return V(v)
            return ("idx", v, [("rng", lb_of(v), ub_of(v), L(1))])
        if f < 0.7:
            args = [vec("v1"), vec("v2")]
        elif f < 0.85:
            # column of a matrix: m2(:, j) has extent n
            j = r.randint(*self.arrays["m2"][1])
            args = [("idx", "m2", [("rng", lb_of("m2", 1), ub_of("m2", 1), L(1)), L(j)]), vec("v1")]
            if r.random() < 0.5:
                args.reverse()
        else:
            args = [vec("v1"), ("idx", "v2", [("rng", L(self.arrays["v2"][0][0]), L(self.arrays["v2"][0][1]), L(1))])]
        call = ("intr", "IDot", args)
        q = r.random()
        rhs = call if q < 0.5 else ("bin", r.choice(["Add", "Mul"]), call, self.sexpr(1)) if q < 0.8 else \
            ("bin", "Add", V("x"), call)
        return ("assign", "x", [], rhs)

    def matmul_stmt(self):
        r = self.r
        self.setup_linear()
        f = r.random()
        def full(a):
            if r.random() < 0.6:
                return V(a)
            return ("idx", a, [("rng", lb_of(a, d + 1), ub_of(a, d + 1), L(1)) for d in range(len(self.arrays[a]))])
        if f < 0.55:
            return ("assign", "r1", [] if r.random() < 0.6 else [("rng", lb_of("r1"), ub_of("r1"), L(1))],
                    ("intr", "IMatmul", [full("m1"), full("v1")]))
        if f < 0.9:
            lhs = [] if r.random() < 0.6 else [("rng", lb_of("r2", 1), ub_of("r2", 1), L(1)),
                                              ("rng", lb_of("r2", 2), ub_of("r2", 2), L(1))]
            return ("assign", "r2", lhs, ("intr", "IMatmul", [full("m1"), full("m2")]))
        # slice of a rank-3 array as the matrix
        m3 = ("idx", "m3", [("rng", lb_of("m3", 1), ub_of("m3", 1), L(1)), ("rng", lb_of("m3", 2), ub_of("m3", 2), L(1)),
                            L(r.choice([1, 2]))])
        return ("assign", "r1", [], ("intr", "IMatmul", [m3, full("v1")]))

    # ------------------------------------------------------------ contexts
    def wrap(self, st, allow_loop=True):
        """embed the target statement; returns the full statement list."""
        r = self.r
        pre, post = [], []
        if r.random() < 0.4:
            pre.append(("assign", "y", [], ("bin", "Add", V("x"), L(r.randint(1, 3)))))
        if r.random() < 0.4:
            post.append(("assign", "z", [], ("bin", "Sub", V("x"), V("y"))))
        c = r.random()
        if c < 0.65 or not allow_loop:
            body = [st]
        elif c < 0.85:
            body = [("do", "k", L(1), L(r.choice([1, 2, 3])), L(1), [st])]
        else:
            body = [("if", ("bin", r.choice(["Gt", "Le"]), V("x"), L(0)), [st], [])]
        return pre + body + post

    def store(self, rng=None):
        r = rng or self.r
        vals = {}
        for v in self.rscalars:
            vals[(v, ())] = r.randint(-3, 4)
        for v in self.iscalars:
            vals[(v, ())] = r.randint(-2, 9)
        if r.random() < 0.5:
            vals[("m", ())] = vals[("n", ())] + r.choice([-1, 0, 1, 2, 3, 4])
        for a, bs in self.arrays.items():
            idx = [()]
            for lb, ub in bs:
                idx = [t + (i,) for i in range(lb, ub + 1) for t in idx]
            for t in idx:
                vals[(a, t)] = r.choice([0, 1]) if a in self.logical else r.randint(-3, 5)
        return vals
