"""Encoding of accepted C06 cases as Coq terms for the correspondence with coq/C06/Model.v:
the model's `apply` output must equal the implementation's output tree (stmts_eqb), and the Coq
semantics of the original construct must agree with props/C06/ext.py on one store."""
import ext
from vlib import minifort as mf

HOLE = "hole__"
DUMMY_TMP = "tmp_unused__"
EFUN = {"IAbs": "FAbs", "IMin": "FMin", "IMax": "FMax", "ISign": "FSign", "IMod": "FMod"}


class Skip(Exception):
    """case outside the modelled subset"""


class TwoRanges(Exception):
    """an array assignment with two ranges per accessor: encoded for Corr3.check3"""


# ------------------------------------------------------------------ plain tuples -> Coq (with HUGE)
def pe(e, nm):
    k = e[0]
    if k == "huge":
        return "(ELit HUGE)"
    if k == "lit":
        return "(ELit (%d))" % e[1]
    if k == "var":
        return "(EVar %d%%nat)" % nm.get(e[1])
    if k == "idx":
        if any(x[0] == "rng" for x in e[2]):
            raise Skip("range in scalar expression")
        return "(EIdx %d%%nat [%s])" % (nm.get(e[1]), "; ".join(pe(x, nm) for x in e[2]))
    if k == "un":
        return "(EUn %s %s)" % (e[1], pe(e[2], nm))
    if k == "bin":
        return "(EBin %s %s %s)" % (e[1], pe(e[2], nm), pe(e[3], nm))
    if k == "intr" and e[1] in mf.F_INTR:
        return "(EIntr %s [%s])" % (e[1], "; ".join(pe(x, nm) for x in e[2]))
    raise Skip("expression " + k)


def ps(ss, nm):
    out = []
    for s in ss:
        k = s[0]
        if k == "assign":
            out.append("(SAssign %d%%nat [%s] %s)" % (nm.get(s[1]), "; ".join(pe(x, nm) for x in s[2]), pe(s[3], nm)))
        elif k == "if":
            out.append("(SIf %s %s %s)" % (pe(s[1], nm), ps(s[2], nm), ps(s[3], nm)))
        elif k == "do":
            out.append("(SDo %d%%nat %s %s %s %s)" % (nm.get(s[1]), pe(s[2], nm), pe(s[3], nm), pe(s[4], nm),
                                                     ps(s[5], nm)))
        else:
            raise Skip("statement " + k)
    return "[" + "; ".join(out) + "]"


def pexprs(es, nm):
    return "[" + "; ".join(pe(x, nm) for x in es) + "]"


# ------------------------------------------------------------------ extended tuples -> aexpr
def pidx(x, nm):
    if x[0] == "rng":
        return "(IRange %s %s %s)" % (pe(x[1], nm), pe(x[2], nm), pe(x[3], nm))
    return "(IExp %s)" % pe(x, nm)


_FORMS = {}


def pa(e, nm, arrays):
    k = e[0]
    if k == "lit":
        return "(ALit (%d))" % e[1]
    if k == "var":
        if e[1] in arrays:      # Reference2ArrayRangeTrans: declared bounds, or LBOUND/UBOUND for assumed shape
            if _FORMS.get(e[1], ("explicit",))[0] == "explicit":
                return "(ASec %d%%nat [%s])" % (nm.get(e[1]), "; ".join(
                    "(IRange (ELit (%d)) (ELit (%d)) (ELit 1))" % b for b in arrays[e[1]]))
            a = nm.get(e[1])
            return "(ASec %d%%nat [%s])" % (a, "; ".join(
                "(IRange (EIntr ILbound [EVar %d%%nat; ELit %d]) (EIntr IUbound [EVar %d%%nat; ELit %d]) (ELit 1))"
                % (a, k + 1, a, k + 1) for k in range(len(arrays[e[1]]))))
        return "(AVar %d%%nat)" % nm.get(e[1])
    if k == "idx":
        return "(ASec %d%%nat [%s])" % (nm.get(e[1]), "; ".join(pidx(x, nm) for x in e[2]))
    if k == "un":
        return "(AUn %s %s)" % (e[1], pa(e[2], nm, arrays))
    if k == "bin":
        return "(ABin %s %s %s)" % (e[1], pa(e[2], nm, arrays), pa(e[3], nm, arrays))
    if k == "intr" and e[1] in EFUN and len(e[2]) == 1:
        return "(AIntr1 %s %s)" % (EFUN[e[1]], pa(e[2][0], nm, arrays))
    if k == "intr" and e[1] in EFUN and len(e[2]) == 2:
        return "(AIntr2 %s %s %s)" % (EFUN[e[1]], pa(e[2][0], nm, arrays), pa(e[2][1], nm, arrays))
    raise Skip("array expression " + k)


def pdecls(arrays, nm):
    return "[" + "; ".join("(%d%%nat, [%s])" % (nm.get(a), "; ".join("((%d), (%d))" % b for b in bs))
                           for a, bs in sorted(arrays.items())) + "]"


def ploc(l, nm):
    return "(%d%%nat, [%s])" % (nm.get(l[0]), "; ".join("(%d)" % i for i in l[1]))


def names_of_stmt(T):
    acc = {T[1]}
    for e in list(T[2]) + [T[3]]:
        for x in ext.subexprs(e):
            if x[0] in ("var", "idx"):
                acc.add(x[1])
    return acc


def small_store(vals, arrays, nm, T):
    """the store restricted to the names the statement mentions (keeps the Coq literal small)"""
    keep = names_of_stmt(T)
    return mf.store_to_coq({k: v for k, v in vals.items() if k[0] in keep},
                           {a: b for a, b in arrays.items() if a in keep}, nm)


def pstore_expect(vals, arrays, nm, expect, T):
    return "(Some (%s, [%s]))" % (small_store(vals, arrays, nm, T),
                                  "; ".join("(%s, (%d))" % (ploc(l, nm), v) for l, v in expect))


# ------------------------------------------------------------------ locating the rewritten statement
def diff_segment(orig, out):
    """-> (target statement of orig, list of statements replacing it in out) or None"""
    if orig == out:
        return None
    i = 0
    while i < len(orig) and i < len(out) and orig[i] == out[i]:
        i += 1
    if i >= len(orig):
        return None
    a = orig[i]
    tail = len(orig) - i - 1
    seg = out[i:len(out) - tail] if tail else out[i:]
    if (orig[i + 1:] != (out[len(out) - tail:] if tail else [])):
        return None
    if len(seg) == 1 and seg[0][0] == a[0] and a[0] in ("do", "if"):
        b = seg[0]
        if a[0] == "do" and a[1:5] == b[1:5]:
            r = diff_segment(a[5], b[5])
            if r:
                return r
        if a[0] == "if" and a[1] == b[1]:
            r = diff_segment(a[2], b[2]) or diff_segment(a[3], b[3])
            if r:
                return r
    return a, seg


def paths_of(e, pred, pre=()):
    """pre-order paths (Model.get_at convention) of sub-expressions satisfying pred"""
    out = []
    if pred(e):
        out.append(list(pre))
    k = e[0]
    if k == "un":
        out += paths_of(e[2], pred, pre + (0,))
    elif k == "bin":
        out += paths_of(e[2], pred, pre + (0,))
        out += paths_of(e[3], pred, pre + (1,))
    elif k in ("idx", "intr"):
        for i, x in enumerate(e[2]):
            if k == "intr" and e[1] in ("ILbound", "IUbound", "ISize") and i == 0:
                continue
            out += paths_of(x, pred, pre + (i,))
    return out


def replace_node(e, target_id, new):
    """replace the node `target_id` (by identity) in an extended expression"""
    if e is target_id:
        return new
    k = e[0]
    if k == "un":
        return ("un", e[1], replace_node(e[2], target_id, new))
    if k == "bin":
        return ("bin", e[1], replace_node(e[2], target_id, new), replace_node(e[3], target_id, new))
    if k in ("idx", "intr"):
        return (k, e[1], [replace_node(x, target_id, new) for x in e[2]])
    return e


def pick_name(new_names, prefix):
    c = [n for n in new_names if n == prefix or n.startswith(prefix + "_")]
    if len(c) != 1:
        raise Skip("fresh name %s: %s" % (prefix, new_names))
    return c[0]


# ------------------------------------------------------------------ one case -> Coq term
def encode(case, res, vals, with_store=True):
    kind, arrays = case["kind"], case["arrays"]
    seg = diff_segment(res["orig"], res["out"])
    if not seg:
        raise Skip("cannot locate the rewritten statement")
    T, R = seg
    if T[0] != "assign":
        raise Skip("target is not an assignment")
    forms = case.get("forms", {})
    _FORMS.clear()
    _FORMS.update(forms)
    used_forms = {forms.get(a, ("explicit",))[0] for a in names_of_stmt(T) if a in arrays}
    # same_range over EFFECTIVE bounds is faithful for assumed-shape dummies (ATTRIBUTE extent: start 1 or the
    # declared lower bound) but not for allocatables (DEFERRED: never "same"); DOT_PRODUCT's model emits literal
    # declared bounds; MATMUL goes through the form-aware models (encode2)
    if "alloc" in used_forms or (kind == "dot" and used_forms - {"explicit"}):
        raise Skip("allocatable (or non-explicit DOT_PRODUCT operand) declaration")
    if kind == "matmul":
        raise Skip("matmul is encoded by encode2")
    nm = mf.Names()
    for v, _, _ in case["decls"]:
        nm.get(v)
    new = res["new_names"]
    for n in new:
        nm.get(n)
    # harness value of the original statement alone on this store (None when it is invalid there)
    r0 = ext.interp([T], vals, arrays, strict=True) if with_store else ("skipped",)
    if kind == "arrassign":
        if not T[2]:
            raise Skip("whole-array lhs")
        a = "(mkAA %d%%nat [%s] %s)" % (nm.get(T[1]), "; ".join(pidx(x, nm) for x in T[2]), pa(T[3], nm, arrays))
        if sum(1 for x in T[2] if x[0] == "rng") == 2 and sorted(new) == ["idx", "idx_1"]:
            st = "None"
            if r0[0] == "ok":
                exp = [((T[1], l), r0[1].get((T[1], l), 0)) for l in all_locs(arrays[T[1]])]
                st = pstore_expect(vals, arrays, nm, exp, T)
            raise TwoRanges("(CArr2 %s %d%%nat %d%%nat %s %s %s)" % (pdecls(arrays, nm), nm.get("idx"), nm.get("idx_1"),
                                                                a, ps(R, nm), st))
        idx = pick_name(new, "idx")
        st = "None"
        if r0[0] == "ok":
            exp = [((T[1], l), r0[1].get((T[1], l), 0)) for l in all_locs(arrays[T[1]])]
            st = pstore_expect(vals, arrays, nm, exp, T)
        return "(CArr %s %d%%nat %s %s %s)" % (pdecls(arrays, nm), nm.get(idx), a, ps(R, nm), st)
    if kind in ("abs", "sign", "min", "max"):
        f = {"abs": "IAbs", "sign": "ISign", "min": "IMin", "max": "IMax"}[kind]
        paths = paths_of(T[3], lambda x: x[0] == "intr" and x[1] == f)
        p = paths[case["pick"]]
        if kind == "abs":
            names = [pick_name(new, "res_abs"), pick_name(new, "tmp_abs")]
        elif kind == "sign":
            names = [pick_name(new, "res_sign"), pick_name(new, "tmp_sign"), pick_name(new, "res_abs"),
                     pick_name(new, "tmp_abs")]
        else:
            names = [pick_name(new, "res_" + kind), pick_name(new, "tmp_" + kind)]
        return "(CIntr K%s [%s] %d%%nat %s %s [%s] %s)" % (
            kind.capitalize(), "; ".join("%d%%nat" % nm.get(n) for n in names), nm.get(T[1]), pexprs(T[2], nm),
            pe(T[3], nm), "; ".join("%d%%nat" % i for i in p), ps(R, nm))
    if kind in ("sum", "product", "minval", "maxval"):
        K = kind.capitalize()
        reds = [x for x in ext.subexprs(T[3]) if x[0] == "red"]
        if len(reds) != 1 or reds[0][1] != K or reds[0][3] is not None:
            raise Skip("not exactly one reduction without DIM")
        red = reds[0]
        idx = pick_name(new, "idx")
        tmp = [n for n in new if n.startswith("tmp_var")]
        tmpn = tmp[0] if tmp else DUMMY_TMP
        hole = nm.get(HOLE)
        ctx = "None" if T[3] is red else "(Some %s)" % pe(replace_node(T[3], red, ("var", HOLE)), nm)
        mask = "None" if red[4] is None else "(Some %s)" % pa(red[4], nm, arrays)
        st = "None"
        if r0[0] == "ok":
            loc = (T[1], tuple(ext.Machine(vals, arrays).scalar(x) for x in T[2]))
            st = pstore_expect(vals, arrays, nm, [(loc, r0[1].get(loc, 0))], T)
        return "(CRed %s %d%%nat %d%%nat %d%%nat %s R%s %s %s %s %d%%nat %s %s)" % (
            pdecls(arrays, nm), nm.get(idx), nm.get(tmpn), nm.get(T[1]), pexprs(T[2], nm), K,
            pa(red[2], nm, arrays), mask, ctx, hole, ps(R, nm), st)
    if kind == "dot":
        calls = [x for x in ext.subexprs(T[3]) if x[0] == "intr" and x[1] == "IDot"]
        if len(calls) != 1:
            raise Skip("dot calls")
        call = calls[0]

        def vec(a):
            if a[0] == "var":
                if len(arrays[a[1]]) != 1:
                    raise Skip("rank")
                return a[1], []
            if a[0] == "idx" and a[2][0][0] == "rng" and all(x[0] != "rng" for x in a[2][1:]):
                return a[1], a[2][1:]
            raise Skip("vector form")
        (v1, r1), (v2, r2) = vec(call[2][0]), vec(call[2][1])
        ctx = pe(replace_node(T[3], call, ("var", HOLE)), nm)
        st = "None"
        rv = ext.interp([("assign", HOLE, [], call)], vals, arrays, strict=True) if with_store else ("skipped",)
        if rv[0] == "ok":
            st = "(Some (%s, (%d)))" % (small_store(vals, arrays, nm, T), rv[1][(HOLE, ())])
        return "(CDot %s %d%%nat %d%%nat %d%%nat %s %s %d%%nat %d%%nat %s %d%%nat %s %s %s)" % (
            pdecls(arrays, nm), nm.get(pick_name(new, "i")), nm.get(pick_name(new, "res_dot_product")), nm.get(T[1]),
            pexprs(T[2], nm), ctx, nm.get(HOLE), nm.get(v1), pexprs(r1, nm), nm.get(v2), pexprs(r2, nm), ps(R, nm), st)
    if kind == "matmul":
        call = T[3]
        m, v = call[2]
        if len(arrays[T[1]]) != 1 or len(arrays[m[1]]) != 2 or len(arrays[v[1]]) != 1:
            raise Skip("not matrix*vector of plain arrays")
        st = "None"
        if r0[0] == "ok":
            st = pstore_expect(vals, arrays, nm, [((T[1], l), r0[1].get((T[1], l), 0)) for l in all_locs(arrays[T[1]])], T)
        return "(CMatvec %s %d%%nat %d%%nat %d%%nat %d%%nat %d%%nat %s %s)" % (
            pdecls(arrays, nm), nm.get(pick_name(new, "i")), nm.get(pick_name(new, "j")), nm.get(T[1]), nm.get(m[1]),
            nm.get(v[1]), ps(R, nm), st)
    raise Skip("kind " + kind)


def pforms(case, names, nm):
    out = []
    for a in names:
        f = case.get("forms", {}).get(a, ("explicit",))
        bs = case["arrays"][a]
        if f[0] == "explicit":
            dims = ["(DExplicit (%d) (%d))" % b for b in bs]
        elif f[0] == "assumed":
            dims = ["DAssumed" if lb is None else "(DAssumedLb (%d))" % lb for lb in f[1]]
        else:
            dims = ["DDeferred" for _ in bs]
        out.append("(%d%%nat, [%s])" % (nm.get(a), "; ".join(dims)))
    return "[" + "; ".join(out) + "]"


def encode2(case, res, vals, with_store=True):
    """MATMUL (matrix*vector and matrix*matrix) with any declaration form -> Corr2.ccase2"""
    arrays = case["arrays"]
    seg = diff_segment(res["orig"], res["out"])
    if not seg:
        raise Skip("cannot locate the rewritten statement")
    T, R = seg
    if T[0] != "assign" or T[3][0] != "intr" or T[3][1] != "IMatmul":
        raise Skip("not a MATMUL assignment")

    def whole(a):
        if a[0] == "var":
            return a[1]
        if a[0] == "idx" and len(a[2]) == len(arrays[a[1]]) and all(x[0] == "rng" for x in a[2]):
            return a[1]
        raise Skip("operand is not a whole array")
    m1, m2 = whole(T[3][2][0]), whole(T[3][2][1])
    r = T[1]
    if T[2] and not all(x[0] == "rng" for x in T[2]):
        raise Skip("result is not a whole array")
    if len(arrays[m1]) != 2:
        raise Skip("first operand rank")
    nm = mf.Names()
    for v, _, _ in case["decls"]:
        nm.get(v)
    new = res["new_names"]
    for n in new:
        nm.get(n)
    r0 = ext.interp([T], vals, arrays, strict=True) if with_store else ("skipped",)
    st = "None"
    if r0[0] == "ok":
        st = pstore_expect(vals, arrays, nm, [((r, l), r0[1].get((r, l), 0)) for l in all_locs(arrays[r])], T)
    fm = pforms(case, [r, m1, m2], nm)
    d = pdecls({a: arrays[a] for a in (r, m1, m2)}, nm)
    if len(arrays[m2]) == 2 and len(arrays[r]) == 2:
        return "(CMatmatF %s %s %d%%nat %d%%nat %d%%nat %d%%nat %d%%nat %d%%nat %s %s)" % (
            fm, d, nm.get(pick_name(new, "i")), nm.get(pick_name(new, "j")), nm.get(pick_name(new, "ii")),
            nm.get(r), nm.get(m1), nm.get(m2), ps(R, nm), st)
    if len(arrays[m2]) == 1 and len(arrays[r]) == 1:
        return "(CMatvecF %s %s %d%%nat %d%%nat %d%%nat %d%%nat %d%%nat %s %s)" % (
            fm, d, nm.get(pick_name(new, "i")), nm.get(pick_name(new, "j")), nm.get(r), nm.get(m1), nm.get(m2),
            ps(R, nm), st)
    raise Skip("ranks")


HEADER3 = """From Coq Require Import ZArith. From PV Require Import Fort.Syntax Fort.Sem C06.Syntax C06.Model C06.Corr C06.ArrayAssign2D C06.Corr3.
Open Scope Z_scope."""

HEADER2 = """From Coq Require Import ZArith. From PV Require Import Fort.Syntax Fort.Sem C06.Syntax C06.Model C06.Corr C06.Bounds C06.Corr2.
Open Scope Z_scope."""


def all_locs(bs):
    out = [()]
    for lb, ub in bs:
        out = [t + (i,) for i in range(lb, ub + 1) for t in out]
    return out


HEADER = """From Coq Require Import ZArith. From PV Require Import Fort.Syntax Fort.Sem C06.Syntax C06.Model C06.Corr.
Open Scope Z_scope."""


def correspondence(ctx, cases, FX):
    """cases: list of (case, res).  -> (number of cases in the model subset, [(case, res, why)] that disagree)"""
    terms, kept = [], []
    terms2, kept2 = [], []
    terms3, kept3 = [], []
    rng = ctx.rng("corr-store")
    cap = ctx.pick(300, 10 ** 9)        # quick tier: bounded number of coqc-evaluated cases, spread over all kinds
    if len(cases) > cap * 1.4:
        step = len(cases) / (cap * 1.4)
        cases = [cases[int(k * step)] for k in range(int(cap * 1.4))]
    for case, res in cases:
        if len(terms) >= cap:
            break
        if case["kind"] == "matmul":
            try:
                vals = case["_gen"].store(rng)
                terms2.append(encode2(case, res, vals, with_store=(ctx.thorough or len(terms2) % 2 == 0)))
                kept2.append((case, res))
                ctx.hist("model_cases", "matmul(form-aware)")
            except Skip as e:
                ctx.hist("outside_model", "matmul: %s" % str(e)[:40])
            continue
        try:
            vals = case["_gen"].store(rng)
            # prefer a store on which the original program is valid
            for _ in range(6):
                if ext.interp(res["orig"], vals, case["arrays"], strict=True)[0] == "ok":
                    break
                vals = case["_gen"].store(rng)
            t = encode(case, res, vals, with_store=(ctx.thorough or len(terms) % 3 == 0))
        except TwoRanges as e:
            terms3.append(str(e))
            kept3.append((case, res))
            ctx.hist("model_cases", "arrassign(2 ranges)")
            continue
        except Skip as e:
            ctx.hist("outside_model", "%s: %s" % (case["kind"], str(e)[:40]))
            continue
        ctx.hist("model_cases", case["kind"])
        terms.append(t)
        kept.append((case, res))
    bad2 = []
    if terms2:
        b2 = ctx.coq_eval_failing(HEADER2, "ccase2", "check2", terms2, shard=200)
        bad2 = [(kept2[i][0], kept2[i][1], terms2[i][:3000]) for i in b2]
    b = lambda v: "true" if v else "false"
    fx = "(mkFixes %s %s %s)" % (b(FX["shortcut"]), b(FX["stride"]), b(FX["redstore"]))
    if terms3:
        b3 = ctx.coq_eval_failing(HEADER3, "ccase3", "check3 " + fx, terms3, shard=200)
        bad2 += [(kept3[i][0], kept3[i][1], terms3[i][:3000]) for i in b3]
    if not terms:
        return len(terms2) + len(terms3), bad2
    bad = ctx.coq_eval_failing(HEADER, "ccase", "check " + fx, terms, shard=ctx.pick(50, 200))
    return len(terms) + len(terms2) + len(terms3), bad2 + [(kept[i][0], kept[i][1], terms[i][:3000]) for i in bad]
