"""C06 — Array-syntax and intrinsic lowering preserve semantics.

Harness (the property itself, evaluated on the implementation): generate array assignments / intrinsic
calls -> Fortran text -> PSyclone reader -> real validate/apply -> serialise original and transformed
trees (props/C06/ext.py) -> evaluate both with an interpreter that has true Fortran array semantics
over several stores -> differences are failing inputs, classified by a reason code computed from the
ORIGINAL statement (site/reason = key of known_findings.json).
Model (coq/C06): faithful Gallina `apply` functions for ArrayAssignment2Loops (one range per accessor),
ABS/SIGN/MIN/MAX, SUM/PRODUCT/MINVAL/MAXVAL (1-D, MASK), DOT_PRODUCT, MATMUL (matrix*vector); the
implementation's output tree is compared with the model's output by vm_compute (ctx.coq_eval_failing).
"""
import contextlib
import io
import json
import os
import sys

sys.path.insert(0, os.path.dirname(os.path.abspath(__file__)))
import ext      # noqa: E402
import gen      # noqa: E402
import coqenc   # noqa: E402
import gfort    # noqa: E402
from vlib import core, minifort as mf   # noqa: E402

HERE = os.path.dirname(os.path.abspath(__file__))


# ------------------------------------------------------------------ normalisation (self-check only)
def norm_e(e):
    if e is None:
        return None
    k = e[0]
    if k == "un":
        x = norm_e(e[2])
        if e[1] == "Neg" and x[0] == "lit":
            return ("lit", -x[1])
        return ("un", e[1], x)
    if k == "bin":
        return ("bin", e[1], norm_e(e[2]), norm_e(e[3]))
    if k == "rng":
        return ("rng",) + tuple(norm_e(x) for x in e[1:4])
    if k in ("idx", "intr"):
        return (k, e[1], [norm_e(x) for x in e[2]])
    if k == "red":
        return ("red", e[1], norm_e(e[2]), norm_e(e[3]), norm_e(e[4]))
    return tuple(e)


def norm_s(ss):
    out = []
    for s in ss:
        k = s[0]
        if k == "assign":
            out.append(("assign", s[1], [norm_e(x) for x in s[2]], norm_e(s[3])))
        elif k == "if":
            out.append(("if", norm_e(s[1]), norm_s(s[2]), norm_s(s[3])))
        elif k == "do":
            out.append(("do", s[1], norm_e(s[2]), norm_e(s[3]), norm_e(s[4]), norm_s(s[5])))
        else:
            out.append(tuple(s))
    return out


def tup(x):
    """JSON lists -> tuples (expressions are tuples whose list-valued fields stay lists)."""
    if isinstance(x, list):
        if x and isinstance(x[0], str) and x[0] in ("lit", "var", "idx", "un", "bin", "intr", "rng", "red", "huge",
                                                    "assign", "if", "do"):
            return tuple(tup(y) for y in x)
        return [tup(y) for y in x]
    return x


# ------------------------------------------------------------------ running the implementation
TRANS = {}


def transformations():
    if TRANS:
        return TRANS
    from psyclone.psyir import transformations as T
    from psyclone.psyir.transformations import (ArrayAssignment2LoopsTrans, Reference2ArrayRangeTrans,
                                                ArrayAccess2LoopTrans, AllArrayAccess2LoopTrans, Abs2CodeTrans,
                                                Sign2CodeTrans, Min2CodeTrans, Max2CodeTrans, DotProduct2CodeTrans,
                                                Matmul2CodeTrans, Sum2LoopTrans, Product2LoopTrans,
                                                Minval2LoopTrans, Maxval2LoopTrans)
    TRANS.update(arrassign=ArrayAssignment2LoopsTrans, ref2range=Reference2ArrayRangeTrans,
                 access2loop=ArrayAccess2LoopTrans, allaccess2loop=AllArrayAccess2LoopTrans,
                 abs=Abs2CodeTrans, sign=Sign2CodeTrans, min=Min2CodeTrans, max=Max2CodeTrans,
                 dot=DotProduct2CodeTrans, matmul=Matmul2CodeTrans, sum=Sum2LoopTrans, product=Product2LoopTrans,
                 minval=Minval2LoopTrans, maxval=Maxval2LoopTrans)
    return TRANS


INTR_NAME = {"abs": "ABS", "sign": "SIGN", "min": "MIN", "max": "MAX", "dot": "DOT_PRODUCT", "matmul": "MATMUL",
             "sum": "SUM", "product": "PRODUCT", "minval": "MINVAL", "maxval": "MAXVAL"}
SITE = {"arrassign": "arrayassignment2loops", "ref2range": "reference2arrayrange", "ref2range+loops":
        "arrayassignment2loops", "access2loop": "arrayaccess2loop", "allaccess2loop": "allarrayaccess2loop",
        "abs": "abs2code", "sign": "sign2code", "min": "min2code", "max": "max2code", "dot": "dotproduct2code",
        "matmul": "matmul2code", "sum": "reduction2loop", "product": "reduction2loop", "minval": "reduction2loop",
        "maxval": "reduction2loop"}


def apply_impl(case):
    """-> dict(verdict='accept'|'refuse'|'crash'|'out_of_subset'|'reader', orig=, out=, new_names=, msg=)"""
    from psyclone.psyir.frontend.fortran import FortranReader
    from psyclone.psyir.nodes import Routine, Assignment, IntrinsicCall, Range, Reference, ArrayReference
    from psyclone.psyir.transformations import TransformationError
    T = transformations()
    text = ext.fortran_text("sub", case["stmts"], case["decls"], case.get("forms"), case.get("args", False))
    res = {"text": text}
    try:
        psy = FortranReader().psyir_from_source(text)
        routine = psy.walk(Routine)[0]
        res["orig"] = ext.from_psyir(routine)
    except ext.OutOfSubset as e:
        res.update(verdict="reader", msg=str(e))
        return res
    kind = case["kind"]
    def all_symbols():
        from psyclone.psyir.nodes import ScopingNode
        return {s.name.lower() for sc in routine.walk(ScopingNode) for s in sc.symbol_table.symbols}
    before = all_symbols()
    try:
        with contextlib.redirect_stdout(io.StringIO()):
            if kind in ("arrassign",):
                node = [a for a in routine.walk(Assignment) if a.lhs.walk(Range)][0]
                T["arrassign"]().apply(node)
            elif kind in ("ref2range", "ref2range+loops"):
                node = [a for a in routine.walk(Assignment) if type(a.lhs) is Reference and a.lhs.symbol.is_array][0]
                n_ok = 0
                for ref in node.walk(Reference):
                    try:
                        T["ref2range"]().apply(ref)
                        n_ok += 1
                    except TransformationError:
                        pass
                if n_ok == 0:
                    raise TransformationError("no reference converted")
                if kind == "ref2range+loops":
                    T["arrassign"]().apply(node)
            elif kind == "allaccess2loop":
                node = [a for a in routine.walk(Assignment) if isinstance(a.lhs, ArrayReference)][case.get("pick", 0)]
                T["allaccess2loop"]().apply(node)
            elif kind == "access2loop":
                node = [a for a in routine.walk(Assignment) if isinstance(a.lhs, ArrayReference)][0]
                T["access2loop"]().apply(node.lhs.children[case.get("pick", 0)])
            else:
                calls = [c for c in routine.walk(IntrinsicCall) if c.intrinsic.name == INTR_NAME[kind]]
                node = calls[case.get("pick", 0)]
                T[kind]().apply(node)
    except TransformationError as e:
        try:
            msg = str(e.value)[:160]
        except Exception as e2:     # noqa: BLE001 -- the lazy message itself may fail to render
            msg = "<refusal message not printable: %s>" % type(e2).__name__
        res.update(verdict="refuse", msg=msg)
        return res
    except Exception as e:      # noqa: BLE001 -- an implementation crash is not an acceptance
        res.update(verdict="crash", msg="%s: %s" % (type(e).__name__, str(e)[:160]))
        return res
    try:
        res["out"] = ext.from_psyir(routine)
    except ext.OutOfSubset as e:
        res.update(verdict="out_of_subset", msg=str(e))
        return res
    res["new_names"] = sorted(all_symbols() - before)
    res["verdict"] = "accept"
    return res


# ------------------------------------------------------------------ which repairs does this tree contain?
FX = {"shortcut": False, "stride": False, "redstore": False, "nodeindex": False}


def probe_fixes(ctx=None):
    """Dynamic translator: run the implementation on four canonical statements and recognise, from the SHAPE of
    the output, whether each repair of props/C06/fix.patch is present (flags of coq/C06/Model.v `fixes`).
    An unrecognised shape leaves the flag False; the correspondence run then reports the disagreement."""
    L, V = gen.L, gen.V
    base = [("x", "real", []), ("y", "real", []), ("z", "real", []), ("n", "integer", []), ("m", "integer", []),
            ("k", "integer", [])]

    def mk(kind, arrays, stmt, pick=0):
        return {"kind": kind, "pick": pick, "stream": "probe", "stmts": [stmt],
                "decls": base + [(a, "real", bs) for a, bs in sorted(arrays.items())], "arrays": arrays}

    def rg(lo, hi, st=1):
        return ("rng", L(lo), L(hi), L(st))
    A = {"a": [(1, 10)], "b": [(1, 10)]}
    D = {"d": [(0, 4), (1, 5)]}
    seen = {}
    # (1) same_range shortcut: d(:,1) = d(1,:)
    r = apply_impl(mk("arrassign", D, ("assign", "d", [("rng", gen.lb_of("d", 1), gen.ub_of("d", 1), L(1)), L(1)],
                                     ("idx", "d", [L(1), ("rng", gen.lb_of("d", 2), gen.ub_of("d", 2), L(1))]))))
    try:
        x = r["out"][0][5][0][3][2][1]
        seen["shortcut"] = {repr(("var", "idx")): False,
                            repr(("bin", "Add", ("var", "idx"), ("bin", "Sub", gen.lb_of("d", 2), gen.lb_of("d", 1)))): True
                            }.get(repr(x))
    except (KeyError, IndexError, TypeError):
        seen["shortcut"] = None
    # (2) strides: a(1:9:2) = b(1:5)
    r = apply_impl(mk("arrassign", A, ("assign", "a", [rg(1, 9, 2)], ("idx", "b", [rg(1, 5)]))))
    try:
        x = r["out"][0][5][0][3][2][0]
        seen["stride"] = {repr(("bin", "Add", ("var", "idx"), ("bin", "Sub", L(1), L(1)))): False,
                          repr(("bin", "Add", L(1), ("bin", "Mul", ("bin", "Div", ("bin", "Sub", ("var", "idx"), L(1)), L(2)),
                                                     L(1)))): True}.get(repr(x))
    except (KeyError, IndexError, TypeError):
        seen["stride"] = None
    # (3) a(1) = SUM(a)
    r = apply_impl(mk("sum", A, ("assign", "a", [L(1)], ("red", "Sum", V("a"), None, None))))
    try:
        out = r["out"]
        seen["redstore"] = False if len(out) == 2 else \
            True if len(out) == 3 and out[2] == ("assign", "a", [L(1)], ("var", "tmp_var")) else None
    except (KeyError, IndexError, TypeError):
        seen["redstore"] = None
    # (4) x = SUM(a) - SUM(b), second call
    r = apply_impl(mk("sum", A, ("assign", "x", [], ("bin", "Sub", ("red", "Sum", V("a"), None, None),
                                                      ("red", "Sum", V("b"), None, None))), pick=1))
    try:
        last = r["out"][-1][3]
        seen["nodeindex"] = {repr(("bin", "Sub", ("var", "x"), ("red", "Sum", V("b"), None, None))): False,
                             repr(("bin", "Sub", ("red", "Sum", V("a"), None, None), ("var", "x"))): True}.get(repr(last))
    except (KeyError, IndexError, TypeError):
        seen["nodeindex"] = None
    for k, v in seen.items():
        FX[k] = bool(v)
    if ctx is not None:
        ctx.notes["model_variant_probe"] = {k: ("unrecognised" if v is None else v) for k, v in seen.items()}
    return seen


# ------------------------------------------------------------------ evaluating the property
def compare(case, orig, out, new_names, stores):
    """-> None or dict(describing the first store on which original and transformed differ)"""
    bnds = case["arrays"]
    declared = {v for v, _, _ in case["decls"]}
    for vals in stores:
        r0 = ext.interp(orig, vals, bnds, strict=True)
        if r0[0] != "ok":
            continue
        r1 = ext.interp(out, vals, bnds, strict=False)
        if r1[0] != "ok":
            return {"store": vals, "why": "transformed program faults: " + r1[1], "diff": []}
        diff = []
        for loc in sorted(set(r0[1]) | set(r1[1])):
            if loc[0] in declared and r0[1].get(loc, 0) != r1[1].get(loc, 0):
                diff.append((loc, r0[1].get(loc, 0), r1[1].get(loc, 0)))
        if diff or r1[2]:
            return {"store": vals, "why": "values differ" if diff else "out-of-bounds access in transformed program",
                    "diff": diff[:6], "oob": r1[2][:4]}
    return None


def valid_stores(case, g, rng, want):
    """stores on which the ORIGINAL program is valid Fortran in our semantics (in bounds, conformable)."""
    out = []
    for _ in range(want * 12):
        vals = g.store(rng)
        r0 = ext.interp(case["orig"], vals, case["arrays"], strict=True)
        if r0[0] == "ok":
            out.append(vals)
            if len(out) >= want:
                break
    return out


# ------------------------------------------------------------------ reason codes (computed on the original)
def find_stmt(stmts, pred):
    for s in stmts:
        if s[0] == "assign" and pred(s):
            return s
        if s[0] == "if":
            r = find_stmt(s[2], pred) or find_stmt(s[3], pred)
            if r:
                return r
        if s[0] == "do":
            r = find_stmt(s[5], pred)
            if r:
                return r
    return None


def top_accessors(e):
    """array accessors not nested inside another accessor's indices"""
    k = e[0]
    if k == "idx":
        yield e
    elif k == "un":
        yield from top_accessors(e[2])
    elif k == "bin":
        yield from top_accessors(e[2])
        yield from top_accessors(e[3])
    elif k == "intr" and e[1] not in ("ILbound", "IUbound", "ISize"):
        for x in e[2]:
            yield from top_accessors(x)
    elif k == "red":
        yield from top_accessors(e[2])
        if e[4] is not None:
            yield from top_accessors(e[4])


def mentions(e, a, skip_inquiry=True):
    for x in ext.subexprs(e):
        if x[0] in ("var", "idx") and x[1] == a:
            return True
    return False


def norm_start(acc_name, dim, e, arrays):
    """lower bound normalisation of same_range: LBOUND(a,dim) / literal equal to the declared bound"""
    e = norm_e(e)
    if e[0] == "intr" and e[1] == "ILbound" and e[2][0][1] == acc_name and e[2][1] == ("lit", dim):
        return ("lit", arrays[acc_name][dim - 1][0])
    return e


def section_reasons(lhs_name, lhs_ix, exprs, arrays, lhs_is_written=True):
    """reason codes for the range->loop rewriting of `lhs_name(lhs_ix) = exprs...`"""
    reasons = set()
    lr = [(i, x) for i, x in enumerate(lhs_ix) if x[0] == "rng"]
    for e in exprs:
        for acc in top_accessors(e):
            rr = [(i, x) for i, x in enumerate(acc[2]) if x[0] == "rng"]
            for (li, lx), (ri, rx) in zip(lr, rr):
                step_differs = norm_e(rx[3]) != norm_e(lx[3])
                if step_differs and not FX["stride"]:
                    reasons.add("range-step-differs")
                if acc[1] == lhs_name:
                    if ri != li and not FX["shortcut"]:
                        reasons.add("same-array-other-dimension")
                    if lhs_is_written and (ri != li or step_differs or
                                           norm_start(lhs_name, li + 1, lx[1], arrays) !=
                                           norm_start(lhs_name, ri + 1, rx[1], arrays)):
                        reasons.add("lhs-array-read-at-other-offset")
            if lhs_is_written and acc[1] == lhs_name and not rr:
                reasons.add("lhs-array-element-read")
            if lhs_is_written:
                for x in acc[2]:
                    if mentions(x, lhs_name):
                        reasons.add("lhs-array-element-read")
    if lhs_is_written:
        for x in lhs_ix:
            if mentions(x, lhs_name):
                reasons.add("lhs-array-element-read")
    return reasons


PRIORITY = ["range-step-differs", "same-array-other-dimension", "lhs-array-read-at-other-offset",
            "lhs-array-element-read", "increment-result-dropped", "other-same-kind-intrinsic-replaced",
            "lower-bounds-differ"]


def first_array_accessor(e, arrays):
    """first array reference in a pre-order walk, whole-array references expanded to full ranges."""
    for x in ext.subexprs(e):
        if x[0] == "idx":
            return x[1], x[2]
        if x[0] == "var" and x[1] in arrays:
            return x[1], [("rng", ("lit", lb), ("lit", ub), ("lit", 1)) for lb, ub in arrays[x[1]]]
    return None, []


def expand_whole(e, arrays):
    k = e[0]
    if k == "var" and e[1] in arrays:
        return ("idx", e[1], [("rng", ("lit", lb), ("lit", ub), ("lit", 1)) for lb, ub in arrays[e[1]]])
    if k == "un":
        return ("un", e[1], expand_whole(e[2], arrays))
    if k == "bin":
        return ("bin", e[1], expand_whole(e[2], arrays), expand_whole(e[3], arrays))
    if k == "intr" and e[1] not in ("ILbound", "IUbound", "ISize"):
        return ("intr", e[1], [expand_whole(x, arrays) for x in e[2]])
    return e


def classify(case, orig):
    """-> reason code (or 'unexplained') for a semantic difference on this accepted case."""
    kind, arrays = case["kind"], case["arrays"]
    reasons = set()
    if kind in ("arrassign", "ref2range+loops"):
        st = find_stmt(orig, lambda s: any(x[0] == "rng" for x in s[2]) or (not s[2] and s[1] in arrays))
        ix = st[2] or [("rng", ("lit", lb), ("lit", ub), ("lit", 1)) for lb, ub in arrays[st[1]]]
        reasons = section_reasons(st[1], ix, [expand_whole(st[3], arrays)], arrays)
    elif kind in ("sum", "product", "minval", "maxval"):
        K = kind.capitalize()
        st = find_stmt(orig, lambda s: any(x[0] == "red" and x[1] == K for x in ext.subexprs(s[3])))
        reds = [x for x in ext.subexprs(st[3]) if x[0] == "red" and x[1] == K]
        target = reds[case.get("pick", 0)]
        if case.get("pick", 0) != 0 and not FX["nodeindex"]:
            reasons.add("other-same-kind-intrinsic-replaced")
        if st[3] == target and (mentions(target, st[1])) and not FX["redstore"]:
            reasons.add("increment-result-dropped")
        arr = expand_whole(target[2], arrays)
        mask = expand_whole(target[4], arrays) if target[4] is not None else None
        nm, ix = first_array_accessor(arr, arrays)
        if nm:
            reasons |= section_reasons(nm, ix, [arr] + ([mask] if mask is not None else []), arrays, lhs_is_written=False)
    elif kind == "dot":
        st = find_stmt(orig, lambda s: any(x[0] == "intr" and x[1] == "IDot" for x in ext.subexprs(s[3])))
        call = [x for x in ext.subexprs(st[3]) if x[0] == "intr" and x[1] == "IDot"][0]
        lbs = [arrays[a[1]][0][0] for a in call[2]]
        if lbs[0] != lbs[1]:
            reasons.add("lower-bounds-differ")
    elif kind == "matmul":
        st = find_stmt(orig, lambda s: s[3][0] == "intr" and s[3][1] == "IMatmul")
        m1, m2 = (arrays[a[1]] for a in st[3][2])
        res = arrays[st[1]]
        if res[0][0] != m1[0][0] or m1[1][0] != m2[0][0] or (len(m2) > 1 and len(res) > 1 and res[1][0] != m2[1][0]):
            reasons.add("lower-bounds-differ")
    for p in PRIORITY:
        if p in reasons:
            return p
    return "unexplained"


def names_in(stmts, acc=None):
    acc = set() if acc is None else acc
    for st in stmts:
        if st[0] == "assign":
            acc.add(st[1])
            for e in list(st[2]) + [st[3]]:
                for x in ext.subexprs(e):
                    if x[0] in ("var", "idx"):
                        acc.add(x[1])
        elif st[0] == "if":
            names_in(st[2], acc)
            names_in(st[3], acc)
        elif st[0] == "do":
            names_in(st[5], acc)
    return acc


def forms_label(case):
    """declaration forms of the arrays the program mentions"""
    if not case.get("args"):
        return "locals:explicit"
    used = names_in(case["stmts"])
    kinds = set()
    for a, f in case["forms"].items():
        if a in used:
            kinds.add(f[0] if f[0] != "assumed" else ("assumed-lb" if any(x is not None for x in f[1]) else "assumed"))
    return "dummies:" + "+".join(sorted(kinds))


# ------------------------------------------------------------------ case generation
KINDS_Q = [("arrassign", 110), ("ref2range", 8), ("ref2range+loops", 10), ("access2loop", 10), ("allaccess2loop", 10),
           ("abs", 14), ("sign", 14), ("min", 16), ("max", 16), ("dot", 22), ("matmul", 28),
           ("sum", 34), ("product", 20), ("minval", 24), ("maxval", 24)]


def make_case(kind, rng):
    g = gen.Gen(rng)
    case = {"kind": kind, "pick": 0, "stream": "valid"}
    if kind == "arrassign":
        st = g.arrassign()
    elif kind in ("ref2range", "ref2range+loops"):
        st = g.whole_array_stmt()
    elif kind in ("access2loop", "allaccess2loop"):
        st = g.const_index_stmt()
        if kind == "access2loop":
            case["pick"] = rng.randrange(len(st[2]))
    elif kind in ("abs", "sign", "min", "max"):
        f = {"abs": "IAbs", "sign": "ISign", "min": "IMin", "max": "IMax"}[kind]
        integer = rng.random() < 0.12
        st = g.intrinsic_stmt(f, integer)
        if integer:
            case["stream"] = "malformed-integer"
        n = sum(1 for x in list(ext.subexprs(st[3])) + [y for i in st[2] for y in ext.subexprs(i)]
                if x[0] == "intr" and x[1] == f)
        case["pick"] = rng.randrange(n)
    elif kind == "dot":
        st = g.dot_stmt()
    elif kind == "matmul":
        st = g.matmul_stmt()
    else:
        K = kind.capitalize()
        with_dim = rng.random() < 0.15
        st = g.reduction_stmt(K, with_dim)
        n = sum(1 for x in ext.subexprs(st[3]) if x[0] == "red" and x[1] == K)
        case["pick"] = rng.randrange(n) if rng.random() < 0.6 else 0
        if with_dim:
            case["stream"] = "dim"
    # malformed stream for the array transformations: elemental intrinsic of a section lowered as a scalar
    if kind in ("abs", "min", "max") and rng.random() < 0.06:
        a, b = "a", "b"
        lb = max(g.arrays[a][0][0], g.arrays[b][0][0])
        rgn = ("rng", ("lit", lb), ("lit", lb + 3), ("lit", 1))
        f = {"abs": "IAbs", "min": "IMin", "max": "IMax"}[kind]
        args = [("idx", b, [rgn])] + ([] if kind == "abs" else [("var", "x")])
        st = ("assign", a, [rgn], ("intr", f, args))
        case["stream"] = "malformed-array-arg"
        case["pick"] = 0
    allow_loop = kind not in ("matmul",)
    case["stmts"] = g.wrap(st, allow_loop)
    case["decls"] = g.decls()
    case["arrays"] = dict(g.arrays)
    case["forms"] = dict(g.forms)
    case["args"] = g.args
    case["_gen"] = g
    return case


def case_json(case, res=None, bad=None):
    d = {k: case[k] for k in ("kind", "pick", "stream", "stmts", "decls", "arrays")}
    d["forms"] = case.get("forms", {})
    d["args"] = case.get("args", False)
    if res:
        d["fortran"] = res.get("text")
        d["verdict"] = res.get("verdict")
        if "out" in res:
            d["transformed"] = "\n".join(ext.stmts_to_fortran(res["out"]))
    if bad:
        d["failing_store"] = sorted((list(k), v) for k, v in bad["store"].items())
        d["why"] = bad["why"]
        d["differences(loc, original, transformed)"] = bad["diff"]
        d["oob"] = bad.get("oob")
    d["replay"] = ("PYTHONPATH=/repo/src:/verif PSYCLONE_CONFIG=/repo/config/psyclone.cfg /venv/bin/python -c "
                   "\"import json,sys; sys.path.insert(0,'/verif/props/C06'); import check; "
                   "print(check.replay_file(sys.argv[1]))\" <this file>")
    return d


def replay_file(path):
    d = json.load(open(path))
    case = load_case(d)
    res = apply_impl(case)
    if res["verdict"] != "accept":
        return res["verdict"], res.get("msg")
    vals = {(k[0], tuple(k[1])): v for k, v in d["failing_store"]}
    return compare(case, res["orig"], res["out"], res["new_names"], [vals])


def load_case(d):
    case = {"kind": d["kind"], "pick": d.get("pick", 0), "stream": d.get("stream", "valid"),
            "stmts": tup(d["stmts"]), "decls": [(v, t, [tuple(b) for b in bs]) for v, t, bs in d["decls"]],
            "arrays": {a: [tuple(b) for b in bs] for a, bs in d["arrays"].items()},
            "forms": {a: tuple(f) for a, f in d.get("forms", {}).items()}, "args": d.get("args", False)}
    return case


# ------------------------------------------------------------------ main
def run(ctx):
    ctx.cov["rule"] = (
        "one routine per case: a target statement (array assignment with 1-D/2-D sections incl. overlapping same-array "
        "sections, shifted / non-unit lower bounds, strides, negative steps, variable bounds n:m, empty sections, scalar "
        "broadcast, elemental intrinsics; whole-array statements; constant-index statements; ABS/SIGN/MIN/MAX (2-4 args) "
        "in arbitrary rhs positions; DOT_PRODUCT; MATMUL matrix*vector and matrix*matrix with equal and differing lower "
        "bounds; SUM/PRODUCT/MINVAL/MAXVAL with/without MASK, with DIM, over whole arrays / sections / products of "
        "sections, empty extents) optionally inside a DO or IF, with leading/trailing scalar statements; each accepted "
        "case evaluated on several random stores (values -3..5, integer scalars -2..9) on which the original is valid; "
        "non-trivial = transformation accepted and evaluated on >=1 store; distinct = Fortran text")
    ctx.cov["trusted_base"] = core.BASE_TRUST + [
        "props/C06/ext.py: serialiser PSyIR->tuples and the array-semantics interpreter (my formalisation of Fortran "
        "array assignment, reductions, DOT_PRODUCT, MATMUL); cross-checked against vlib.minifort.interp on every "
        "transformed program in the plain subset and against coq/C06 semantics on the model subset",
        "coq/C06 models are hand-written; tied to the transformations by comparing output trees on generated cases",
        "real data restricted to exactly representable integer values (no rounding, no signed zeros/NaN); HUGE is a "
        "constant larger than every value in play",
        "SymbolicMaths.equal (used by same_range) is modelled as syntactic equality on the generated normal forms"]
    ctx.assumptions = [
        "array sections of one statement are conformable (valid Fortran): the semantics takes extents from the lhs",
        "values bounded by HUGE (premise of the MINVAL/MAXVAL theorems)",
        "loop variables / temporaries introduced by a transformation are fresh (not used by the original statement)",
        "declared bounds in the store agree with the static declarations (premise bnd s a = decls a)"]
    ok, rep = ctx.prove()
    ctx.log("proof ok=%s discharged=%d/%d" % (ok, ctx.cov["discharged"], ctx.cov["obligations"]))

    probe_fixes(ctx)
    ctx.log("repairs present in the tree under test: %s" % ctx.notes["model_variant_probe"])
    failures = []        # (key, case, res, bad)
    unserialisable = []  # accepted, but the output tree is outside the serialiser's subset (fail-closed)
    corr_cases = []      # (case, res) accepted cases for the Coq correspondence
    plain_progs = []
    # ---- 1. replay the witnesses of the known findings (every run)
    for k in ctx.known_findings():
        w = k.get("witness")
        if not w:
            continue
        case = load_case(w)
        res = apply_impl(case)
        ctx.hist("witness_replay", "%s:%s" % (k["key"], res["verdict"]))
        if res["verdict"] != "accept":
            continue
        vals = {(kk[0], tuple(kk[1])): v for kk, v in w["failing_store"]}
        bad = compare(case, res["orig"], res["out"], res["new_names"], [vals])
        if bad:
            key = "%s/%s" % (SITE[case["kind"]], classify(case, res["orig"]))
            failures.append((key, case, res, bad))
    # ---- 2. generated cases
    scale = ctx.pick(2, 8)
    nstores = ctx.pick(3, 4)
    rng = ctx.rng("gen")
    srng = ctx.rng("stores")
    n_rt_bad = 0
    want_gf = ctx.pick(0, 90) if not os.environ.get("C06_GFORTRAN") else 40
    gf_items = []
    gf_per_kind = {}
    for kind, n in KINDS_Q:
        for i in range(n * scale):
            case = make_case(kind, rng)
            res = apply_impl(case)
            v = res["verdict"]
            ctx.hist("verdict:" + kind, v)
            ctx.hist("stream", case["stream"])
            ctx.hist("declaration_forms", forms_label(case))
            if v == "reader":
                ctx.count(res["text"], False)
                continue
            if norm_s(res["orig"]) != norm_s(case["stmts"]):
                n_rt_bad += 1
                if n_rt_bad <= 2:
                    ctx.violation({"glue": "generator tuples != serialised reader output", "text": res["text"],
                                   "generated": case["stmts"], "read": res["orig"]}, no_input=True)
            if v != "accept":
                ctx.count(res["text"], False)
                if v == "refuse":
                    ctx.hist("refusal:" + kind, res["msg"][:70])
                elif v == "crash":
                    ctx.hist("crash:" + kind, res["msg"][:70])
                else:
                    ctx.hist("out_of_subset", res["msg"][:70])
                    if not case["stream"].startswith("malformed"):
                        unserialisable.append((case, res))
                continue
            case["orig"] = res["orig"]
            stores = valid_stores(case, case["_gen"], srng, nstores)
            if not stores:
                ctx.hist("invalid_original", kind)
                ctx.count(res["text"], False)
                continue
            ctx.count(res["text"], True)
            ctx.cov["evaluations"] += len(stores) - 1
            bad = compare(case, res["orig"], res["out"], res["new_names"], stores)
            if case["stream"].startswith("malformed"):
                ctx.hist("malformed_stream", "differs" if bad else "agrees")
                continue
            if ext.is_plain(res["out"], case["arrays"]) and len(plain_progs) < ctx.pick(60, 400):
                plain_progs.append((res["out"], stores[0], case["arrays"]))
            corr_cases.append((case, res))
            # (SIGN is left out of the compiled sample: a product such as -3.0*0.0 is -0.0 for gfortran, and signed
            #  zeros are outside the property's domain)
            if want_gf and gf_per_kind.get(kind, 0) < max(2, want_gf // len(KINDS_Q)) and (i % 2 == 0 or bad) \
                    and "ISign" not in repr(res["orig"]):
                gf_per_kind[kind] = gf_per_kind.get(kind, 0) + 1
                gf_items.append((case, res, stores[0],
                                 compare(case, res["orig"], res["out"], res["new_names"], [stores[0]]) is not None))
            if bad:
                reason = classify(case, res["orig"])
                key = "%s/%s" % (SITE[kind], reason)
                ctx.hist("difference", key)
                failures.append((key, case, res, bad))
            else:
                ctx.hist("agree", kind)
            if len(ctx.cov["samples"]) < 6 and i == 0:
                ctx.sample({"kind": kind, "fortran": res["text"].split("\n")[-3:-1],
                            "transformed": ext.stmts_to_fortran(res["out"])})
    ctx.log("generated cases evaluated")
    # ---- 3. glue self-check: extended interpreter == vlib.minifort.interp on plain transformed programs
    n_glue = 0
    for prog, vals, bnds in plain_progs:
        r1 = ext.interp(prog, vals, bnds, strict=False)
        r2 = mf.interp(prog, vals, bnds)
        if r1[0] == "ok" and r2[0] == "ok":
            same = all(r1[1].get(l, 0) == r2[1].vals.get(l, 0) for l in set(r1[1]) | set(r2[1].vals))
        else:
            same = r1[0] != "ok" and r2[0] != "ok"
        if not same:
            n_glue += 1
            if n_glue <= 2:
                ctx.violation({"glue": "ext.interp != vlib.minifort.interp", "program": prog}, no_input=True)
    ctx.notes["glue_plain_programs_checked"] = len(plain_progs)
    gf_problems = gfort.crosscheck(ctx, gf_items) if gf_items else []
    for pr in gf_problems[:2]:
        ctx.violation(dict(pr, glue="gfortran cross-check"), no_input=True)
    ctx.log("glue self-checks done (gfortran cross-check: %s)" % ctx.notes.get("gfortran_crosscheck", "not run in this tier"))
    # ---- 4. correspondence with the Coq model
    n_corr, corr_bad = coqenc.correspondence(ctx, corr_cases, FX)
    ctx.cov["disagreements_checked"] = len(corr_bad)
    ctx.notes["model_correspondence_cases"] = n_corr
    ctx.log("accepted cases=%d  property failures=%d  model cases=%d  model/impl disagreements=%d"
            % (len(corr_cases), len(failures), n_corr, len(corr_bad)))
    # ---- verdict
    seen = set()
    n_viol = 0
    for key, case, res, bad in failures:
        if key in seen:
            continue
        seen.add(key)
        if ctx.finding(key, "%s: accepted, transformed code computes different values" % key,
                       case_json(case, res, bad)):
            n_viol += 1
    if unserialisable and not n_viol:
        c, r = unserialisable[0]
        ctx.violation({"property": "C06", "broken": "the transformation's output can no longer be serialised (node kinds "
                       "outside props/C06/ext.py): the accepted case cannot be evaluated", "why": r.get("msg"),
                       "n_cases": len(unserialisable), "first_case": case_json(c, r)}, no_input=True)
        n_viol += 1
    if not n_viol and (corr_bad or not ok):
        first = None
        if corr_bad:
            c, r, why = corr_bad[0]
            first = {"case": case_json(c, r), "model_says": why}
        ctx.violation({"property": "C06", "broken": "correspondence coq/C06 apply models = implementation output" if corr_bad
                       else "proof obligations of Properties/C06.v", "proof_report": rep if not ok else None,
                       "first_differing_case": first, "n_differing": len(corr_bad)}, no_input=True)
