"""C01 source-level language: AST (tuples), Fortran printer and a source-level evaluator that
follows the Fortran rules for the constructs the PSyclone reader lowers (SELECT CASE, WHERE /
ELSEWHERE, array assignment) -- it is the reference meaning the re-written program is compared to.

Expressions (all values are integers; logicals 0/1; reals restricted to integer values):
  ("lit", z) ("rlit", z) ("blit", 0|1) ("var", x) ("idx", a, [e..]) ("un", "Neg"|"Not", e)
  ("bin", op, l, r) ("intr", F, [e..])            F as in vlib.minifort.INTRS values (IMin ...)
  ("inq", F, a, d, named)                         SIZE/LBOUND/UBOUND(a, [dim=]d)
  ("sec", a, [sub..])   sub = (":",) | ("rng", lo, hi) | scalar expression       array section
  ("red", "SUM"|"MAXVAL"|"MINVAL"|"PRODUCT", array-expr)    reduction without dim=
  ("fcall", f, [(argname|None, e)..])             reference to a module function
Statements:
  ("assign", x, [ix..], e) ("if", c, th, el) ("elif", [(c, body)..], else_body) ("ifs", c, stmt)
  ("do", x, lo, hi, step|None, body) ("exit",) ("cycle",)
  ("select", sel, [(None | [("v", e) | ("r", lo|None, hi|None)..], body)..])      None = CASE DEFAULT
  ("where", mask, body, [(mask|None, body)..])   body items: ("wassign", a, subs, rhs) | ("where", ..)
  ("wheres", mask, ("wassign", a, subs, rhs))    single-statement WHERE
  ("aassign", a, subs, rhs)                      array-notation assignment
  ("call", p, [(argname|None, e)..])             call of a module subroutine
  ("cb", text)                                   unsupported statement (kept verbatim as a code block)
"""
import itertools

from vlib import minifort as mf

F_INTR = dict(mf.F_INTR)
F_BIN = dict(mf.F_BIN)


class Invalid(Exception):
    """the program is not valid Fortran on this input (out of bounds, non conformable, division by 0)"""


class Fuel(Exception):
    pass


class NotVerbatim(Exception):
    """a code block of the re-written program is not the text of source statements"""


def canon(text):
    return "".join(text.split()).lower()


def cb_map(stmts):
    """canonical text of every source statement -> the statement"""
    m = {}
    for s in walk_stmts(stmts):
        m.setdefault(canon("".join(ps([s], ""))), s)
    return m


def resolve_cb(text, cmap):
    """the source statements whose text (whitespace / case aside) is the code-block text, or None"""
    c = canon(text)
    out = []
    keys = sorted(cmap, key=len, reverse=True)
    while c:
        for k in keys:
            if k and c.startswith(k):
                out.append(cmap[k])
                c = c[len(k):]
                break
        else:
            return None
    return out


# ------------------------------------------------------------------------------ printing
def pe(e):
    k = e[0]
    if k == "lit":
        return str(e[1]) if e[1] >= 0 else "(%d)" % e[1]
    if k == "rlit":
        return "%d.0" % e[1] if e[1] >= 0 else "(%d.0)" % e[1]
    if k == "blit":
        return ".true." if e[1] else ".false."
    if k == "var":
        return e[1]
    if k == "idx":
        return "%s(%s)" % (e[1], ", ".join(pe(x) for x in e[2]))
    if k == "un":
        return "(-%s)" % pe(e[2]) if e[1] == "Neg" else "(.not. %s)" % pe(e[2])
    if k == "bin":
        return "(%s %s %s)" % (pe(e[2]), F_BIN[e[1]], pe(e[3]))
    if k == "intr":
        return "%s(%s)" % (F_INTR[e[1]].lower(), ", ".join(pe(x) for x in e[2]))
    if k == "inq":
        return "%s(%s, %s%d)" % (F_INTR[e[1]].lower(), e[2], "dim=" if e[4] else "", e[3])
    if k == "sec":
        return "%s(%s)" % (e[1], ", ".join(psub(s) for s in e[2]))
    if k == "red":
        return "%s(%s)" % (e[1].lower(), pe(e[2]))
    if k == "fcall":
        return "%s(%s)" % (e[1], ", ".join(parg(a) for a in e[2]))
    raise ValueError(e)


def psub(s):
    if s[0] == ":":
        return ":"
    if s[0] == "rng":
        if len(s) > 3:
            return "%s:%s:%s" % (pe(s[1]), pe(s[2]), pe(s[3]))
        return "%s:%s" % (pe(s[1]), pe(s[2]))
    return pe(s)


def parg(a):
    return ("%s=%s" % (a[0], pe(a[1]))) if a[0] else pe(a[1])


def pcase(vals):
    if vals is None:
        return "case default"
    out = []
    for v in vals:
        if v[0] == "v":
            out.append(pe(v[1]))
        else:
            out.append("%s:%s" % (pe(v[1]) if v[1] is not None else "", pe(v[2]) if v[2] is not None else ""))
    return "case (%s)" % ", ".join(out)


def pwassign(s):
    return "%s(%s) = %s" % (s[1], ", ".join(psub(x) for x in s[2]), pe(s[3]))


def ps(ss, ind="  "):
    out = []
    for s in ss:
        k = s[0]
        if k == "assign":
            lhs = s[1] if not s[2] else "%s(%s)" % (s[1], ", ".join(pe(x) for x in s[2]))
            out.append("%s%s = %s" % (ind, lhs, pe(s[3])))
        elif k == "if":
            out.append("%sif (%s) then" % (ind, pe(s[1])))
            out += ps(s[2], ind + "  ")
            if s[3]:
                out.append(ind + "else")
                out += ps(s[3], ind + "  ")
            out.append(ind + "end if")
        elif k == "elif":
            for n, (c, body) in enumerate(s[1]):
                out.append("%s%s (%s) then" % (ind, "if" if n == 0 else "else if", pe(c)))
                out += ps(body, ind + "  ")
            if s[2]:
                out.append(ind + "else")
                out += ps(s[2], ind + "  ")
            out.append(ind + "end if")
        elif k == "ifs":
            out.append("%sif (%s) %s" % (ind, pe(s[1]), ps([s[2]], "")[0]))
        elif k == "do":
            hdr = "%sdo %s = %s, %s" % (ind, s[1], pe(s[2]), pe(s[3]))
            if s[4] is not None:
                hdr += ", " + pe(s[4])
            out.append(hdr)
            out += ps(s[5], ind + "  ")
            out.append(ind + "end do")
        elif k in ("exit", "cycle"):
            out.append(ind + k)
        elif k == "select":
            out.append("%sselect case (%s)" % (ind, pe(s[1])))
            for vals, body in s[2]:
                out.append(ind + pcase(vals))
                out += ps(body, ind + "  ")
            out.append(ind + "end select")
        elif k == "where":
            out.append("%swhere (%s)" % (ind, pe(s[1])))
            out += ps(s[2], ind + "  ")
            for m, body in s[3]:
                out.append(ind + ("elsewhere (%s)" % pe(m) if m is not None else "elsewhere"))
                out += ps(body, ind + "  ")
            out.append(ind + "end where")
        elif k == "wheres":
            out.append("%swhere (%s) %s" % (ind, pe(s[1]), pwassign(s[2])))
        elif k in ("wassign", "aassign"):
            out.append(ind + pwassign(s))
        elif k == "call":
            out.append("%scall %s(%s)" % (ind, s[1], ", ".join(parg(a) for a in s[2])))
        elif k == "cb":
            out.append(ind + s[1])
        else:
            raise ValueError(s)
    return out


def pdecl(d, extra=""):
    v, ty, bs = d[0], d[1], d[2]
    if bs == "assumed":
        return "  %s, dimension(:)%s :: %s" % (ty, extra, v)
    if bs:
        dims = ", ".join(("%d" % b[1]) if (b[0] == 1 and len(d) > 3 and d[3] == "plain") else "%d:%d" % b for b in bs)
        return "  %s, dimension(%s)%s :: %s" % (ty, dims, extra, v)
    return "  %s%s :: %s" % (ty, extra, v)


def subroutine_text(name, stmts, decls):
    return "\n".join(["subroutine %s()" % name] + [pdecl(d) for d in decls] + ps(stmts) +
                     ["end subroutine %s" % name]) + "\n"


def cells(decls):
    """all storage cells of the declared variables, in printing order (column major)"""
    out = []
    for d in decls:
        v, bs = d[0], d[2]
        if not bs:
            out.append((v, ()))
        elif len(bs) == 1:
            out += [(v, (i,)) for i in range(bs[0][0], bs[0][1] + 1)]
        else:
            out += [(v, (i, j)) for j in range(bs[1][0], bs[1][1] + 1) for i in range(bs[0][0], bs[0][1] + 1)]
    return out


def init_lines(decls, vals):
    """initialisation of every declared variable: one line per variable (array constructors, column major)"""
    def lit(ty, z):
        if ty == "logical":
            return ".true." if z else ".false."
        if ty == "real":
            return "%d.0" % z
        return "%d" % z
    out = []
    for d in decls:
        v, ty, bs = d[0], d[1], d[2]
        cs = cells([d])
        if not bs:
            out.append("  %s = %s" % (v, lit(ty, vals.get(cs[0], 0))))
        elif len(bs) == 1:
            out.append("  %s = (/ %s /)" % (v, ", ".join(lit(ty, vals.get(c, 0)) for c in cs)))
        else:
            out.append("  %s = reshape((/ %s /), (/ %s /))" % (v, ", ".join(lit(ty, vals.get(c, 0)) for c in cs),
                                                              ", ".join(str(b[1] - b[0] + 1) for b in bs)))
    return out


def print_lines(decls):
    out = []
    for d in decls:
        v, ty = d[0], d[1]
        if ty == "logical":
            out.append("  print *, merge(1, 0, %s)" % v)
        elif ty == "real":
            out.append("  print *, nint(%s)" % v)
        else:
            out.append("  print *, %s" % v)
    return out


def _lit(ty, z):
    if ty == "logical":
        return ".true." if z else ".false."
    if ty == "real":
        return "%d.0" % z
    return "%d" % z


def proc_text(p):
    """p = dict(name, kind 'sub'|'fun', dummies [(name, type, intent, 'assumed'|None)], locals [decl], body, result)
    optional: params [(name, expr)] (local PARAMETER constants), inits {local: value} (initialised => static),
    static {"mech": "list"|"attr"|"bare", "names": [..]} (locals made static by a SAVE statement with a list, by the
    SAVE attribute, or by a bare SAVE statement)"""
    args = ", ".join(d[0] for d in p["dummies"])
    if p["kind"] == "sub":
        lines = ["  subroutine %s(%s)" % (p["name"], args)]
    else:
        lines = ["  function %s(%s) result(%s)" % (p["name"], args, p["result"])]
    for d in p["dummies"]:
        lines.append("  " + pdecl((d[0], d[1], d[3] or []), ", intent(%s)" % d[2]))
    for n, e in p.get("params", ()):
        lines.append("    integer, parameter :: %s = %s" % (n, pe(e)))
    st = p.get("static") or {"mech": None, "names": []}
    inits = p.get("inits", {})
    for d in p["locals"]:
        line = "  " + pdecl(d, ", save" if (st["mech"] == "attr" and d[0] in st["names"]) else "")
        if d[0] in inits:
            line += " = " + _lit(d[1], inits[d[0]])
        lines.append(line)
    if st["mech"] == "list":
        lines.append("    save :: " + ", ".join(st["names"]))
    elif st["mech"] == "bare":
        lines.append("    save")
    lines += ps(p["body"], "    ")
    lines.append("  end %s %s" % ("subroutine" if p["kind"] == "sub" else "function", p["name"]))
    return lines


def static_names(p):
    st = p.get("static") or {"mech": None, "names": []}
    if st["mech"] == "bare":
        return [d[0] for d in p["locals"]]
    return sorted(set(st["names"]) | set(p.get("inits", {})))


def module_decls(mod):
    """module variables as declarations (for printing their final values from the main program)"""
    return [(n, "integer", []) for n, _ in (mod or {}).get("vars", ())]


def program_text(name, stmts, decls, vals, procs=(), mod=None):
    """mod = dict(params [(name, int)], vars [(name, initial int)]): module PARAMETERs and module variables"""
    lines = []
    if procs:
        lines += ["module mm", "  implicit none"]
        for n, v in (mod or {}).get("params", ()):
            lines.append("  integer, parameter :: %s = %d" % (n, v))
        for n, v in (mod or {}).get("vars", ()):
            lines.append("  integer :: %s = %d" % (n, v))
        lines.append("contains")
        for p in procs:
            lines += proc_text(p)
        lines += ["end module mm"]
    lines += ["program %s" % name]
    if procs:
        lines.append("  use mm")
    lines.append("  implicit none")
    lines += [pdecl(d) for d in decls]
    lines += init_lines(decls, vals)
    lines += ps(stmts)
    lines += print_lines(decls + (module_decls(mod) if procs else []))
    lines.append("end program %s" % name)
    return "\n".join(lines) + "\n"


IDENT = None


def mixcase(text, rng):
    """the same program with the letter case of identifiers and keywords changed at random, occurrence by
    occurrence (Fortran is case-insensitive); names listed in SAVE statements are changed more often"""
    import re
    out = []
    for line in text.split("\n"):
        is_save = line.strip().lower().startswith("save")

        def f(m):
            w = m.group(0)
            c = rng.random()
            if is_save and w.lower() != "save":
                c = c * 0.45 + 0.55
            if c < 0.6:
                return w
            if c < 0.75:
                return w.upper()
            if c < 0.9:
                return w[0].upper() + w[1:]
            return "".join(ch.upper() if rng.random() < 0.5 else ch for ch in w)
        # identifiers / keywords; not the letters of .true. / .and. / exponent-free numeric literals
        out.append(re.sub(r"(?<![\w.])[A-Za-z_]\w*(?!\w*\.)", f, line))
    return "\n".join(out)


# ------------------------------------------------------------------------------ evaluation
def _quot(a, b):
    q = abs(a) // abs(b)
    return q if (a >= 0) == (b >= 0) else -q


HUGE = 2147483647


class Machine:
    """Store + evaluator.  bnds: name -> [(lb, ub)..] for arrays.  Every array access is bounds-checked
    (an out-of-bounds access makes the source program invalid: the case is skipped)."""

    def __init__(self, vals, bnds, procs=None, fuel=200000, mod=None, root=None):
        self.vals = dict(vals)
        self.bnds = dict(bnds)
        self.procs = {p["name"]: p for p in (procs or ())}
        self.root = root or self
        self.mod = mod or {}
        if root is None:
            self.statics = {}                                   # procedure -> {cell: value}
            self.modvals = {n: v for n, v in self.mod.get("vars", ())}
        self.fuel = fuel
        self.maxabs = 0
        self.cbmap = None      # canonical text -> source statements, to give code blocks their meaning

    # -- cells
    def chk(self, a, ix):
        bs = self.bnds.get(a)
        if bs is None:
            if ix:
                raise Invalid("subscripted scalar " + a)
            return
        if len(bs) != len(ix):
            raise Invalid("rank of " + a)
        for (lb, ub), i in zip(bs, ix):
            if i < lb or i > ub:
                raise Invalid("subscript of %s out of bounds" % a)

    def get(self, a, ix=()):
        self.chk(a, ix)
        return self.vals.get((a, tuple(ix)), 0)

    def put(self, a, ix, v):
        self.chk(a, ix)
        if abs(v) > self.maxabs:
            self.maxabs = abs(v)
        self.vals[(a, tuple(ix))] = v

    # -- scalar expressions
    def ev(self, e):
        k = e[0]
        if k in ("lit", "rlit", "blit"):
            return e[1]
        if k == "var":
            if e[1] in self.bnds:
                raise Invalid("whole array in scalar context")
            return self.get(e[1])
        if k == "idx":
            return self.get(e[1], [self.ev(x) for x in e[2]])
        if k == "un":
            a = self.ev(e[2])
            return -a if e[1] == "Neg" else (1 if a == 0 else 0)
        if k == "bin":
            return self.binop(e[1], self.ev(e[2]), self.ev(e[3]))
        if k == "intr":
            if e[1] in ("ILbound", "IUbound", "ISize"):      # form produced by the serialiser
                if len(e[2]) != 2 or e[2][0][0] != "var":
                    raise Invalid("inquiry")
                return self.ev(("inq", e[1], e[2][0][1], self.ev(e[2][1]), False))
            return self.intr(e[1], [self.ev(x) for x in e[2]])
        if k == "inq":
            bs = self.bnds.get(e[2])
            if not bs or e[3] < 1 or e[3] > len(bs):
                raise Invalid("inquiry")
            lb, ub = bs[e[3] - 1]
            return lb if e[1] == "ILbound" else ub if e[1] == "IUbound" else max(0, ub - lb + 1)
        if k == "red":
            sh = self.shape(e[2])
            if sh is None:
                raise Invalid("reduction of a scalar")
            vs = [self.elem(e[2], pos) for pos in positions(sh)]
            if e[1] == "SUM":
                return sum(vs)
            if e[1] == "PRODUCT":
                r = 1
                for v in vs:
                    r *= v
                return r
            if e[1] == "MAXVAL":
                return max(vs) if vs else -HUGE
            if e[1] == "MINVAL":
                return min(vs) if vs else HUGE
        if k == "fcall":
            return self.call(e[1], e[2], want_result=True)
        if k == "sec":
            raise Invalid("array section in scalar context")
        raise ValueError(e)

    def binop(self, o, a, b):
        if o == "Add":
            r = a + b
        elif o == "Sub":
            r = a - b
        elif o == "Mul":
            r = a * b
        elif o == "Div":
            if b == 0:
                raise Invalid("division by zero")
            r = _quot(a, b)
        elif o == "Pow":
            if b < 0:
                raise Invalid("negative exponent")
            r = a ** b
        elif o == "Eq":
            r = int(a == b)
        elif o == "Ne":
            r = int(a != b)
        elif o == "Lt":
            r = int(a < b)
        elif o == "Le":
            r = int(a <= b)
        elif o == "Gt":
            r = int(a > b)
        elif o == "Ge":
            r = int(a >= b)
        elif o == "And":
            r = int(a != 0 and b != 0)
        elif o == "Or":
            r = int(a != 0 or b != 0)
        else:
            raise ValueError(o)
        if abs(r) > self.maxabs:
            self.maxabs = abs(r)
        return r

    def intr(self, f, vs):
        if f == "IMin":
            return min(vs)
        if f == "IMax":
            return max(vs)
        if f == "IMod":
            if vs[1] == 0:
                raise Invalid("mod by zero")
            return vs[0] - vs[1] * _quot(vs[0], vs[1])
        if f == "IAbs":
            return abs(vs[0])
        if f == "ISign":
            return abs(vs[0]) if vs[1] >= 0 else -abs(vs[0])
        raise ValueError(f)

    # -- array-valued expressions
    def sec_shape(self, a, subs):
        bs = self.bnds.get(a)
        if bs is None or len(bs) != len(subs):
            raise Invalid("section of " + a)
        sh = []
        for (lb, ub), s in zip(bs, subs):
            if s[0] == ":":
                sh.append(max(0, ub - lb + 1))
            elif s[0] == "rng":
                lo, hi = self.ev(s[1]), self.ev(s[2])
                st = self.ev(s[3]) if len(s) > 3 else 1
                if st == 0:
                    raise Invalid("zero stride")
                n = max(0, _quot(hi - lo + st, st))
                if n > 0 and (min(lo, lo + (n - 1) * st) < lb or max(lo, lo + (n - 1) * st) > ub):
                    raise Invalid("section bounds")
                sh.append(n)
        return sh

    def shape(self, e):
        """extents of an array-valued expression; None for a scalar expression"""
        k = e[0]
        if k == "sec":
            sh = self.sec_shape(e[1], e[2])
            return sh if sh else None
        if k in ("un",):
            return self.shape(e[2])
        if k == "bin":
            return self.conform([self.shape(e[2]), self.shape(e[3])])
        if k == "intr":
            if e[1] in ("ILbound", "IUbound", "ISize"):
                return None
            return self.conform([self.shape(x) for x in e[2]])
        return None

    @staticmethod
    def conform(shapes):
        sh = None
        for s in shapes:
            if s is None:
                continue
            if sh is not None and sh != s:
                raise Invalid("non conformable")
            sh = s
        return sh

    def sec_index(self, a, subs, pos):
        bs = self.bnds[a]
        ix, r = [], 0
        for (lb, ub), s in zip(bs, subs):
            if s[0] == ":":
                ix.append(lb + pos[r])
                r += 1
            elif s[0] == "rng":
                ix.append(self.ev(s[1]) + pos[r] * (self.ev(s[3]) if len(s) > 3 else 1))
                r += 1
            else:
                ix.append(self.ev(s))
        return ix

    def elem(self, e, pos):
        """value of the array-valued (or scalar) expression at offset vector pos"""
        k = e[0]
        if k == "sec":
            return self.get(e[1], self.sec_index(e[1], e[2], pos))
        if k == "un":
            a = self.elem(e[2], pos)
            return -a if e[1] == "Neg" else (1 if a == 0 else 0)
        if k == "bin":
            return self.binop(e[1], self.elem(e[2], pos), self.elem(e[3], pos))
        if k == "intr" and e[1] not in ("ILbound", "IUbound", "ISize"):
            return self.intr(e[1], [self.elem(x, pos) for x in e[2]])
        return self.ev(e)

    # -- statements
    def tick(self):
        self.fuel -= 1
        if self.fuel <= 0:
            raise Fuel()

    def run(self, stmts):
        for st in stmts:
            self.tick()
            k = st[0]
            if k == "assign":
                ix = [self.ev(x) for x in st[2]]
                self.put(st[1], ix, self.ev(st[3]))
            elif k == "if":
                c = self.run(st[2] if self.ev(st[1]) != 0 else st[3])
                if c != "N":
                    return c
            elif k == "elif":
                for cnd, body in st[1]:
                    if self.ev(cnd) != 0:
                        c = self.run(body)
                        break
                else:
                    c = self.run(st[2])
                if c != "N":
                    return c
            elif k == "ifs":
                if self.ev(st[1]) != 0:
                    c = self.run([st[2]])
                    if c != "N":
                        return c
            elif k == "do":
                lo, hi = self.ev(st[2]), self.ev(st[3])
                stp = 1 if st[4] is None else self.ev(st[4])
                if stp == 0:
                    raise Invalid("zero step")
                n = max(0, _quot(hi - lo + stp, stp))
                done = False
                for kk in range(n):
                    self.put(st[1], (), lo + kk * stp)
                    c = self.run(st[5])
                    if c == "X":
                        done = True
                        break
                    if c == "R":
                        return "R"
                if not done:
                    self.put(st[1], (), lo + n * stp)
            elif k == "exit":
                return "X"
            elif k == "cycle":
                return "C"
            elif k == "return":
                return "R"
            elif k == "select":
                c = self.run(self.select(st))
                if c != "N":
                    return c
            elif k == "where":
                self.where(st[1], st[2], st[3], None)
            elif k == "wheres":
                self.where(st[1], [st[2]], [], None)
            elif k == "aassign":
                self.array_assign(st[1], st[2], st[3], None)
            elif k == "call":
                self.call(st[1], st[2], want_result=False)
            elif k == "cb":
                if self.cbmap is not None:
                    src = resolve_cb(st[1], self.cbmap)
                    if src is None:
                        raise NotVerbatim(st[1])
                    c = self.run([x for x in src if x[0] != "cb"])
                    if c != "N":
                        return c
            else:
                raise ValueError(st)
        return "N"

    def select(self, st):
        """Fortran: the selector is evaluated once; at most one block (the one whose case values match)
        is executed; CASE DEFAULT is chosen when no other block matches, wherever it is written."""
        v = self.ev(st[1])
        chosen, default = [], None
        for vals, body in st[2]:
            if vals is None:
                default = body
                continue
            hit = False
            for cv in vals:
                if cv[0] == "v":
                    hit = hit or self.ev(cv[1]) == v
                else:
                    lo = self.ev(cv[1]) if cv[1] is not None else None
                    hi = self.ev(cv[2]) if cv[2] is not None else None
                    hit = hit or ((lo is None or v >= lo) and (hi is None or v <= hi))
            if hit:
                chosen.append(body)
        if len(chosen) > 1:
            raise Invalid("overlapping case values")
        if chosen:
            return chosen[0]
        return default if default is not None else []

    def where(self, mask, body, els, outer):
        """Fortran 2008 7.2.3.2: the mask is evaluated once, before any assignment; each assignment
        statement is executed completely (all right-hand side elements, then all stores) under the
        control mask; ELSEWHERE masks are evaluated when reached, for the pending elements."""
        sh = self.shape(mask)
        if sh is None:
            raise Invalid("scalar mask")
        P = list(positions(sh))
        active = {p: (outer[p] if outer is not None else True) for p in P}
        m = {p: (self.elem(mask, p) != 0) for p in P if active[p]}
        ctrl = {p: active[p] and m[p] for p in P}
        pend = {p: active[p] and not m[p] for p in P}
        self.wbody(body, ctrl, sh)
        for m2, b2 in els:
            if m2 is None:
                ctrl, pend = pend, {p: False for p in P}
            else:
                if self.shape(m2) != sh:
                    raise Invalid("non conformable mask")
                mv = {p: (self.elem(m2, p) != 0) for p in P if pend[p]}
                ctrl = {p: pend[p] and mv[p] for p in P}
                pend = {p: pend[p] and not mv[p] for p in P}
            self.wbody(b2, ctrl, sh)

    def wbody(self, body, ctrl, sh):
        for st in body:
            self.tick()
            if st[0] == "wassign":
                if self.sec_shape(st[1], st[2]) != sh:
                    raise Invalid("non conformable where assignment")
                self.array_assign(st[1], st[2], st[3], ctrl)
            elif st[0] == "where":
                if self.shape(st[1]) != sh:
                    raise Invalid("non conformable nested mask")
                self.where(st[1], st[2], st[3], ctrl)
            elif st[0] == "wheres":
                if self.shape(st[1]) != sh:
                    raise Invalid("non conformable nested mask")
                self.where(st[1], [st[2]], [], ctrl)
            else:
                raise ValueError(st)

    def array_assign(self, a, subs, rhs, ctrl):
        sh = self.sec_shape(a, subs)
        rsh = self.shape(rhs)
        if rsh is not None and rsh != sh:
            raise Invalid("non conformable assignment")
        P = [p for p in positions(sh) if ctrl is None or ctrl[p]]
        vs = [self.elem(rhs, p) for p in P]          # the whole right-hand side first
        for p, v in zip(P, vs):
            self.put(a, self.sec_index(a, subs, p), v)

    # -- module procedures (arguments by copy-in / copy-out; the generator never aliases arguments)
    def call(self, name, args, want_result):
        self.tick()
        p = self.procs[name]
        dums = p["dummies"]
        bind = {}
        pos = 0
        for an, e in args:
            if an is None:
                bind[dums[pos][0]] = e
                pos += 1
            else:
                bind[an] = e
        sub = Machine({}, {}, self.procs.values(), self.fuel, mod=self.mod, root=self.root)
        sub.maxabs = self.maxabs
        root = self.root
        for n, v in self.mod.get("params", ()):
            sub.vals[(n, ())] = v
        for n, v in root.modvals.items():
            sub.vals[(n, ())] = v
        for n, e in p.get("params", ()):
            sub.vals[(n, ())] = sub.ev(e)
        snames = static_names(p)
        if name not in root.statics:
            root.statics[name] = {(n, ()): v for n, v in p.get("inits", {}).items()}
        sub.vals.update(root.statics[name])
        back = []
        for d in dums:
            e = bind[d[0]]
            if d[3] == "assumed":
                if e[0] != "var" or e[1] not in self.bnds or len(self.bnds[e[1]]) != 1:
                    raise Invalid("array actual argument")
                lb, ub = self.bnds[e[1]][0]
                sub.bnds[d[0]] = [(1, ub - lb + 1)]
                for i in range(lb, ub + 1):
                    sub.vals[(d[0], (i - lb + 1,))] = self.get(e[1], (i,))
                if d[2] != "in":
                    back.append(("arr", d[0], e[1], lb, ub))
            else:
                sub.vals[(d[0], ())] = self.ev(e)
                if d[2] != "in":
                    if e[0] not in ("var", "idx"):
                        raise Invalid("non-variable actual for intent(inout)")
                    back.append(("sc", d[0], e))
        for d in p["locals"]:
            if d[2]:
                sub.bnds[d[0]] = list(d[2])
        sub.run(p["body"])
        root.statics[name] = {c: v for c, v in sub.vals.items() if c[0] in snames}
        for n in list(root.modvals):
            root.modvals[n] = sub.vals.get((n, ()), 0)
        self.fuel = sub.fuel
        self.maxabs = max(self.maxabs, sub.maxabs)
        for b in back:
            if b[0] == "arr":
                _, dn, an, lb, ub = b
                for i in range(lb, ub + 1):
                    self.put(an, (i,), sub.vals.get((dn, (i - lb + 1,)), 0))
            else:
                _, dn, e = b
                ix = [self.ev(x) for x in e[2]] if e[0] == "idx" else []
                self.put(e[1], ix, sub.vals.get((dn, ()), 0))
        if want_result:
            return sub.vals.get((p["result"], ()), 0)
        return None


def positions(sh):
    return itertools.product(*[range(n) for n in sh])


def evaluate(stmts, vals, bnds, procs=None, cbmap=None, mod=None):
    """-> ("ok", vals, maxabs) | ("invalid", why) | ("notverbatim", text) | ("fuel",)
    (the final values of module variables are returned among vals)"""
    m = Machine(vals, bnds, procs, mod=mod)
    m.cbmap = cbmap
    try:
        m.run(stmts)
    except Invalid as e:
        return ("invalid", str(e))
    except NotVerbatim as e:
        return ("notverbatim", str(e))
    except Fuel:
        return ("fuel",)
    for n, v in m.modvals.items():
        m.vals[(n, ())] = v
    return ("ok", m.vals, m.maxabs)


# ------------------------------------------------------------------------------ traversal helpers
def walk_stmts(ss):
    """pre-order over all statements (including WHERE body items)"""
    for s in ss:
        yield s
        k = s[0]
        if k == "if":
            yield from walk_stmts(s[2])
            yield from walk_stmts(s[3])
        elif k == "elif":
            for _, b in s[1]:
                yield from walk_stmts(b)
            yield from walk_stmts(s[2])
        elif k == "ifs":
            yield from walk_stmts([s[2]])
        elif k == "do":
            yield from walk_stmts(s[5])
        elif k == "select":
            for _, b in s[2]:
                yield from walk_stmts(b)
        elif k == "where":
            yield from walk_stmts(s[2])
            for _, b in s[3]:
                yield from walk_stmts(b)
        elif k == "wheres":
            yield s[2]


def walk_expr(e):
    yield e
    k = e[0]
    if k in ("idx", "intr"):
        for x in e[2]:
            yield from walk_expr(x)
    elif k == "un":
        yield from walk_expr(e[2])
    elif k == "bin":
        yield from walk_expr(e[2])
        yield from walk_expr(e[3])
    elif k == "sec":
        for s in e[2]:
            if s[0] == "rng":
                for x in s[1:]:
                    yield from walk_expr(x)
            elif s[0] != ":":
                yield from walk_expr(s)
    elif k == "red":
        yield from walk_expr(e[2])
    elif k == "fcall":
        for _, x in e[2]:
            yield from walk_expr(x)


def where_exprs(w):
    """all mask / right-hand-side expressions of a WHERE construct (not of nested ones)"""
    if w[0] == "wheres":
        return [w[1], w[2][3]]
    out = [w[1]]
    for it in w[2]:
        if it[0] == "wassign":
            out.append(it[3])
    for m, b in w[3]:
        if m is not None:
            out.append(m)
        for it in b:
            if it[0] == "wassign":
                out.append(it[3])
    return out


def first_section(e):
    """the first array section of an expression in pre-order (the reader sizes the WHERE loop from it)"""
    for x in walk_expr(e):
        if x[0] == "sec" and any(s[0] in (":", "rng") for s in x[2]):
            return x
    return None
