"""C01: source programs (props/C01/srcl.py tuples) -> Gallina terms of coq/C01/Model.v (`sstmt`).
Only the modelled subset is encoded (NotModelled otherwise): assignments, IF (ELSE IF chains and
one-line IFs are written as nested TIf -- the reader's `_if_construct_handler` / `_if_stmt_handler`),
DO with optional step, EXIT / CYCLE, SELECT CASE, 1-D WHERE whose array operands are all `a(:)`
(one level of nesting)."""
from vlib import minifort as mf


class NotModelled(Exception):
    pass


def core_expr(e):
    """the expression as the reader represents it (negative literals are unary minus of a literal)"""
    k = e[0]
    if k in ("lit", "rlit"):
        return ("lit", e[1]) if e[1] >= 0 else ("un", "Neg", ("lit", -e[1]))
    if k == "blit":
        return ("lit", e[1])
    if k == "var":
        return e
    if k == "idx":
        return ("idx", e[1], [core_expr(x) for x in e[2]])
    if k == "un":
        return ("un", e[1], core_expr(e[2]))
    if k == "bin":
        return ("bin", e[1], core_expr(e[2]), core_expr(e[3]))
    if k == "intr":
        return ("intr", e[1], [core_expr(x) for x in e[2]])
    if k == "inq":
        return ("intr", e[1], [("var", e[2]), ("lit", e[3])])
    raise NotModelled("expression " + k)


def has_sec(e):
    k = e[0]
    if k == "sec":
        return True
    if k in ("idx", "intr"):
        return any(has_sec(x) for x in e[2])
    if k == "un":
        return has_sec(e[2])
    if k == "bin":
        return has_sec(e[2]) or has_sec(e[3])
    if k == "red":
        return True
    return False


# which index expression the reader builds for a strided section (probed on the real reader by check.py at
# the start of every run): True = start + (widx - 1) * stride, False = start + widx - 1 (stride dropped)
FX = True


def _first_sec(e):
    k = e[0]
    if k == "sec":
        return e
    subs = e[2] if k in ("idx", "intr") else [e[2]] if k in ("un", "red") else [e[2], e[3]] if k == "bin" else []
    for x in subs:
        r = _first_sec(x)
        if r is not None:
            return r
    return None


RED = {"SUM": "RSum", "PRODUCT": "RProduct", "MAXVAL": "RMaxval", "MINVAL": "RMinval"}


def wexpr(e, nm, rank1):
    if not has_sec(e):
        return "(WScal %s)" % mf.expr_to_coq(core_expr(e), nm)
    k = e[0]
    if k == "sec":
        if e[1] not in rank1 or len(e[2]) != 1:
            raise NotModelled("section form")
        sub = e[2][0]
        if sub == (":",):
            return "(WArr %d%%nat)" % nm.get(e[1])
        if sub[0] == "rng" and all(x[0] == "lit" and x[1] >= 0 for x in sub[1:]):
            st = sub[3][1] if len(sub) > 3 else 1
            return "(WSec %s %d%%nat (%d) (%d) (%d))" % ("true" if FX else "false", nm.get(e[1]), sub[1][1], sub[2][1], st)
        raise NotModelled("section form")
    if k == "un":
        return "(WUn %s %s)" % (e[1], wexpr(e[2], nm, rank1))
    if k == "bin":
        return "(WBin %s %s %s)" % (e[1], wexpr(e[2], nm, rank1), wexpr(e[3], nm, rank1))
    if k == "intr":
        if len(e[2]) == 1:
            return "(WIntr1 %s %s)" % (e[1], wexpr(e[2][0], nm, rank1))
        if len(e[2]) == 2:
            return "(WIntr2 %s %s %s)" % (e[1], wexpr(e[2][0], nm, rank1), wexpr(e[2][1], nm, rank1))
        raise NotModelled("intrinsic arity")
    if k == "red":
        return "(WRed %s %s)" % (RED[e[1]], wexpr(e[2], nm, rank1))
    raise NotModelled("array expression " + k)


def witem(it, nm, rank1, fresh):
    if it[0] == "wassign":
        if it[2] != [(":",)] or it[1] not in rank1:
            raise NotModelled("where lhs")
        return "(WAssign %d%%nat %s)" % (nm.get(it[1]), wexpr(it[3], nm, rank1))
    if it[0] in ("where", "wheres"):
        x = fresh()
        if it[0] == "wheres":
            mask, body, els = it[1], [it[2]], []
        else:
            mask, body, els = it[1], it[2], it[3]
        if els or any(b[0] != "wassign" or b[2] != [(":",)] or b[1] not in rank1 for b in body):
            raise NotModelled("nested where form")
        return "(WNest %d%%nat %s [%s])" % (nm.get(x), wexpr(mask, nm, rank1), "; ".join(
            "(%d%%nat, %s)" % (nm.get(b[1]), wexpr(b[3], nm, rank1)) for b in body))
    raise NotModelled("where item")


def cval(v, nm):
    if v[0] == "v":
        return "(CVal %s)" % mf.expr_to_coq(core_expr(v[1]), nm)
    lo, hi = v[1], v[2]
    if lo is not None and hi is not None:
        return "(CBetween %s %s)" % (mf.expr_to_coq(core_expr(lo), nm), mf.expr_to_coq(core_expr(hi), nm))
    if lo is not None:
        return "(CFrom %s)" % mf.expr_to_coq(core_expr(lo), nm)
    if hi is not None:
        return "(CUpto %s)" % mf.expr_to_coq(core_expr(hi), nm)
    raise NotModelled("case (:)")


def sstmts(ss, nm, rank1, fresh):
    return "[" + "; ".join(sstmt(s, nm, rank1, fresh) for s in ss) + "]"


def sstmt(s, nm, rank1, fresh):
    k = s[0]
    ex = lambda e: mf.expr_to_coq(core_expr(e), nm)
    if k == "assign":
        return "(TAssign %d%%nat [%s] %s)" % (nm.get(s[1]), "; ".join(ex(x) for x in s[2]), ex(s[3]))
    if k == "if":
        return "(TIf %s %s %s)" % (ex(s[1]), sstmts(s[2], nm, rank1, fresh), sstmts(s[3], nm, rank1, fresh))
    if k == "elif":
        # IF / ELSE IF / ELSE: each ELSE IF is an IfBlock alone in the else branch of the previous one
        conds = [(ex(c), sstmts(b, nm, rank1, fresh)) for c, b in s[1]]
        tail = sstmts(s[2], nm, rank1, fresh)
        for c, b in reversed(conds):
            tail = "[(TIf %s %s %s)]" % (c, b, tail)
        return tail[1:-1]
    if k == "ifs":
        return "(TIf %s %s [])" % (ex(s[1]), sstmts([s[2]], nm, rank1, fresh))
    if k == "do":
        st = "None" if s[4] is None else "(Some %s)" % ex(s[4])
        return "(TDo %d%%nat %s %s %s %s)" % (nm.get(s[1]), ex(s[2]), ex(s[3]), st, sstmts(s[5], nm, rank1, fresh))
    if k == "exit":
        return "TExit"
    if k == "cycle":
        return "TCycle"
    if k == "select":
        # the reader builds the blocks of the non-default clauses first and the CASE DEFAULT block last:
        # loop variables of WHERE constructs inside them are created in that order
        bodies = {}
        for n, (vals, body) in enumerate(s[2]):
            if vals is not None:
                bodies[n] = sstmts(body, nm, rank1, fresh)
        for n, (vals, body) in enumerate(s[2]):
            if vals is None:
                bodies[n] = sstmts(body, nm, rank1, fresh)
        cls = []
        for n, (vals, body) in enumerate(s[2]):
            if vals is None:
                cls.append("(None, %s)" % bodies[n])
            else:
                cls.append("(Some [%s], %s)" % ("; ".join(cval(v, nm) for v in vals), bodies[n]))
        return "(TSelect %s [%s])" % (ex(s[1]), "; ".join(cls))
    if k in ("where", "wheres"):
        x = fresh()
        if k == "wheres":
            mask, body, els = s[1], [s[2]], []
        else:
            mask, body, els = s[1], s[2], s[3]
        fs = _first_sec(mask)
        if fs is None or fs[2] != [(":",)]:
            raise NotModelled("loop sized from a section that is not full-range")
        b = "[%s]" % "; ".join(witem(it, nm, rank1, fresh) for it in body)
        e = []
        for m, bb in els:
            e.append("(%s, [%s])" % ("None" if m is None else "Some %s" % wexpr(m, nm, rank1),
                                     "; ".join(witem(it, nm, rank1, fresh) for it in bb)))
        return "(TWhere (mkW %d%%nat %s %s [%s]))" % (nm.get(x), wexpr(mask, nm, rank1), b, "; ".join(e))
    raise NotModelled("statement " + k)


def case(prog, lowered, decl_known, rank1, widx_names):
    """Coq term of type corr_case.  decl_known: array -> (lb, ub) for the arrays whose declaration the
    reader holds as an ArrayType with literal bounds; widx_names: the loop variables the reader created,
    in the order the WHERE constructs are met (pre-order)."""
    nm = mf.Names()
    nm.collect(lowered)
    names = list(widx_names)

    def fresh():
        if not names:
            raise NotModelled("more WHERE constructs than loop variables created")
        return names.pop(0)
    p = sstmts(prog, nm, rank1, fresh)
    if names:
        raise NotModelled("fewer WHERE constructs than loop variables created")
    d = "; ".join("(%d%%nat, ((%d), (%d)))" % (nm.get(a), b[0], b[1]) for a, b in sorted(decl_known.items()))
    return "([%s], %s, %s)" % (d, p, mf.stmts_to_coq(lowered, nm))
